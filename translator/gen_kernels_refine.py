"""T12p: the per-pixel bodies of `AbstractRefinement.loop_refinement` / `loop_approximate_refinement`
(pandora/refinement/refinement.py) -> Generated/KernelsRefine.lean, and the wiring of `subpixel_refinement` /
`approximate_subpixel_refinement` around them.

    loopRefinementPx method cvPix dispRC maskRC d_min d_max subpixel measure : Res (Val × Val × Nat)
    loopApproxRefinementPx method cvRow col dispRC maskRC d_min d_max subpixel measure : Res (Val × Val × Nat)

are what ONE iteration of the two `prange` loops leaves in `itp_coeff[row, col]`, `disp[row, col]`, `mask[row, col]`, as a
function of the cells the iteration reads: `cvPix = cv[row, col, :]` (resp. `cvRow = cv[row, :, :]` and `col`), the pixel's
disparity and flag word, the scalar parameters, and the callable `method` (a PARAMETER, as in the source: the theorems
instantiate it with the regenerated `Vfit` / `Quadratic.refinement_method` of Generated/Kernels.lean).

The function is a MAP KERNEL (checked structurally): prelude `n_row, n_col, n_disp = cv.shape`,
`itp_coeff = np.zeros((n_row, n_col), dtype=np.float64)`, one perfect nest `for row in prange(n_row): for col in prange(n_col):`,
`return itp_coeff, disp, mask`; the body reads and writes `itp_coeff`, `disp`, `mask` at `[row, col]` only and `cv` at
`[row, …]` only, so no value flows between pixels (`prange` read as `range`; order independence is C18's subject).

Semantics (as Model/Refinement.lean documents for numba): floats are `Val` (exact rationals or NaN, no rounding); `int(x)`
truncates toward zero, `int(NaN)` is undefined (`Err.nanDisparity`); a read `a[i]` is NOT bounds-checked by numba: a negative
index wraps once, anything else outside is undefined behaviour (`Err.outOfBounds`); `x / y` raises on a zero divisor
(`Err.zeroDivision`); `mask |= v`, `mask & c` on a uint16 word are `Nat` operations (`v` an int returned by `method`: `Int.toNat`).
Every effect (`int`, read, `/`, `method(...)`) is bound in program order before its value is used.

Two readings of the same AST: `render` (Lean text) and `interpret` (exact Python interpreter, used for the generated `example`s
and for the run-time comparison with the REAL compiled kernels in harness/props/C06.py).  Anything outside the forms below raises
`Unsupported`.
"""
from __future__ import annotations

import ast
import re
from fractions import Fraction

from . import gen_constants
from .common import Unsupported, digest, find_class, find_method, parse, write_if_changed
from .gen_kernels import module_aliases

NAME = "KernelsRefine"
SRC = "pandora/refinement/refinement.py"
CLS = "AbstractRefinement"
LOOPS = [("loop_refinement", "loopRefinementPx"), ("loop_approximate_refinement", "loopApproxRefinementPx")]
PARAMS = ["cv", "disp", "mask", "d_min", "d_max", "subpixel", "measure", "method"]
ORDER = {"nat": 0, "int": 1, "rat": 2, "val": 3}


def src(n) -> str:
    return ast.unparse(n)


class PyErr(Exception):
    """an error of the exact interpreter: zeroDivision | outOfBounds | nanDisparity"""


# ------------------------------------------------------------------------------------------------------------ exact values
def py_int(q: Fraction) -> int:
    import math
    return math.floor(q) if q >= 0 else -math.floor(-q)


def py_get(lst, i: int):
    if i >= 0:
        if i < len(lst):
            return lst[i]
        raise PyErr("outOfBounds")
    if -i <= len(lst):
        return lst[len(lst) + i]
    raise PyErr("outOfBounds")


def v2(op, a, b):
    return None if a is None or b is None else op(a, b)


# ------------------------------------------------------------------------------------------------------------ translation
class Pixel:  # noqa: R0902
    """translator of one loop function; `render()` -> Lean text of the per-pixel definition, `interpret(...)` -> exact value"""

    def __init__(self, fn: ast.FunctionDef, lean_name: str, consts, numpy_names, const_names):
        self.fn, self.lean_name = fn, lean_name
        self.consts, self.np, self.cst = consts, set(numpy_names), set(const_names)
        names = [a.arg for a in fn.args.args]
        if names != PARAMS or fn.args.vararg or fn.args.kwarg or fn.args.kwonlyargs:
            raise Unsupported(f"{SRC}: {fn.name}: parameters {names} (expected {PARAMS})")
        body = list(fn.body)
        if body and isinstance(body[0], ast.Expr) and isinstance(getattr(body[0], "value", None), ast.Constant) \
                and isinstance(body[0].value.value, str):
            body = body[1:]
        if len(body) != 4:
            raise Unsupported(f"{SRC}: {fn.name}: expected shape line, allocation, one loop nest, return")
        shp, alloc, loop, ret = body
        if not (isinstance(shp, ast.Assign) and isinstance(shp.targets[0], ast.Tuple) and len(shp.targets[0].elts) == 3
                and all(isinstance(e, ast.Name) for e in shp.targets[0].elts) and src(shp.value) == "cv.shape"):
            raise Unsupported(f"{SRC}: {fn.name}: first statement is not `n_row, n_col, n_disp = cv.shape`")
        self.n_row, self.n_col, self.n_disp = (e.id for e in shp.targets[0].elts)
        ok_alloc = (isinstance(alloc, ast.Assign) and isinstance(alloc.targets[0], ast.Name)
                    and any(src(alloc.value) == f"{n}.zeros(({self.n_row}, {self.n_col}), dtype={n}.float64)" for n in self.np))
        if not ok_alloc:
            raise Unsupported(f"{SRC}: {fn.name}: allocation `{src(alloc)[:80]}`")
        self.itp = alloc.targets[0].id
        def rng(f, bound):
            return (isinstance(f, ast.For) and isinstance(f.target, ast.Name) and not f.orelse
                    and src(f.iter) in (f"prange({bound})", f"range({bound})"))
        if not (rng(loop, self.n_row) and len(loop.body) == 1 and rng(loop.body[0], self.n_col)):
            raise Unsupported(f"{SRC}: {fn.name}: the loop nest is not `for r in prange(n_row): for c in prange(n_col):`")
        self.row, self.col = loop.target.id, loop.body[0].target.id
        if src(ret) != f"return ({self.itp}, disp, mask)":
            raise Unsupported(f"{SRC}: {fn.name}: `{src(ret)}`")
        self.body = loop.body[0].body
        self.uses_pix = self.uses_row = False
        self.uses_ndisp = self.uses_ncol = False
        self.counter = 0
        self.flag_ops = set()
        for n in (x for st in self.body for x in ast.walk(st)):
            if isinstance(n, ast.Name) and n.id in (self.n_row, self.row):
                self.check_row_use(n)
        self.text = None
        # the `if` whose body calls `method(...)` (its test is the guard T11 / T12 name), and the local bound by `int(...)` first
        self.guard_test, self.guard_kind, self.index_local = None, None, None
        for n in (x for st in self.body for x in ast.walk(st)):
            if isinstance(n, ast.If) and any(isinstance(b, ast.Assign) and isinstance(b.value, ast.Call)
                                             and src(b.value.func) == "method" for b in n.body):
                self.guard_test = n.test
                names = {m.id for m in ast.walk(n.test) if isinstance(m, ast.Name)}
                self.guard_kind = "index" if self.n_disp in names else ("value" if "d_min" in names else None)
            if self.index_local is None and isinstance(n, ast.Assign) and isinstance(n.targets[0], ast.Name) \
                    and isinstance(n.value, ast.Call) and src(n.value.func) == "int":
                self.index_local = n.targets[0].id

    def check_row_use(self, _):
        """`row` / `n_row` may only occur as the first subscript of an array: verified in `subscript`/`store`"""

    def bad(self, node, why):
        raise Unsupported(f"{SRC}: {self.fn.name}: {why}: `{src(node)[:90]}`")

    def fresh(self, stem):
        self.counter += 1
        return f"{stem}{self.counter}"

    # ---- expressions: -> (lean text, type, closure env -> value); effects are appended to `pre` as (name, lean, closure)
    def cast(self, e, to):
        text, ty, f = e
        if ty == to:
            return e
        if ty == "int" and to == "rat":
            return f"(({text} : Int) : Rat)", "rat", (lambda env: Fraction(f(env)))
        if ty == "int" and to == "val":
            return f"(Val.num (({text} : Int) : Rat))", "val", (lambda env: Fraction(f(env)))
        if ty == "rat" and to == "val":
            return f"(Val.num {text})", "val", f
        if ty == "nat" and to == "int":
            return f"(({text} : Nat) : Int)", "int", f
        raise Unsupported(f"{SRC}: {self.fn.name}: a {ty} used as a {to}")

    def join(self, a, b):
        ta, tb = a[1], b[1]
        if "bool" in (ta, tb) or "str" in (ta, tb):
            raise Unsupported(f"{SRC}: {self.fn.name}: arithmetic on {ta} / {tb}")
        # a non-negative integer literal next to a flag word is a flag word
        for x, y in ((a, b), (b, a)):
            m = re.fullmatch(r"\((\d+) : Int\)", x[0])
            if m and y[1] == "nat":
                lit = (f"({m.group(1)} : Nat)", "nat", x[2])
                a, b = (lit, b) if x is a else (a, lit)
                ta, tb = a[1], b[1]
        to = ta if ORDER[ta] >= ORDER[tb] else tb
        return self.cast(a, to), self.cast(b, to), to

    def expr(self, node, env, pre):  # noqa: C901
        if isinstance(node, ast.Constant) and isinstance(node.value, int) and not isinstance(node.value, bool):
            v = node.value
            return f"({v} : Int)", "int", (lambda e, v=v: v)
        if isinstance(node, ast.Name):
            if node.id in env:
                text, ty = env[node.id]
                return text, ty, (lambda e, k=node.id: e[k])
            if node.id == self.n_disp:
                self.uses_ndisp = True
                return "n_disp", "int", (lambda e: e["#n_disp"])
            if node.id == self.n_col:
                self.uses_ncol = True
                return "n_col", "int", (lambda e: e["#n_col"])
            if node.id == self.col:
                return "col", "int", (lambda e: e["#col"])
            self.bad(node, "unknown name")
        if isinstance(node, ast.Attribute) and isinstance(node.value, ast.Name):
            if node.value.id in self.np and node.attr == "nan":
                return "Val.nan", "val", (lambda e: None)
            if node.value.id in self.cst and node.attr in self.consts:
                v = int(self.consts[node.attr])
                return f"({v} : Nat)", "nat", (lambda e, v=v: v)
            self.bad(node, "unknown attribute")
        if isinstance(node, ast.UnaryOp) and isinstance(node.op, ast.USub):
            t, ty, f = self.expr(node.operand, env, pre)
            if ty == "val":
                return f"(PyExpr.vneg {t})", "val", (lambda e: None if f(e) is None else -f(e))
            if ty in ("int", "rat"):
                return f"(-{t})", ty, (lambda e: -f(e))
            self.bad(node, f"minus of a {ty}")
        if isinstance(node, ast.UnaryOp) and isinstance(node.op, ast.Not):
            t, ty, f = self.expr(node.operand, env, pre)
            if ty != "bool":
                self.bad(node, "`not` of a non-boolean")
            return f"(!{t})", "bool", (lambda e: not f(e))
        if isinstance(node, ast.BoolOp) and isinstance(node.op, ast.And):
            parts = []
            for v in node.values:
                sub = []
                p = self.expr(v, env, sub)
                if sub and parts:
                    self.bad(node, "an effect (read / int / division) under the right operand of `and`")
                pre.extend(sub)
                if p[1] != "bool":
                    self.bad(node, "`and` of a non-boolean")
                parts.append(p)
            return ("(" + " && ".join(p[0] for p in parts) + ")", "bool",
                    (lambda e, ps=parts: all(p[2](e) for p in ps)))
        if isinstance(node, ast.BinOp):
            return self.binop(node, env, pre)
        if isinstance(node, ast.Compare):
            if len(node.ops) != 1 or not isinstance(node.ops[0], (ast.NotEq, ast.Eq)):
                self.bad(node, "comparison outside the subset (== and != only)")
            a = self.expr(node.left, env, pre)
            b = self.expr(node.comparators[0], env, pre)
            a, b, ty = self.join(a, b)
            ne = isinstance(node.ops[0], ast.NotEq)
            if ty == "val":
                fn = "PyExpr.vne" if ne else "PyExpr.veq"
                return (f"({fn} {a[0]} {b[0]})", "bool",
                        (lambda e: (a[2](e) is None or b[2](e) is None or a[2](e) != b[2](e)) if ne
                         else (a[2](e) is not None and b[2](e) is not None and a[2](e) == b[2](e))))
            op = "!=" if ne else "=="
            return f"({a[0]} {op} {b[0]})", "bool", (lambda e: (a[2](e) != b[2](e)) if ne else (a[2](e) == b[2](e)))
        if isinstance(node, ast.Call):
            return self.call(node, env, pre)
        if isinstance(node, ast.Subscript):
            return self.subscript(node, env, pre)
        self.bad(node, "expression outside the subset")

    def binop(self, node, env, pre):
        a = self.expr(node.left, env, pre)
        b = self.expr(node.right, env, pre)
        if isinstance(node.op, ast.BitAnd):
            if a[1] != "nat" or b[1] != "nat":
                self.bad(node, "`&` on something else than flag words")
            return f"({a[0]} &&& {b[0]})", "nat", (lambda e: a[2](e) & b[2](e))
        if isinstance(node.op, ast.Div):
            a2 = self.cast(a, "val")
            b2 = self.cast(b, "rat") if b[1] in ("int", "rat") else self.bad(node, "division by a float that may be NaN")
            name = self.fresh("q")
            def run(e):
                d = b2[2](e)
                if d == 0:
                    raise PyErr("zeroDivision")
                x = a2[2](e)
                return None if x is None else Fraction(x) / Fraction(d)
            pre.append((name, f"divBy {a2[0]} {b2[0]}", run))
            return name, "val", (lambda e, k=name: e[k])
        table = {ast.Add: ("+", "PyExpr.vadd", lambda x, y: x + y), ast.Sub: ("-", "PyExpr.vsub", lambda x, y: x - y),
                 ast.Mult: ("*", "PyExpr.vmul", lambda x, y: x * y)}
        if type(node.op) not in table:
            self.bad(node, "operator outside the subset")
        sym, vfn, op = table[type(node.op)]
        a, b, ty = self.join(a, b)
        if ty == "nat":
            a, b, ty = self.cast(a, "int"), self.cast(b, "int"), "int"
        if ty == "val":
            return f"({vfn} {a[0]} {b[0]})", "val", (lambda e: v2(op, a[2](e), b[2](e)))
        return f"({a[0]} {sym} {b[0]})", ty, (lambda e: op(a[2](e), b[2](e)))

    def call(self, node, env, pre):
        f = node.func
        if isinstance(f, ast.Name) and f.id == "int" and len(node.args) == 1 and not node.keywords:
            x = self.cast(self.expr(node.args[0], env, pre), "val")
            name = self.fresh("i")
            def run(e):
                v = x[2](e)
                if v is None:
                    raise PyErr("nanDisparity")
                return py_int(Fraction(v))
            pre.append((name, f"intOf {x[0]}", run))
            return name, "int", (lambda e, k=name: e[k])
        if isinstance(f, ast.Attribute) and isinstance(f.value, ast.Name) and f.value.id in self.np and f.attr == "isnan" \
                and len(node.args) == 1 and not node.keywords:
            x = self.expr(node.args[0], env, pre)
            if x[1] != "val":
                self.bad(node, "np.isnan of a non-float")
            return f"(Val.isNan {x[0]})", "bool", (lambda e: x[2](e) is None)
        self.bad(node, "call outside the subset")

    def pixel_index(self, node):
        sl = node.slice
        return isinstance(sl, ast.Tuple) and [src(e) for e in sl.elts] == [self.row, self.col]

    def subscript(self, node, env, pre):
        base = src(node.value)
        if base == "disp" and self.pixel_index(node):
            return env["#disp"][0], "val", (lambda e: e["#disp"])
        if base == "mask" and self.pixel_index(node):
            return env["#mask"][0], "nat", (lambda e: e["#mask"])
        if base == "cv" and isinstance(node.slice, ast.Tuple) and len(node.slice.elts) == 3 \
                and src(node.slice.elts[0]) == self.row:
            _, j, k = node.slice.elts
            ke = self.cast(self.expr(k, env, pre), "int")
            name = self.fresh("t")
            if src(j) == self.col:
                self.uses_pix = True
                pre.append((name, f"readAt cvPix {ke[0]}", (lambda e: py_get(e["#cvPix"], ke[2](e)))))
            else:
                self.uses_row = True
                je = self.cast(self.expr(j, env, pre), "int")
                pre.append((name, f"readAt2 cvRow {je[0]} {ke[0]}",
                            (lambda e: py_get(py_get(e["#cvRow"], je[2](e)), ke[2](e)))))
            return name, "val", (lambda e, k=name: e[k])
        self.bad(node, "subscript outside the subset (arrays are read at [row, col] / cv[row, …] only)")

    # ---- statements, continuation-passing: returns (lean lines, runner(env) -> None mutating env)
    def block(self, stmts, env, ind):  # noqa: C901
        if not stmts:
            res = f"Res.ok ({env['#itp'][0]}, {env['#disp'][0]}, {env['#mask'][0]})"
            return [ind + res], (lambda e: None)
        st, rest = stmts[0], stmts[1:]
        pre = []
        lines = []
        def emit_pre():
            out = []
            for name, lean, _ in pre:
                out.append(f"{ind}bind ({lean}) fun {name} =>")
            return out
        def run_pre(e):
            for name, _, fn in pre:
                e[name] = fn(e)
        if isinstance(st, ast.If):
            c = self.expr(st.test, env, pre)
            if c[1] != "bool":
                self.bad(st.test, "test is not a boolean")
            tl, tr = self.block(list(st.body) + rest, dict(env), ind + "  ")
            el, er = self.block(list(st.orelse) + rest, dict(env), ind + "  ")
            lines = emit_pre() + [f"{ind}if {c[0]} then"] + tl + [f"{ind}else"] + el
            def run(e):
                run_pre(e)
                (tr if c[2](e) else er)(e)
            return lines, run
        if isinstance(st, ast.Assign) and len(st.targets) == 1 and isinstance(st.targets[0], ast.Tuple) \
                and isinstance(st.value, ast.Call) and src(st.value.func) == "method":
            names = [t.id if isinstance(t, ast.Name) else self.bad(st, "method result") for t in st.targets[0].elts]
            args = st.value.args
            if len(names) != 3 or len(args) != 3 or st.value.keywords or not isinstance(args[0], ast.List) \
                    or len(args[0].elts) != 3 or src(args[2]) != "measure":
                self.bad(st, "call of `method` outside the form `a, b, c = method([x0, x1, x2], d, measure)`")
            cs = [self.cast(self.expr(x, env, pre), "val") for x in args[0].elts]
            d = self.cast(self.expr(args[1], env, pre), "val")
            r = self.fresh("m")
            env2 = dict(env)
            for k, (nm, ty) in enumerate(zip(names, ("val", "val", "int"))):
                env2[nm] = (f"{r}.{'1' if k == 0 else ('2.1' if k == 1 else '2.2')}", ty)
            nl, nr = self.block(rest, env2, ind)
            lines = emit_pre() + [f"{ind}bind (liftPy (method {cs[0][0]} {cs[1][0]} {cs[2][0]} {d[0]} measure)) fun {r} =>"] + nl
            def run(e):
                run_pre(e)
                out = e["#method"]([c[2](e) for c in cs], d[2](e), e["#measure"])
                for nm, v in zip(names, out):
                    e[nm] = v
                nr(e)
            return lines, run
        if isinstance(st, ast.Assign) and len(st.targets) == 1 and isinstance(st.targets[0], ast.Name):
            nm = st.targets[0].id
            if nm in PARAMS or nm in (self.row, self.col, self.n_row, self.n_col, self.n_disp, self.itp):
                self.bad(st, "assignment to a name bound outside the pixel body")
            v = self.expr(st.value, env, pre)
            env2 = dict(env)
            lean_nm = f"v_{nm}"
            env2[nm] = (lean_nm, v[1])
            nl, nr = self.block(rest, env2, ind)
            lines = emit_pre() + [f"{ind}let {lean_nm} := {v[0]}"] + nl
            def run(e):
                run_pre(e)
                e[nm] = v[2](e)
                nr(e)
            return lines, run
        if isinstance(st, (ast.Assign, ast.AugAssign)):
            tgt = st.targets[0] if isinstance(st, ast.Assign) else st.target
            if not (isinstance(tgt, ast.Subscript) and self.pixel_index(tgt) and src(tgt.value) in (self.itp, "disp", "mask")):
                self.bad(st, "store outside `itp_coeff / disp / mask [row, col]`")
            which = {self.itp: "#itp", "disp": "#disp", "mask": "#mask"}[src(tgt.value)]
            v = self.expr(st.value, env, pre)
            if isinstance(st, ast.AugAssign):
                if which != "#mask" or not isinstance(st.op, (ast.BitOr, ast.Add)):
                    self.bad(st, "augmented store outside `mask[row, col] |= v` / `+= v`")
                self.flag_ops.add("or" if isinstance(st.op, ast.BitOr) else "add")
                if v[1] == "int":
                    v = (f"(Int.toNat {v[0]})", "nat", (lambda e, f=v[2]: max(f(e), 0)))
                if v[1] != "nat":
                    self.bad(st, "flag update by a non-integer")
                old = env["#mask"][0]
                if isinstance(st.op, ast.BitOr):
                    new = (f"({old} ||| {v[0]})", "nat", (lambda e: e["#mask"] | v[2](e)))
                else:
                    new = (f"({old} + {v[0]})", "nat", (lambda e: e["#mask"] + v[2](e)))
            else:
                want = "nat" if which == "#mask" else "val"
                new = self.cast(v, want)
            env2 = dict(env)
            lean_nm = self.fresh({"#itp": "itp", "#disp": "disp", "#mask": "mask"}[which])
            env2[which] = (lean_nm, new[1])
            nl, nr = self.block(rest, env2, ind)
            lines = emit_pre() + [f"{ind}let {lean_nm} := {new[0]}"] + nl
            def run(e):
                run_pre(e)
                e[which] = new[2](e)
                nr(e)
            return lines, run
        self.bad(st, "statement outside the subset")

    def translate(self):
        env = {"#itp": ("(Val.num 0)", "val"), "#disp": ("dispRC", "val"), "#mask": ("maskRC", "nat"),
               "d_min": ("d_min", "rat"), "d_max": ("d_max", "rat"), "subpixel": ("subpixel", "int")}
        lines, self.runner = self.block(list(self.body), env, "  ")
        params = ["(method : Val → Val → Val → Val → String → PyExpr.PyRes (Val × Val × Int))"]
        if self.uses_pix:
            params.append("(cvPix : List Val)")
        if self.uses_row:
            params.append("(cvRow : List (List Val)) (col : Int)")
        params.append("(dispRC : Val) (maskRC : Nat) (d_min d_max : Rat) (subpixel : Int) (measure : String)")
        head = [f"def {self.lean_name} " + " ".join(params) + " : Res (Val × Val × Nat) :="]
        if self.uses_ndisp:
            if not self.uses_pix:
                raise Unsupported(f"{SRC}: {self.fn.name}: n_disp is read but the pixel's cost row is not")
            head.append("  let n_disp : Int := (cvPix.length : Int)")
        if self.uses_ncol:
            if not self.uses_row:
                raise Unsupported(f"{SRC}: {self.fn.name}: n_col is read but the row of cost rows is not")
            head.append("  let n_col : Int := (cvRow.length : Int)")
        self.text = "\n".join(head + lines) + "\n"
        return self

    def interpret(self, method, disp, mask, d_min, d_max, subpixel, measure, cv_pix=None, cv_row=None, col=None):
        """-> ("ok", (itp, disp, mask)) | ("err", kind); numbers are Fractions, NaN is None"""
        e = {"#itp": Fraction(0), "#disp": disp, "#mask": mask, "d_min": Fraction(d_min), "d_max": Fraction(d_max),
             "subpixel": int(subpixel), "#measure": measure, "#method": method, "#cvPix": cv_pix, "#cvRow": cv_row,
             "#col": col, "#n_disp": len(cv_pix) if cv_pix is not None else None,
             "#n_col": len(cv_row) if cv_row is not None else None}
        try:
            self.runner(e)
        except PyErr as exc:
            return "err", str(exc)
        return "ok", (e["#itp"], e["#disp"], e["#mask"])


def kernels():
    mod = parse(SRC)
    numpy_names, const_names = module_aliases(mod, SRC)
    consts = gen_constants.extract()
    cls = find_class(mod, CLS)
    out = {}
    for meth, lean in LOOPS:
        fn = find_method(cls, meth)
        seen = set()
        for d in fn.decorator_list:
            call = d if isinstance(d, ast.Call) else None
            f = call.func if call else d
            name = f.id if isinstance(f, ast.Name) else (f.attr if isinstance(f, ast.Attribute) else None)
            if name == "staticmethod" and call is None:
                seen.add(name)
            elif name in ("njit", "jit"):
                for kw in (call.keywords if call else []):
                    if kw.arg not in ("parallel", "cache"):
                        raise Unsupported(f"{SRC}: {meth}: `{kw.arg}=` in `{src(d)[:60]}` may change the semantics")
            else:
                raise Unsupported(f"{SRC}: {meth}: unknown decorator `{src(d)[:60]}`")
        if "staticmethod" not in seen:
            raise Unsupported(f"{SRC}: {meth} is not a staticmethod")
        out[lean] = Pixel(fn, lean, consts, numpy_names, const_names).translate()
    return out


# ------------------------------------------------------------------------------------------------------------ wiring (b)
WIRING = {
    "subpixel_refinement": ("cv", "disp", "loop_refinement"),
    "approximate_subpixel_refinement": ("cv_left", "disp_right", "loop_approximate_refinement"),
}


def wiring():
    """what `subpixel_refinement` / `approximate_subpixel_refinement` pass to the loop and do with its results, with the locals
    resolved through their (single) assignments -> {method: [(role, source text)]}"""
    cls = find_class(parse(SRC), CLS)
    out = {}
    for meth, (cv, disp, loop) in WIRING.items():
        fn = find_method(cls, meth)
        names = [a.arg for a in fn.args.args]
        if names != ["self", cv, disp]:
            raise Unsupported(f"{SRC}: {meth}: parameters {names}")
        assigns, calls, rows = {}, [], []
        for st in ast.walk(fn):
            if isinstance(st, ast.Assign) and len(st.targets) == 1:
                t = st.targets[0]
                if isinstance(t, ast.Name):
                    if t.id in assigns:
                        raise Unsupported(f"{SRC}: {meth}: `{t.id}` is assigned twice")
                    assigns[t.id] = src(st.value)
                elif isinstance(t, ast.Tuple) and isinstance(st.value, ast.Call) and src(st.value.func) == f"self.{loop}":
                    calls.append(st)
                elif isinstance(t, ast.Subscript) or isinstance(t, ast.Attribute):
                    rows.append((f"store:{src(t)}", src(st.value)))
        if len(calls) != 1:
            raise Unsupported(f"{SRC}: {meth}: expected one call of self.{loop}, found {len(calls)}")
        call = calls[0]
        if call.value.keywords or len(call.value.args) != len(PARAMS):
            raise Unsupported(f"{SRC}: {meth}: arguments of self.{loop}")
        res = [(f"arg:{p}", assigns.get(src(a), src(a)) if isinstance(a, ast.Name) else src(a))
               for p, a in zip(PARAMS, call.value.args)]
        res += [(f"result:{k}", assigns.get(src(t), src(t)) if isinstance(t, ast.Name) else src(t))
                for k, t in zip(("itp_coeff", "disp", "mask"), call.targets[0].elts)]
        itp_local = src(call.targets[0].elts[0])
        res += sorted(rows)
        ren = {cv: "CV", disp: "DISP", itp_local: "ITP"}

        def norm(text):
            head, _, tail = text.partition(":") if text.startswith(("store:", "arg:", "result:")) else ("", "", text)
            tree = ast.parse(tail, mode="eval")
            for n in ast.walk(tree):
                if isinstance(n, ast.Name) and n.id in ren:
                    n.id = ren[n.id]
            return (head + ":" if head else "") + ast.unparse(tree)
        out[meth] = [(norm(k) if k.startswith("store:") else k, norm(v)) for k, v in res]
    return out


# ------------------------------------------------------------------------------------------------------------ rendering
HEADER = """-- GENERATED by translator/gen_kernels_refine.py from pandora/refinement/refinement.py. Do not edit.
import PandoraModel.Model.Refinement
import PandoraModel.Model.PyExpr
set_option linter.unusedVariables false
namespace Pandora.Generated.KernelsRefine
open Pandora Pandora.Refinement

/-! ### run-time support (fixed text): the effects of a numba pixel body -/

def bind {α β : Type} (x : Res α) (f : α → Res β) : Res β :=
  match x with
  | .ok a => f a
  | .err e => .err e

/-- `int(x)` of a float: truncation toward zero; `int(NaN)` is undefined in numba -/
def intOf : Val → Res Int
  | .nan => .err .nanDisparity
  | .num q => .ok (pyInt q)

/-- numba's unchecked list / array read: a negative index wraps around once, anything else outside is undefined behaviour -/
def getG {α : Type} (l : List α) (i : Int) : Option α :=
  if 0 ≤ i then l[i.toNat]?
  else if -i ≤ (l.length : Int) then l[l.length - (-i).toNat]?
  else none

def readAt (l : List Val) (i : Int) : Res Val :=
  match getG l i with
  | some v => .ok v
  | none => .err .outOfBounds

def readAt2 (m : List (List Val)) (i j : Int) : Res Val :=
  match getG m i with
  | some l => readAt l j
  | none => .err .outOfBounds

/-- `x / y`, `y` a number: ZeroDivisionError on a zero divisor (numba's default error model) -/
def divBy (a : Val) (b : Rat) : Res Val := if b = 0 then .err .zeroDivision else .ok (PyExpr.vdiv a (.num b))

def liftPy {α : Type} : PyExpr.PyRes α → Res α
  | .ok a => .ok a
  | .zeroDivision => .err .zeroDivision

"""

N = None
F = Fraction
# golden pixels: (cvPix, disp, mask, d_min, d_max, subpixel, measure)
GOLDEN_PIX = [
    ([5, 1, 3], 0, 0, -1, 1, 1, "min"), ([5, 1, 3], 0, 4, -1, 1, 1, "min"), ([5, 1, 3], 0, 1, -1, 1, 1, "min"),
    ([5, 1, 3], -1, 0, -1, 1, 1, "min"), ([5, 1, 3], 1, 8, -1, 1, 1, "min"), ([N, 1, 3], 0, 0, -1, 1, 1, "min"),
    ([5, N, 3], 0, 0, -1, 1, 1, "min"), ([1, 4, 3], 0, 0, -1, 1, 1, "max"), ([1, 4, 3], 0, 0, -1, 1, 1, "min"),
    ([0, 2, 1, 3, 5], F(-1, 2), 16, -1, 1, 2, "min"), ([5, 1, 3], N, 0, -1, 1, 1, "min"), ([5, 1, 3], 4, 0, -1, 1, 1, "min"),
    ([5, 1, 3], F(1, 4), 0, -1, 1, 1, "min"), ([5, 1, 3], 0, 0, -1, 1, 0, "min"),
]
# golden rows for the approximate loop: (cvRow, col, disp, mask, d_min, d_max, subpixel, measure)
GOLDEN_ROW = [
    ([[9, 9, 9], [9, 5, 9], [9, 1, 9], [9, 3, 9]], 2, 0, 0, -1, 1, 1, "min"),
    ([[9, 9, 7], [9, 1, 9], [2, 9, 9]], 1, 0, 0, -1, 1, 1, "min"),
    ([[9, 9, 7], [9, 1, 9], [2, 9, 9]], 1, 0, 1, -1, 1, 1, "min"),
    ([[9, 9, 7], [9, 1, 9], [2, 9, 9]], 0, 1, 0, -1, 1, 1, "min"),
    ([[9, 9, 7], [9, N, 9], [2, 9, 9]], 1, 0, 0, -1, 1, 1, "min"),
    ([[9, 9, 7], [9, 1, 9], [2, 9, 9]], 1, N, 0, -1, 1, 1, "min"),
    ([[9, 9, 7], [9, 1, 9], [2, 9, 9]], 2, -1, 0, -1, 1, 1, "min"),
]


def vfit_like(costs, disp, measure):
    """a stand-in `method` for the generated `example`s (Lean side: `stubMethod`): stop on a NaN neighbour, else the mid-point"""
    c0, c1, c2 = costs
    if c0 is None or c2 is None:
        return (Fraction(0), c1, 8)
    return (Fraction(1, 2) if measure == "min" else Fraction(-1, 2), c0 + c2, 0)


STUB = """/-- a stand-in `method` for the `example`s below (the same function in translator/gen_kernels_refine.py: `vfit_like`) -/
def stubMethod (c0 c1 c2 d : Val) (measure : String) : PyExpr.PyRes (Val × Val × Int) :=
  match c0, c2 with
  | .num a, .num b => .ok (.num (if measure == "min" then 1/2 else -1/2), .num (a + b), 0)
  | _, _ => .ok (.num 0, c1, 8)
"""


def lv(v):
    if v is None:
        return "Val.nan"
    q = Fraction(v)
    return f"Val.num ({q.numerator} : Rat)" if q.denominator == 1 else f"Val.num (({q.numerator} : Rat) / {q.denominator})"


def lq(v):
    q = Fraction(v)
    return f"({q.numerator} : Rat)" if q.denominator == 1 else f"(({q.numerator} : Rat) / {q.denominator})"


def lres(r):
    if r[0] == "err":
        return f"Res.err Err.{r[1]}"
    itp, d, m = r[1]
    return f"Res.ok ({lv(itp)}, {lv(d)}, ({m} : Nat))"


def exact(x):
    if isinstance(x, list):
        return [exact(v) for v in x]
    return None if x is None else Fraction(x)


def golden(ks):
    out = []
    k = ks["loopRefinementPx"]
    for cv, d, m, lo, hi, sp, meas in GOLDEN_PIX:
        r = k.interpret(vfit_like, exact(d), m, lo, hi, sp, meas, cv_pix=exact(cv))
        out.append(f"example : loopRefinementPx stubMethod [{', '.join(lv(c) for c in cv)}] ({lv(d)}) {m} {lq(lo)} {lq(hi)} {sp} "
                   f"\"{meas}\" = {lres(r)} := by decide +kernel")
    k = ks["loopApproxRefinementPx"]
    for cv, col, d, m, lo, hi, sp, meas in GOLDEN_ROW:
        r = k.interpret(vfit_like, exact(d), m, lo, hi, sp, meas, cv_row=exact(cv), col=col)
        rows = ", ".join("[" + ", ".join(lv(c) for c in row) + "]" for row in cv)
        out.append(f"example : loopApproxRefinementPx stubMethod [{rows}] {col} ({lv(d)}) {m} {lq(lo)} {lq(hi)} {sp} "
                   f"\"{meas}\" = {lres(r)} := by decide +kernel")
    return out


def render(ks, wires) -> str:
    lines = [HEADER]
    fn_src = {}
    for meth, lean in LOOPS:
        k = ks[lean]
        body = "\n".join(src(s) for s in k.body).replace("-/", "- /").replace("/-", "/ -")
        lines.append(f"/- {SRC}: {CLS}.{meth}, body of `for {k.row} in prange({k.n_row}): for {k.col} in prange({k.n_col})`")
        lines.append(body)
        lines.append("-/")
        lines.append(k.text)
        fn_src[lean] = body
    lines.append(STUB)
    lines.append("-- what the translator's own exact interpreter computes on a few pixels, checked here by evaluation")
    lines += golden(ks)
    lines.append("")
    lines.append("/-- how the flag word is updated in `loop_refinement`: `|=` (true) or `+=` (false) -/")
    ops = ks["loopRefinementPx"].flag_ops
    lines.append(f"def flagUpdateIsOr : Bool := {'true' if ops == {'or'} else 'false'}")
    lines.append("")
    lines.append("/-- what the two public methods pass to the loops and do with the results (locals resolved) -/")
    for meth, rows in wires.items():
        lean = "wiring" + "".join(p.capitalize() for p in meth.split("_"))
        lines.append(f"def {lean} : List (String × String) := [")
        lines.append(",\n".join(f"  ({_s(k)}, {_s(v)})" for k, v in rows))
        lines.append("]")
    lines.append("")
    lines.append("end Pandora.Generated.KernelsRefine")
    return "\n".join(lines) + "\n"


def _s(x: str) -> str:
    return '"' + x.replace("\\", "\\\\").replace('"', '\\"').replace("\n", " ") + '"'


def generate():
    ks = kernels()
    wires = wiring()
    write_if_changed("KernelsRefine.lean", render(ks, wires))
    return {"T12p": {"source": [SRC], "digest": digest(SRC), "kernels": sorted(ks), "wiring": {k: len(v) for k, v in wires.items()}}}
