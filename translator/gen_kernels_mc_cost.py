"""T12 (matching-cost measures, goal 3 of E8): the ELEMENT-WISE formulas of the measures, read pointwise from the numpy
code with translator/pyexpr.py -> Generated/KernelsMcCost.lean

  sad_ssd.py  ad_cost / sd_cost        cost = abs(L[…] - R[…]) / (L[…] - R[…]) ** 2 in each of the three branches (band + 3-D
                                       right image, band + 2-D shifted right image, no band)      -> adCostBand3/Band2/Mono, sdCost…
                                       with, per branch, WHICH array each operand is: (image, where its band index was
                                       looked up, which column interval) — resolved through the assignments of the
                                       function, not compared as text                                -> …Operands
  sad_ssd.py  pixel_wise_aggregation   the `as_strided` window view (shape, strides) and `np.sum(…, (0, 1))`
                                                                                                     -> pixelWiseAggregation, aggOutCols/Rows
  sad_ssd.py  compute_cost_volume      the four `cv[…] = np.nan` of the border under `if offset_row_col:`   -> reNan
  census.py   census_cost              `xor_ = L[…].astype("uint32") ^ R[…].astype("uint32")`, `list(map(self.popcount32b, xor_))`
                                                                                                     -> censusXor, censusCost
  zncc.py     compute_cost_volume      `zncc_ -= img_left_mean[…] * img_right_mean[i_right][…]`        -> znccCov
  zncc.py     apply_divide_standard    the product of the two std slices, the masks `> 0` / `<= 0`, `/=` and `= 0`
                                                                                                     -> divideStandardD, …Valid, …Zero, …Cell
  img_tools.py compute_std_raster      `var = mean_power_two - mean_ ** 2`, `var[np.where(var < 10 ** (-15) * abs(mean_power_two))] = 0`
                                                                                                     -> stdVar, stdVarTiny, stdRadicand

The pointwise reading of numpy: an arithmetic operator between two arrays of the same shape acts element by element; the
column slices `a:b` of the two operands have the same length (Properties/C02KernelsMc.std_lengths, the collapse of
`point_interval`), so element (row, j) of the result is the expression on element (row, a + j) of each operand.  An operand
array becomes an *atom* (a scalar parameter `l` / `r` / …) of translator/pyexpr.py; what the atom stands for is recorded next
to the kernel (`…Operands`) and proved to be what the model reads.  Validated on every run of `./check C02` against the REAL
functions on random arrays (harness/props/C02.py: check_mc_cost).
"""
from __future__ import annotations

import ast
from fractions import Fraction

from . import pyexpr
from .common import Unsupported, digest, find_class, find_function, find_method, lean_str, parse, read_source, write_if_changed
from .pyexpr import INT, NAT, RAT

NAME = "KernelsMcCost"
SAD = "pandora/matching_cost/sad_ssd.py"
CENSUS = "pandora/matching_cost/census.py"
ZNCC = "pandora/matching_cost/zncc.py"
IMG_TOOLS = "pandora/img_tools.py"
SRC = [SAD, CENSUS, ZNCC, IMG_TOOLS]


def norm(node) -> str:
    return ast.unparse(node).replace("\n", " ")


# ------------------------------------------------------------------------------------------------
# operands: `img_left["im"].data[band, :, point_p[0]:point_p[1]]`
# ------------------------------------------------------------------------------------------------
def band_lookups(fn) -> dict:
    """name -> image whose band list is searched: `band_index_x = list(<img>.band_im.data).index(self._band)`"""
    out = {}
    for n in ast.walk(fn):
        if isinstance(n, ast.Assign) and len(n.targets) == 1 and isinstance(n.targets[0], ast.Name):
            v = n.value
            if (isinstance(v, ast.Call) and isinstance(v.func, ast.Attribute) and v.func.attr == "index"
                    and len(v.args) == 1 and norm(v.args[0]) == "self._band" and isinstance(v.func.value, ast.Call)
                    and norm(v.func.value.func) == "list" and len(v.func.value.args) == 1):
                src = norm(v.func.value.args[0])
                img = {"img_left.band_im.data": "left", "img_right.band_im.data": "right"}.get(src)
                if img is None:
                    raise Unsupported(f"band index `{norm(n)}` is not looked up in img_left / img_right")
                name = n.targets[0].id
                if name in out and out[name] != img:
                    raise Unsupported(f"`{name}` is looked up in two different images")
                out[name] = img
    return out


def operand(node: ast.Subscript, lookups: dict, what: str):
    """(image, band looked up in, columns) of `img_x['im'].data[…]`; None if the node is not such a subscript"""
    base = norm(node.value)
    image = {"img_left['im'].data": "left", "img_right['im'].data": "right"}.get(base)
    if image is None:
        return None
    elts = list(node.slice.elts) if isinstance(node.slice, ast.Tuple) else [node.slice]

    def full(s):
        return isinstance(s, ast.Slice) and s.lower is None and s.upper is None and s.step is None

    if len(elts) == 3:
        b, rows, cols = elts
        if not isinstance(b, ast.Name) or b.id not in lookups:
            raise Unsupported(f"{what}: band index `{norm(b)}` of `{norm(node)}` is not a looked-up band index")
        band = lookups[b.id]
    elif len(elts) == 2:
        rows, cols = elts
        band = "none"
    else:
        raise Unsupported(f"{what}: `{norm(node)}`: unexpected subscript")
    if not full(rows):
        raise Unsupported(f"{what}: `{norm(node)}`: the row subscript is not `:`")
    if not (isinstance(cols, ast.Slice) and cols.step is None and cols.lower is not None and cols.upper is not None):
        raise Unsupported(f"{what}: `{norm(node)}`: the column subscript is not `a:b`")
    lo, hi = norm(cols.lower), norm(cols.upper)
    which = {("point_p[0]", "point_p[1]"): "p", ("point_q[0]", "point_q[1]"): "q"}.get((lo, hi))
    if which is None:
        raise Unsupported(f"{what}: `{norm(node)}`: the columns are not point_p[0]:point_p[1] / point_q[0]:point_q[1]")
    return image, band, which


def pointwise(expr, lookups, lean_name, what, rel, wrap=None, ty=RAT, **opts):
    """translate `expr` with its two image operands as the atoms `l` (left image) and `r` (right image)"""
    ops = {}
    for n in ast.walk(expr):
        if isinstance(n, ast.Subscript):
            o = operand(n, lookups, what)
            if o is not None:
                ops.setdefault(norm(n), o)
    if wrap:  # census: `.astype("uint32")` applied to each operand is part of the atom
        texts = {}
        for n in ast.walk(expr):
            if (isinstance(n, ast.Call) and isinstance(n.func, ast.Attribute) and n.func.attr == "astype" and len(n.args) == 1
                    and isinstance(n.args[0], ast.Constant) and n.args[0].value == wrap and norm(n.func.value) in ops):
                texts[norm(n)] = ops[norm(n.func.value)]
        if len(texts) != len(ops):
            raise Unsupported(f"{what}: an operand is not converted with .astype({wrap!r})")
        ops = texts
    by_image = {o[0]: (t, o) for t, o in ops.items()}
    if len(ops) != 2 or set(by_image) != {"left", "right"}:
        raise Unsupported(f"{what}: expected one operand of the left image and one of the right image, found {sorted(ops.values())}")
    atoms = [(by_image["left"][0], "l", ty), (by_image["right"][0], "r", ty)]
    k = pyexpr.translate_expression(expr, lean_name, atoms, source_text=read_source(rel), py_name=what, **opts)
    if k.ret_types != [ty] or k.partial:
        raise Unsupported(f"{what}: not a total {ty} expression")
    k.origin = f"{rel}: {what}"
    k.operands = [by_image["left"][1], by_image["right"][1]]
    return k


def cost_kernels(method: str, prefix: str) -> dict:
    """the three `cost = …` of SadSsd.ad_cost / sd_cost"""
    fn = find_method(find_class(parse(SAD), "SadSsd"), method)
    lookups = band_lookups(fn)
    top = [st for st in fn.body if isinstance(st, ast.If)]
    if len(top) != 1 or norm(top[0].test) != "self._band is not None":
        raise Unsupported(f"{SAD}: {method}: expected `if self._band is not None:` … `else:`")
    inner = [st for st in top[0].body if isinstance(st, ast.If)]
    if len(inner) != 1 or norm(inner[0].test) != "len(img_right['im'].data.shape) > 2":
        raise Unsupported(f"{SAD}: {method}: expected `if len(img_right['im'].data.shape) > 2:` inside the band branch")

    def the_cost(stmts, where):
        found = [st for st in stmts if isinstance(st, ast.Assign) and norm(st.targets[0]) == "cost"]
        if len(found) != 1:
            raise Unsupported(f"{SAD}: {method}: expected one `cost = …` in the {where} branch")
        return found[0].value

    ret = fn.body[-1]
    if not (isinstance(ret, ast.Return) and norm(ret.value) == "cost"):
        raise Unsupported(f"{SAD}: {method}: does not end with `return cost`")
    out = {}
    for suffix, stmts in (("Band3", inner[0].body), ("Band2", inner[0].orelse), ("Mono", top[0].orelse)):
        out[prefix + suffix] = pointwise(the_cost(stmts, suffix), lookups, prefix + suffix, f"SadSsd.{method} ({suffix})", SAD)
    return out


# ------------------------------------------------------------------------------------------------
# pixel_wise_aggregation: the strided window view
# ------------------------------------------------------------------------------------------------
def aggregation_reading() -> dict:
    fn = find_method(find_class(parse(SAD), "SadSsd"), "pixel_wise_aggregation")
    assigns = {norm(st.targets[0]): st.value for st in fn.body if isinstance(st, ast.Assign) and len(st.targets) == 1}
    if norm(assigns.get("(nb_disp, nx_, ny_)", ast.Constant(0))) != "cost_volume.shape":
        raise Unsupported(f"{SAD}: pixel_wise_aggregation: `nb_disp, nx_, ny_ = cost_volume.shape` not found")
    if norm(assigns.get("(str_disp, str_col, str_row)", ast.Constant(0))) != "cost_volume.strides":
        raise Unsupported(f"{SAD}: pixel_wise_aggregation: `str_disp, str_col, str_row = cost_volume.strides` not found")
    base_axis = {"str_disp": 0, "str_col": 1, "str_row": 2}  # position in cost_volume.shape = (disp, col, row)
    shape, strides = assigns.get("shape_windows"), assigns.get("strides_windows")
    if not (isinstance(shape, ast.Tuple) and isinstance(strides, ast.Tuple) and len(shape.elts) == len(strides.elts) == 5):
        raise Unsupported(f"{SAD}: pixel_wise_aggregation: shape_windows / strides_windows are not 5-tuples")
    axes = []
    for s in strides.elts:
        if not (isinstance(s, ast.Name) and s.id in base_axis):
            raise Unsupported(f"{SAD}: pixel_wise_aggregation: stride `{norm(s)}`")
        axes.append(base_axis[s.id])
    view = assigns.get("aggregation_window")
    if not (isinstance(view, ast.Call) and norm(view.func) == "np.lib.stride_tricks.as_strided"
            and [norm(a) for a in view.args] == ["cost_volume", "shape_windows", "strides_windows"]):
        raise Unsupported(f"{SAD}: pixel_wise_aggregation: the view is not as_strided(cost_volume, shape_windows, strides_windows)")
    total = assigns.get("cost_volume")
    if not (isinstance(total, ast.Call) and norm(total.func) == "np.sum" and len(total.args) == 2
            and norm(total.args[0]) == "aggregation_window" and isinstance(total.args[1], ast.Tuple)
            and all(isinstance(e, ast.Constant) and isinstance(e.value, int) for e in total.args[1].elts)) or total.keywords:
        raise Unsupported(f"{SAD}: pixel_wise_aggregation: the result is not np.sum(aggregation_window, (axes))")
    summed = [e.value for e in total.args[1].elts]
    ret = fn.body[-1]
    if not (isinstance(ret, ast.Return) and norm(ret.value) == "cost_volume"):
        raise Unsupported(f"{SAD}: pixel_wise_aggregation: does not return the sum")
    atoms = [("self._window_size", "w", INT), ("nb_disp", "nd", INT), ("nx_", "nx", INT), ("ny_", "ny", INT)]
    extents = [pyexpr.translate_expression(e, f"aggShape{i}", atoms, source_text=read_source(SAD),
                                           py_name=f"pixel_wise_aggregation: shape_windows[{i}]") for i, e in enumerate(shape.elts)]
    for k in extents:
        if k.ret_types != [INT] or k.partial:
            raise Unsupported(f"{SAD}: pixel_wise_aggregation: a window extent is not an integer expression")
    if sorted(summed) != [0, 1] or sorted(axes[i] for i in range(5) if i not in summed) != [0, 1, 2]:
        raise Unsupported(f"{SAD}: pixel_wise_aggregation: summed axes {summed} / kept axes do not cover (disp, col, row) once")
    return {"axes": axes, "summed": summed, "extents": extents}


def aggregate_python(reading, cv, w):
    """the generated reading evaluated on a numpy array `cv[disp, col, row]` (slow loops; the harness compares it with the
    real function)"""
    import numpy as np

    nd, nx, ny = cv.shape
    ext = [int(pyexpr.evaluate(k, w, nd, nx, ny)[1][0]) for k in reading["extents"]]
    kept = [i for i in range(5) if i not in reading["summed"]]
    out = np.zeros([ext[i] for i in kept], dtype=np.float64)
    for o in np.ndindex(*out.shape):
        acc = 0.0
        for s in np.ndindex(*[ext[i] for i in reading["summed"]]):
            view = dict(zip(kept, o))
            view.update(dict(zip(reading["summed"], s)))
            base = [0, 0, 0]
            for i, ax in enumerate(reading["axes"]):
                base[ax] += view[i]
            acc = acc + cv[tuple(base)]
        out[o] = acc
    return out


def render_aggregation(reading) -> list:
    lines = []
    for k in reading["extents"]:
        lines.append(pyexpr.render_lean(k, always_partial=False).rstrip())
    kept = [i for i in range(5) if i not in reading["summed"]]
    names = {kept[0]: "o0", kept[1]: "o1", kept[2]: "o2", reading["summed"][0]: "s0", reading["summed"][1]: "s1"}
    idx = []
    for ax in range(3):
        terms = [names[i] for i in range(5) if reading["axes"][i] == ax]
        idx.append("(" + " + ".join(terms) + ")")
    s0, s1 = reading["summed"]
    lines.append("/-- element `(o0, o1, o2)` of `np.sum(as_strided(cost_volume, shape_windows, strides_windows), (0, 1))`: the view element")
    lines.append("    `[v0, …, v4]` is the base element whose index along each axis of `cost_volume` (disp, col, row) is the sum of the")
    lines.append("    view indices carrying that axis' stride -/")
    lines.append("def pixelWiseAggregation (w nd nx ny : Int) (cv : Int → Int → Int → Val) (o0 o1 o2 : Int) : Val :=")
    lines.append(f"  MC.sumZ (Val.num 0) (fun s0 => MC.sumZ (Val.num 0) (fun s1 => cv {idx[0]} {idx[1]} {idx[2]}) 0 (aggShape{s1} w nd nx ny).toNat) 0 (aggShape{s0} w nd nx ny).toNat")
    lines.append(f"/-- the extents of the result, in the order of its axes -/")
    lines.append("def aggOutShape (w nd nx ny : Int) : Int × Int × Int := (" + ", ".join(f"aggShape{i} w nd nx ny" for i in kept) + ")")
    lines.append("/-- which axis of `cost_volume` (0 disp, 1 col, 2 row) each kept axis of the result runs along -/")
    lines.append("def aggOutAxes : List Nat := [" + ", ".join(str(reading["axes"][i]) for i in kept) + "]")
    return lines


# ------------------------------------------------------------------------------------------------
# the border re-NaN of SadSsd.compute_cost_volume
# ------------------------------------------------------------------------------------------------
def renan_reading() -> list:
    """[[(axis, 'lt' | 'ge')]] : one conjunction per `cv[…] = np.nan`, axes 0 row / 1 col / 2 disp (after the swapaxes)"""
    fn = find_method(find_class(parse(SAD), "SadSsd"), "compute_cost_volume")
    blocks = [st for st in fn.body if isinstance(st, ast.If) and norm(st.test) == "offset_row_col"]
    if len(blocks) != 1 or blocks[0].orelse:
        raise Unsupported(f"{SAD}: compute_cost_volume: expected one `if offset_row_col:` block")
    pos = fn.body.index(blocks[0])
    swaps = [i for i, st in enumerate(fn.body) if isinstance(st, ast.Assign) and norm(st) == "cv = np.swapaxes(cv, 0, 2)"]
    if len(swaps) != 1 or swaps[0] > pos:
        raise Unsupported(f"{SAD}: compute_cost_volume: `cv = np.swapaxes(cv, 0, 2)` does not precede the border block")
    out = []
    for st in blocks[0].body:
        if not (isinstance(st, ast.Assign) and len(st.targets) == 1 and isinstance(st.targets[0], ast.Subscript)
                and norm(st.targets[0].value) == "cv" and norm(st.value) == "np.nan" and isinstance(st.targets[0].slice, ast.Tuple)
                and len(st.targets[0].slice.elts) == 3):
            raise Unsupported(f"{SAD}: compute_cost_volume: `{norm(st)}` in the border block")
        conj = []
        for axis, s in enumerate(st.targets[0].slice.elts):
            if not isinstance(s, ast.Slice) or s.step is not None:
                raise Unsupported(f"{SAD}: compute_cost_volume: `{norm(st)}`: not a slice")
            lo, hi = (norm(s.lower) if s.lower else None), (norm(s.upper) if s.upper else None)
            if (lo, hi) == (None, None):
                continue
            if (lo, hi) == (None, "offset_row_col"):
                conj.append((axis, "lt"))
            elif (lo, hi) == ("-offset_row_col", None):
                conj.append((axis, "ge"))
            else:
                raise Unsupported(f"{SAD}: compute_cost_volume: `{norm(st)}`: slice `{norm(s)}`")
        out.append(conj)
    if not out:
        raise Unsupported(f"{SAD}: compute_cost_volume: empty border block")
    return out


def renan_source_statements() -> list:
    fn = find_method(find_class(parse(SAD), "SadSsd"), "compute_cost_volume")
    block = [st for st in fn.body if isinstance(st, ast.If) and norm(st.test) == "offset_row_col"][0]
    return [ast.unparse(block)]


def render_renan(reading) -> list:
    idx, ext = ["r", "c", "d"], ["rows", "cols", "nd"]
    parts = []
    for conj in reading:
        cs = [f"decide ({idx[a]} < o)" if k == "lt" else f"decide ({idx[a]} ≥ {ext[a]} - o)" for a, k in conj]
        parts.append("(" + " && ".join(cs) + ")" if cs else "true")
    return ["/-- is cell `(r, c, d)` of the `(rows, cols, nd)` volume set to NaN by the border block (`if offset_row_col:` = the offset is",
            "    not 0; `:o` selects the indices below `o`, `-o:` those from `n - o` on — for `0 ≤ o ≤ n`, which the window guarantees) -/",
            "def reNan (o rows cols nd r c d : Int) : Bool :=",
            "  (!decide (o = 0)) && (" + " || ".join(parts) + ")"]


# ------------------------------------------------------------------------------------------------
# census_cost
# ------------------------------------------------------------------------------------------------
def census_kernels() -> dict:
    fn = find_method(find_class(parse(CENSUS), "Census"), "census_cost")
    body = [st for st in fn.body if not (isinstance(st, ast.Expr) and isinstance(st.value, ast.Constant))]
    if len(body) != 2 or not (isinstance(body[0], ast.Assign) and norm(body[0].targets[0]) == "xor_"):
        raise Unsupported(f"{CENSUS}: census_cost: expected `xor_ = …` then a return")
    if not (isinstance(body[1], ast.Return) and norm(body[1].value) == "list(map(self.popcount32b, xor_))"):
        raise Unsupported(f"{CENSUS}: census_cost: the result is not list(map(self.popcount32b, xor_))")
    k = pointwise(body[0].value, {}, "censusXor", "Census.census_cost: xor_", CENSUS, wrap="uint32", ty=NAT, bitops=True)
    return {"censusXor": k}


# ------------------------------------------------------------------------------------------------
# zncc
# ------------------------------------------------------------------------------------------------
def zncc_kernels() -> dict:
    out = {}
    mod = parse(ZNCC)
    from .gen_kernels_mc import disparity_loop

    rel, fn, loop = disparity_loop("Zncc")
    subs = [st for st in loop.body if isinstance(st, ast.AugAssign) and norm(st.target) == "zncc_" and isinstance(st.op, ast.Sub)]
    if len(subs) != 1:
        raise Unsupported(f"{ZNCC}: compute_cost_volume: expected one `zncc_ -= …` in the disparity loop")
    prev = loop.body[loop.body.index(subs[0]) - 1]
    if norm(prev) != "zncc_ = compute_mean_raster(zncc_, self._window_size, self._band)":
        raise Unsupported(f"{ZNCC}: compute_cost_volume: `zncc_ -= …` does not follow the mean raster of the product")
    atoms = [("zncc_", "meanLR", RAT), ("img_left_mean[:, p_std[0]:p_std[1]]", "meanL", RAT),
             ("img_right_mean[i_right][:, q_std[0]:q_std[1]]", "meanR", RAT)]
    value = ast.BinOp(left=ast.Name(id="zncc_", ctx=ast.Load()), op=ast.Sub(), right=subs[0].value)
    k = pyexpr.translate_expression(value, "znccCov", atoms, source_text=None, py_name="Zncc.compute_cost_volume: zncc_ -= …")
    if k.ret_types != [RAT] or k.partial:
        raise Unsupported(f"{ZNCC}: the covariance is not a total expression")
    k.origin = f"{ZNCC}: Zncc.compute_cost_volume, `{norm(subs[0])}` (after zncc_ = mean raster of the product of the two slices)"
    out["znccCov"] = k
    nxt = loop.body[loop.body.index(subs[0]) + 1]
    if norm(nxt) != "apply_divide_standard(zncc_, img_left_std, img_right_std, p_std, q_std, i_right)":
        raise Unsupported(f"{ZNCC}: compute_cost_volume: apply_divide_standard is not called on (zncc_, img_left_std, img_right_std, p_std, q_std, i_right)")
    # apply_divide_standard(zncc, img_left, img_right, p_std, q_std, i_right)
    ads = find_function(mod, "apply_divide_standard")
    body = [st for st in ads.body if not (isinstance(st, ast.Expr) and isinstance(st.value, ast.Constant))]
    if [a.arg for a in ads.args.args] != ["zncc", "img_left", "img_right", "p_std", "q_std", "i_right"] or len(body) != 4:
        raise Unsupported(f"{ZNCC}: apply_divide_standard: unexpected signature / body")
    d, valid, div, zero = body
    if not (isinstance(d, ast.Assign) and norm(d.targets[0]) == "divide_standard" and isinstance(d.value, ast.Call)
            and norm(d.value.func) == "np.multiply" and len(d.value.args) == 2):
        raise Unsupported(f"{ZNCC}: apply_divide_standard: divide_standard is not np.multiply(a, b)")
    datoms = [("img_left[:, p_std[0]:p_std[1]]", "stdL", RAT), ("img_right[i_right][:, q_std[0]:q_std[1]]", "stdR", RAT)]
    prod = ast.BinOp(left=d.value.args[0], op=ast.Mult(), right=d.value.args[1])
    kd = pyexpr.translate_expression(prod, "divideStandardD", datoms, py_name="apply_divide_standard: divide_standard")
    kd.origin = f"{ZNCC}: apply_divide_standard, `{norm(d)}` (np.multiply read as the element-wise product)"
    out["divideStandardD"] = kd
    if not (isinstance(valid, ast.Assign) and norm(valid.targets[0]) == "valid" and isinstance(valid.value, ast.Call)
            and norm(valid.value.func) == "np.where" and len(valid.value.args) == 1):
        raise Unsupported(f"{ZNCC}: apply_divide_standard: `valid` is not np.where(test)")
    matoms = [("divide_standard", "d", RAT)]
    kv = pyexpr.translate_expression(valid.value.args[0], "divideStandardValid", matoms, py_name="apply_divide_standard: valid")
    kv.origin = f"{ZNCC}: apply_divide_standard, `{norm(valid)}`"
    out["divideStandardValid"] = kv
    if norm(div) != "zncc[valid] /= divide_standard[valid]":
        raise Unsupported(f"{ZNCC}: apply_divide_standard: `{norm(div)}` is not zncc[valid] /= divide_standard[valid]")
    if not (isinstance(zero, ast.Assign) and isinstance(zero.targets[0], ast.Subscript) and norm(zero.targets[0].value) == "zncc"
            and isinstance(zero.targets[0].slice, ast.Call) and norm(zero.targets[0].slice.func) == "np.where"
            and len(zero.targets[0].slice.args) == 1 and isinstance(zero.value, ast.Constant) and zero.value.value == 0):
        raise Unsupported(f"{ZNCC}: apply_divide_standard: `{norm(zero)}` is not zncc[np.where(test)] = 0")
    kz = pyexpr.translate_expression(zero.targets[0].slice.args[0], "divideStandardZero", matoms, py_name="apply_divide_standard: zero")
    kz.origin = f"{ZNCC}: apply_divide_standard, `{norm(zero)}`"
    out["divideStandardZero"] = kz
    for k in (kd, kv, kz):
        if k.partial:
            raise Unsupported(f"{ZNCC}: apply_divide_standard: a division inside a test")
    if kv.ret_types != ["bool"] or kz.ret_types != ["bool"] or kd.ret_types != [RAT]:
        raise Unsupported(f"{ZNCC}: apply_divide_standard: unexpected types")
    # compute_std_raster (img_tools.py)
    std = find_function(parse(IMG_TOOLS), "compute_std_raster")
    sb = std.body
    var = [st for st in sb if isinstance(st, ast.Assign) and norm(st.targets[0]) == "var"]
    tiny = [st for st in sb if isinstance(st, ast.Assign) and isinstance(st.targets[0], ast.Subscript) and norm(st.targets[0].value) == "var"]
    ret = sb[-1]
    if len(var) != 1 or len(tiny) != 1 or not (isinstance(ret, ast.Return) and norm(ret.value) == "np.sqrt(var)"):
        raise Unsupported(f"{IMG_TOOLS}: compute_std_raster: expected `var = …`, `var[np.where(…)] = 0`, `return np.sqrt(var)`")
    satoms = [("mean_power_two", "m2", RAT), ("mean_", "m", RAT), ("var", "v", RAT)]
    ks = pyexpr.translate_expression(var[0].value, "stdVar", satoms, source_text=read_source(IMG_TOOLS), py_name="compute_std_raster: var")
    ks.origin = f"{IMG_TOOLS}: compute_std_raster, `{norm(var[0])}`"
    t = tiny[0]
    if not (isinstance(t.targets[0].slice, ast.Call) and norm(t.targets[0].slice.func) == "np.where" and len(t.targets[0].slice.args) == 1
            and isinstance(t.value, ast.Constant) and t.value.value == 0):
        raise Unsupported(f"{IMG_TOOLS}: compute_std_raster: `{norm(t)}`")
    test = t.targets[0].slice.args[0]
    # `10 ** (-15)`: a negative literal exponent is outside pyexpr; the generator reads this one constant itself
    consts = {}
    class _Tiny(ast.NodeTransformer):
        def visit_BinOp(self, node):  # pylint: disable=invalid-name
            self.generic_visit(node)
            if norm(node) in ("10 ** (-15)", "10 ** -15"):
                consts["tiny"] = Fraction(1, 10 ** 15)
                return ast.Attribute(value=ast.Name(id="pyTiny", ctx=ast.Load()), attr="c", ctx=ast.Load())
            return node
    test2 = ast.fix_missing_locations(_Tiny().visit(ast.parse(norm(test), mode="eval").body))
    kt = pyexpr.translate_expression(test2, "stdVarTiny", satoms, consts={"pyTiny.c": consts.get("tiny", Fraction(0))} if consts else None,
                                     py_name="compute_std_raster: tiny variance")
    kt.origin = f"{IMG_TOOLS}: compute_std_raster, `{norm(t)}`  (10 ** (-15) read as the exact 1/10^15)"
    if ks.partial or kt.partial or ks.ret_types != [RAT] or kt.ret_types != ["bool"]:
        raise Unsupported(f"{IMG_TOOLS}: compute_std_raster: unexpected types")
    out["stdVar"] = ks
    out["stdVarTiny"] = kt
    return out


# ------------------------------------------------------------------------------------------------
GOLDEN_LR = [(0, 0), (3, 5), (5, 3), (Fraction(1, 4), Fraction(-3, 2)), (-2, -7)]


def build_all():
    """-> (kernels {name: Kernel}, agg reading | None, renan reading | None, errors {what: message})"""
    ks, errors = {}, {}
    for what, build in (("ad_cost", lambda: cost_kernels("ad_cost", "adCost")), ("sd_cost", lambda: cost_kernels("sd_cost", "sdCost")),
                        ("census_cost", census_kernels), ("zncc", zncc_kernels)):
        try:
            ks.update(build())
        except Unsupported as exc:
            errors[what] = str(exc)
    agg = ren = None
    try:
        agg = aggregation_reading()
    except Unsupported as exc:
        errors["pixel_wise_aggregation"] = str(exc)
    try:
        ren = renan_reading()
    except Unsupported as exc:
        errors["reNan"] = str(exc)
    return ks, agg, ren, errors


def lean_val(v, ty):
    if ty == NAT:
        return f"({int(v)} : Nat)"
    if ty == "bool":
        return "true" if v else "false"
    from .gen_kernels import lean_value

    return lean_value(v, ty)


def goldens(name, k) -> list:
    if k.ret_types == [NAT]:
        cases = [(0, 0), (5, 3), (0x1FFFFFF, 0x1555555), (0xFFFFFFFF, 1)]
    elif len(k.lean_params) == 1:
        cases = [(0,), (Fraction(1, 2),), (-3,)]
    elif len(k.lean_params) == 2:
        cases = GOLDEN_LR
    else:
        cases = [(5, 2, 3), (Fraction(1, 2), Fraction(1, 4), 2), (0, -1, 4), (Fraction(10 ** 15 + 1, 10 ** 15), 1, Fraction(1, 10 ** 16))]
    out = []
    for args in cases:
        res, vals = pyexpr.evaluate(k, *args)
        actual = " ".join(f"({lean_val(v, ty)})" for v, (_, ty) in zip(args, k.lean_params))
        out.append(f"example : {name} {actual} = {lean_val(vals[0], k.ret_types[0])} := by decide +kernel")
    return out


def render(ks, agg, ren, errors) -> str:
    lines = [
        "-- GENERATED by translator/gen_kernels_mc_cost.py (translator/pyexpr.py) from the Python source. Do not edit.",
        "import PandoraModel.Model.PyExpr",
        "import PandoraModel.Model.MatchingCost",
        "import PandoraModel.Generated.KernelsCensus",
        "set_option linter.unusedVariables false",
        "namespace Pandora.Generated.KernelsMcCost",
        "open Pandora",
        "",
    ]
    for name, k in ks.items():
        lines.append(f"/- {k.origin}")
        lines.append(k.source.replace("-/", "- /"))
        lines.append("-/")
        lines.append(pyexpr.render_lean(k, always_partial=False))
        if getattr(k, "operands", None):
            lines.append("/-- what `l` and `r` are: (image, image in whose band list the band index was looked up | none, column interval) -/")
            lines.append(f"def {name}Operands : List (String × String × String) := ["
                         + ", ".join(f"({lean_str(a)}, {lean_str(b)}, {lean_str(c)})" for a, b, c in k.operands) + "]")
        lines += goldens(name, k)
        lines.append("")
    if "censusXor" in ks:
        lines.append("/-- `list(map(self.popcount32b, xor_))`: the regenerated bit count of each element of the xor -/")
        lines.append("def censusCost (l r : Nat) : Nat := Pandora.Generated.KernelsCensus.popcount32b (censusXor l r)")
        lines.append("")
    if all(n in ks for n in ("divideStandardD", "divideStandardValid", "divideStandardZero")):
        lines.append("/-- one cell of `apply_divide_standard`, the statements in their order: `zncc[valid] /= divide_standard[valid]`, then")
        lines.append("    `zncc[np.where(zero)] = 0`.  The cell is carried as (numerator, divisor it was divided by | none): the quotient itself is not")
        lines.append("    taken here (the divisor is a product of two square roots) -/")
        lines.append("def divideStandardCell (cov d : Rat) : Rat × Option Rat :=")
        lines.append("  let z : Rat × Option Rat := (cov, none)")
        lines.append("  let z : Rat × Option Rat := if divideStandardValid d then (z.1, some d) else z")
        lines.append("  if divideStandardZero d then ((0 : Rat), none) else z")
        lines.append("")
    if agg is not None:
        lines += render_aggregation(agg) + [""]
    if ren is not None:
        lines += render_renan(ren) + [""]
    for what, msg in errors.items():
        lines.append(f"-- NOT TRANSLATED: {what}: " + msg.replace("\n", " ").replace("-/", "- /"))
    lines.append("end Pandora.Generated.KernelsMcCost")
    return "\n".join(lines) + "\n"


def generate():
    ks, agg, ren, errors = build_all()
    write_if_changed("KernelsMcCost.lean", render(ks, agg, ren, errors))
    if errors:
        raise Unsupported("; ".join(f"{n}: {m}" for n, m in errors.items()))
    return {"T12-mc-cost": {"source": SRC, "digest": digest(*SRC), "kernels": sorted(ks) + ["pixelWiseAggregation", "reNan"]}}
