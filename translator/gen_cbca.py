"""T-cbca: what `pandora/aggregation/cbca.py` says about the cross support and the four steps
-> Generated/Cbca.lean   (used by C11)

Extracted with `ast` only:
  * the class defaults `_CBCA_INTENSITY`, `_CBCA_DISTANCE`;
  * for the four arms of `cross_support`: the `range(...)` of the loop, the `break` condition and the
    "minimum 1" expression; the pixel `np.isfinite` is applied to in that expression decides the
    `MinRule` of the model (`loopVar`: the loop variable, `neighbour`: the adjacent pixel);
  * the index arithmetic of `cbca_step_1 .. 4` (integral-image reads, `min` of the left/right arms, the
    support-size count) and of the glue in `cost_volume_aggregation` (facing columns, NaN re-injection,
    `sum4 += 1`, normalisation).
Every expression is compared with the form the Lean model was written against; anything else raises
`Unsupported` (the obligation cannot be regenerated; DESIGN.md §6).
"""
from __future__ import annotations

import ast

from .common import Unsupported, digest, find_class, find_function, find_method, class_assign, lean_str, parse, write_if_changed

NAME = "Cbca"
SRC = "pandora/aggregation/cbca.py"

# arm k -> (length variable, loop variable, expected range, expected break test, anchor guard, neighbour forms)
ARMS = [
    ("left_len", "left", "range(row - 1, max(row - len_arms, -1), -1)", "abs(image[col, row] - image[col, left]) >= intensity",
     "row >= 1", "image[col, {}]", ["row - 1", "max(row - 1, 0)"]),
    ("right_len", "right", "range(row + 1, min(row + len_arms, n_row_))", "abs(image[col, row] - image[col, right]) >= intensity",
     "row < n_row_ - 1", "image[col, {}]", ["row + 1", "min(row + 1, n_row_ - 1)"]),
    ("up_len", "up_col", "range(col - 1, max(col - len_arms, -1), -1)", "abs(image[col, row] - image[up_col, row]) >= intensity",
     "col >= 1", "image[{}, row]", ["col - 1", "max(col - 1, 0)"]),
    ("bot_len", "bot", "range(col + 1, min(col + len_arms, n_col_))", "abs(image[col, row] - image[bot, row]) >= intensity",
     "col < n_col_ - 1", "image[{}, row]", ["col + 1", "min(col + 1, n_col_ - 1)"]),
]

# statements of the steps the model was written against: (function, normalised statement)
EXPECTED_STEPS = [
    ("cbca_step_1", "step1 = np.zeros((n_col_, n_row_ + 1), dtype=np.float32)"),
    ("cbca_step_1", "if not np.isnan(cv[col, row]):\n    step1[col, row] = step1[col, row - 1] + cv[col, row]\nelse:\n    step1[col, row] = step1[col, row - 1]"),
    ("cbca_step_2", "right = min(cross_left[col, range_col[row], 1], cross_right[col, range_col_right[row], 1])"),
    ("cbca_step_2", "left = min(cross_left[col, range_col[row], 0], cross_right[col, range_col_right[row], 0])"),
    ("cbca_step_2", "step2[col, range_col[row]] = step1[col, range_col[row] + right] - step1[col, range_col[row] - left - 1]"),
    ("cbca_step_2", "sum_step2[col, range_col[row]] += right + left"),
    ("cbca_step_3", "step3 = np.zeros((n_col_ + 1, n_row_), dtype=np.float32)"),
    ("cbca_step_3", "step3[0, :] = step2[0, :]"),
    ("cbca_step_3", "step3[col, row] = step3[col - 1, row] + step2[col, row]"),
    ("cbca_step_4", "top = min(cross_left[col, range_col[row], 2], cross_right[col, range_col_right[row], 2])"),
    ("cbca_step_4", "bot = min(cross_left[col, range_col[row], 3], cross_right[col, range_col_right[row], 3])"),
    ("cbca_step_4", "step4[col, range_col[row]] = step3[col + bot, range_col[row]] - step3[col - top - 1, range_col[row]]"),
    ("cbca_step_4", "sum4[col, range_col[row]] += top + bot"),
    ("cbca_step_4", "if top != 0:\n    sum4[col, range_col[row]] += np.sum(sum2[col - top:col, range_col[row]])"),
    ("cbca_step_4", "if bot != 0:\n    sum4[col, range_col[row]] += np.sum(sum2[col + 1:col + bot + 1, range_col[row]])"),
    ("cost_volume_aggregation", "agg += np.swapaxes(cv_data, 0, 2)"),
    ("cost_volume_aggregation", "agg *= 0"),
    ("cost_volume_aggregation", "i_right = int(disparity_range[dsp] % 1 * cv.attrs['subpixel'])"),
    ("cost_volume_aggregation", "range_col_right = range_col + disparity_range[dsp]"),
    ("cost_volume_aggregation", "valid_index = np.where((range_col_right >= 0) & (range_col_right < cross_right[i_right].shape[1]))"),
    ("cost_volume_aggregation", "sum4 += 1"),
    ("cost_volume_aggregation", "agg[dsp, :, :] += np.swapaxes(step4, 0, 1)"),
    ("cost_volume_aggregation", "agg[dsp, :, :] /= np.swapaxes(sum4, 0, 1)"),
]


def norm(node) -> str:
    return ast.unparse(node)


def all_stmts(fn):
    out = []
    for node in ast.walk(fn):
        if isinstance(node, ast.stmt) and not isinstance(node, (ast.FunctionDef, ast.For)):
            out.append(norm(node))
    return out


def const_num(node, what):
    if isinstance(node, ast.Constant) and isinstance(node.value, (int, float)) and not isinstance(node.value, bool):
        return node.value
    raise Unsupported(f"{what}: expected a numeric literal")


def extract_arms(fn):
    """returns the list of the four min-rule variants"""
    fors = [n for n in ast.walk(fn) if isinstance(n, ast.For)]
    assigns = [n for n in ast.walk(fn) if isinstance(n, ast.Assign)]
    variants = []
    for k, (len_var, loop_var, exp_range, exp_break, guard, img_fmt, nb_forms) in enumerate(ARMS):
        loops = [f for f in fors if isinstance(f.target, ast.Name) and f.target.id == loop_var]
        if len(loops) != 1:
            raise Unsupported(f"cross_support: expected one loop over `{loop_var}`")
        loop = loops[0]
        if norm(loop.iter) != exp_range:
            raise Unsupported(f"cross_support: arm {k} loop range is `{norm(loop.iter)}`, model written for `{exp_range}`")
        body = [norm(s) for s in loop.body]
        if body != [f"if {exp_break}:\n    break", f"{len_var} += 1"] or loop.orelse:
            raise Unsupported(f"cross_support: arm {k} loop body not recognised: {body}")
        # initial value of the loop variable (`left = row`) and of the length
        inits = [norm(a) for a in assigns]
        init_var = f"{loop_var} = {'row' if k < 2 else 'col'}"
        if f"{len_var} = 0" not in inits:
            raise Unsupported(f"cross_support: `{len_var} = 0` not found")
        target = f"cross[col, row, {k}]"
        rhs = [a for a in assigns if len(a.targets) == 1 and norm(a.targets[0]) == target]
        if len(rhs) != 1:
            raise Unsupported(f"cross_support: expected one assignment to {target}")
        got = norm(rhs[0].value)
        loop_form = f"max({len_var}, 1 * ({guard}) * np.isfinite({img_fmt.format(loop_var)}))"
        nb = [f"max({len_var}, 1 * ({guard}) * np.isfinite({img_fmt.format(f)}))" for f in nb_forms]
        if got == loop_form:
            if init_var not in inits:
                raise Unsupported(f"cross_support: `{init_var}` not found (the loop variable is read after a loop that may not run)")
            variants.append("loopVar")
        elif got in nb:
            variants.append("neighbour")
        else:
            raise Unsupported(f"cross_support: arm {k} minimum rule `{got}` not recognised")
    # the anchor guard and the default arms
    tests = [norm(n.test) for n in ast.walk(fn) if isinstance(n, ast.If)]
    if "np.isfinite(image[col, row])" not in tests:
        raise Unsupported("cross_support: anchor guard `np.isfinite(image[col, row])` not found")
    if "cross = np.zeros((n_col_, n_row_, 4), dtype=np.int16)" not in [norm(a) for a in assigns]:
        raise Unsupported("cross_support: zero initialisation of `cross` not found")
    return variants


def extract():
    mod = parse(SRC)
    cls = find_class(mod, "CrossBasedCostAggregation")
    defaults = {
        "_CBCA_INTENSITY": float(const_num(class_assign(cls, "_CBCA_INTENSITY"), "_CBCA_INTENSITY")),
        "_CBCA_DISTANCE": int(const_num(class_assign(cls, "_CBCA_DISTANCE"), "_CBCA_DISTANCE")),
    }
    arms_by = "fingerprint"
    try:
        variants = extract_arms(find_function(mod, "cross_support"))
    except Unsupported:
        # The textual fingerprint does not recognise the arms (renamed locals, rewritten bounds, ...).  Since T14 the
        # whole function is TRANSLATED (translator/pyloops.py -> Generated/KernelsCbca.lean) and proved equal to the hand
        # model with the rule `neighbour` (Properties/C11Kernels.lean: crossSupport_generated_eq); the theorem
        # crossSupport_generated_eq_source states the same about `Generated.Cbca.minRule`, so the value written here is
        # checked by `lake build` (a function that uses another rule breaks that proof), and the harness probes the live
        # function as well (C11.source_rule).  Outside T14's subset too: refused.
        from . import gen_kernels_cbca

        gen_kernels_cbca.kernels()
        variants, arms_by = ["neighbour"] * 4, "T14 (checked by crossSupport_generated_eq_source)"
    if len(set(variants)) != 1:
        raise Unsupported(f"cross_support: the four arms use different minimum rules {variants} (not modelled)")
    missing = []
    stmts = {}
    for fname, stmt in EXPECTED_STEPS:
        if fname not in stmts:
            fn = find_method(cls, fname) if fname == "cost_volume_aggregation" else find_function(mod, fname)
            stmts[fname] = all_stmts(fn)
        if stmt not in stmts[fname]:
            missing.append((fname, stmt))
    steps_by = "fingerprint"
    if any(f.startswith("cbca_step_") for f, _ in missing):
        # The textual fingerprint does not recognise a statement of cbca_step_1..4 (renamed locals, commuted operands,
        # swapped branches, ...).  These four functions are TRANSLATED as a whole (translator/pyscan.py ->
        # Generated/KernelsCbcaSteps.lean) and proved equal to the hand model's step1..step4 / sum2 / sum4
        # (Properties/C11KernelsSteps.lean: cbcaStep1..4_generated_eq): `lake build` decides whether the rewritten text
        # still means the same.  Outside the translator's subset: refused (Unsupported).
        from . import gen_kernels_cbca_steps

        gen_kernels_cbca_steps.kernels()
        missing = [(f, s) for f, s in missing if not f.startswith("cbca_step_")]
        steps_by = "T14 (checked by cbcaStep1..4_generated_eq)"
    glue_by = "fingerprint"
    if missing and all(f == "cost_volume_aggregation" for f, _ in missing):
        # A glue statement of cost_volume_aggregation is not found verbatim.  The method is READ statement by statement
        # (translator/gen_kernels_cbca_glue.py -> Generated/KernelsCbcaGlue.lean) and proved equal to the hand model
        # (Properties/C11KernelsGlue.lean: aggPlane_generated_eq, iRight_generated_eq, wired_generated, …): `lake build`
        # decides whether the rewritten text still means the same.  Outside that reader's subset: refused (Unsupported).
        from . import gen_kernels_cbca_glue

        gen_kernels_cbca_glue.read_all()
        missing = []
        glue_by = "glue reader (checked by aggPlane_generated_eq)"
    if missing:
        raise Unsupported("cbca.py: statements the model was written against are no longer in the source: "
                          + "; ".join(f"{f}: `{s.splitlines()[0]}…`" for f, s in missing[:4]))
    return {"min_rule": variants[0], "defaults": defaults, "recognised_statements": len(EXPECTED_STEPS) + 4 * 4, "arms_read_by": arms_by, "steps_read_by": steps_by, "glue_read_by": glue_by}


def render(ext) -> str:
    num, den = float(ext["defaults"]["_CBCA_INTENSITY"]).as_integer_ratio()
    lines = [
        "-- GENERATED by translator/gen_cbca.py from pandora/aggregation/cbca.py. Do not edit.",
        "import PandoraModel.Model.Cbca",
        "",
        "namespace Pandora.Generated.Cbca",
        "open Pandora.Cbca",
        "",
        "/-- the pixel `np.isfinite` is applied to in the \"minimum 1\" rule of `cross_support` -/",
        f"def minRule : MinRule := .{ext['min_rule']}",
        "",
        f"def defaultDistance : Nat := {ext['defaults']['_CBCA_DISTANCE']}",
        f"def defaultIntensity : Rat := ({num} : Rat) / {den}",
        f"def source : String := {lean_str(SRC)}",
        "",
        "end Pandora.Generated.Cbca",
    ]
    return "\n".join(lines) + "\n"


def generate():
    ext = extract()
    write_if_changed("Cbca.lean", render(ext))
    return {"T-cbca": {"source": SRC, "digest": digest(SRC), "min_rule": ext["min_rule"], "defaults": ext["defaults"],
                       "recognised_statements": ext["recognised_statements"], "arms_read_by": ext["arms_read_by"]}}
