"""Statement-level translator (T14): numba kernels WITH LOOPS -> Lean 4 source text.  Extends translator/pyexpr.py (T12),
whose expression IR (`Ex`), typing (`int ⊑ rat ⊑ val`) and literal reading are reused.

Pipeline:   ast.FunctionDef --translate_map_kernel--> LoopKernel (typed tree over the per-pixel body)
            LoopKernel --render_lean--> Lean text            LoopKernel --evaluate_px--> exact value (same tree)
            ast.FunctionDef --interpret--> exact value (an INDEPENDENT, imperative, dynamically typed reading of the
                                           whole function: mutable locals, mutable arrays, real `for`/`break`)
The harness compares the REAL compiled function with `interpret` (whole arrays) and with `evaluate_px` (per pixel);
Lean checks `evaluate_px` against the rendered text on generated `example`s.

THE SUBSET (anything else raises `translator.common.Unsupported` — nothing is guessed)

  function      a "map kernel":   [docstring]
                                  prelude:  `a, b = arr.shape` | `x = e` | `out = np.zeros((e0, e1[, K]), dtype=np.T)`
                                  for v0 in range(e0):
                                      for v1 in range(e1):
                                          BODY
                                  return out
                with exactly one allocated array `out`, whose first two extents are textually the two loop bounds, `K` an
                integer literal.  BODY stores into `out` only at `out[v0, v1]` / `out[v0, v1, <literal k>]`, never reads
                `out` otherwise, never assigns `v0`, `v1`, and reads no local that it has not itself assigned before on
                every path (checked: no value flows from one pixel to the next).  Then `out[c, r, k]` is the k-th
                component of a function of `(c, r)`: that per-pixel function is what is translated (cells not stored on
                a path keep the 0 of `np.zeros`).
  parameters    declared by the generator: scalars as in pyexpr (`Param`: val / rat / int / bool) and arrays
                (`AParam`: element type int / val / ext, 1 to 3 dimensions).  An array becomes an index function
                `Int → … → α` plus one `Int` per extent (`image_n0`, `image_n1`).
  statements    docstring, `pass`; `x = e`, `x op= e`, `a, b = arr.shape`; `out[v0, v1, k] = e`, `out[v0, v1, k] op= e`;
                `if / elif / else`; `for v in range(a)`, `range(a, b)`, `range(a, b, <non-zero int literal>)`, nested;
                `break` (of the innermost loop).  `continue`, `while`, `for … else`, `return` inside BODY are refused.
  expressions   pyexpr's (`/` excepted: refused here), plus `arr[i]`, `arr[i, j]`, `arr[i, j, k]` with integer index
                expressions, `np.isfinite(e)`, `np.isnan(e)`, and `bool * int` (see below).

SEMANTICS
  * Numbers: as pyexpr (exact rationals, unbounded `int`, no rounding), plus the type `ext` (`PyLoops.Fl`): a float
    that may be `+inf`, `-inf` or NaN, with the IEEE rules (`inf - inf` = NaN, `0 * inf` = NaN, comparisons with NaN
    false except `!=`, `abs(-inf) = inf`).  `int ⊑ rat ⊑ val ⊑ ext`.  The integer width of the arrays (`int16`) and
    float32 rounding are not modelled.
  * `bool` in arithmetic: in `a * b` a `bool` operand is the integer 1 / 0 (`PyLoops.b2i`; Python: `bool` is a subclass
    of `int`; numba: `int64 * bool -> int64`).  Only `*` accepts a bool; `+`, `-`, comparisons of booleans are refused.
  * Array reads: `arr[i, j]` with the shape `(n0, n1)` reads cell `(wrap n0 i, wrap n1 j)`, `wrap n i = i + n if i < 0
    else i` — Python / numba negative-index wrap-around, kept faithfully (index -1 is the last cell).  numba does not
    check bounds: an index outside `[-n, n)` is undefined behaviour.  Every read is therefore TESTED: the translation
    threads a flag `pyOk` (conjunction of `PyLoops.inb` over all reads executed so far) and returns
    `PyLoops.Res.outOfBounds` when it is false.  The equality theorem with the hand model states `Res.ok …`.
  * Loops: `for v in range(a, b, s)` is `PyLoops.forRange a b s body st0`: `len(range(a, b, s))` iterations,
    structural recursion on that count; `st` is the tuple (pyOk, loop-carried locals); `body` returns `(true, st)` at a
    `break`.  `a`, `b` are evaluated once, before the loop.  Carried locals = the locals assigned in the body (the loop
    variable included) that were bound before the loop AND are read outside the loop statement or read in the body before
    being assigned in the same iteration.  The other locals assigned in the body are local to one iteration and unbound
    after the loop (reading them there is refused: they may be unbound in Python too).
    LOOP VARIABLE AFTER THE LOOP: Python leaves the loop variable at its last value, or untouched when the range is
    empty.  A loop variable that is read after the loop must therefore be bound before it (`left = row`); it is then a
    carried local whose first action in each iteration is `v := i`.  Otherwise it is bound by the iteration only.
  * `if` without `break` inside: merged (`let xs := if c then … else …` over the locals bound before the `if` or on both
    sides; a local bound on one side only is unbound afterwards).  `if` with a `break` inside: each branch is continued
    by the statements that follow (duplication).
"""
from __future__ import annotations

import ast
from dataclasses import dataclass, field
from fractions import Fraction
from typing import Dict, List, Optional, Sequence, Tuple

from . import pyexpr
from .common import Unsupported
from .pyexpr import BOOL, INT, RAT, VAL, Binding, Ex, Param, TranslatorBug, lean_ident, src

EXT = "ext"
NUM4 = (INT, RAT, VAL, EXT)
LEAN_TYPE = dict(pyexpr.LEAN_TYPE)
LEAN_TYPE[EXT] = "PyLoops.Fl"
OK = "pyOk"


@dataclass(frozen=True)
class AParam:
    """an array parameter: element type (int / val / ext) and number of dimensions"""
    name: str
    elem: str
    ndim: int


# ------------------------------------------------------------------------------------------------
# exact float domain of the two evaluators:  Fraction | "nan" | "inf" | "-inf"   (ints stay ints)
# ------------------------------------------------------------------------------------------------
FNAN, PINF, NINF = "nan", "inf", "-inf"


def is_special(x):
    return isinstance(x, str)


def f_neg(x):
    return {FNAN: FNAN, PINF: NINF, NINF: PINF}[x] if is_special(x) else -x


def f_abs(x):
    return {FNAN: FNAN, PINF: PINF, NINF: PINF}[x] if is_special(x) else abs(x)


def f_add(x, y):
    if x == FNAN or y == FNAN:
        return FNAN
    if is_special(x) and is_special(y):
        return x if x == y else FNAN
    if is_special(x):
        return x
    if is_special(y):
        return y
    return x + y


def f_sub(x, y):
    return f_add(x, f_neg(y))


def f_sign(x):
    if x == PINF:
        return 1
    if x == NINF:
        return -1
    return (x > 0) - (x < 0)


def f_mul(x, y):
    if x == FNAN or y == FNAN:
        return FNAN
    if is_special(x) or is_special(y):
        s = f_sign(x) * f_sign(y)
        return FNAN if s == 0 else (PINF if s > 0 else NINF)
    return x * y


def f_lt(x, y):
    if x == FNAN or y == FNAN:
        return False
    if not is_special(x) and not is_special(y):
        return x < y
    if x == y:
        return False
    return x == NINF or y == PINF


def f_eq(x, y):
    if x == FNAN or y == FNAN:
        return False
    return x == y


def f_cmp(op, x, y):
    if op == "lt":
        return f_lt(x, y)
    if op == "gt":
        return f_lt(y, x)
    if op == "le":
        return f_lt(x, y) or f_eq(x, y)
    if op == "ge":
        return f_lt(y, x) or f_eq(x, y)
    if op == "eq":
        return f_eq(x, y)
    return not f_eq(x, y)


def f_max(x, y):  # Python / numba: `y if y > x else x`
    return y if f_lt(x, y) else x


def f_min(x, y):
    return y if f_lt(y, x) else x


def to_ext(v):
    """a `val` of pyexpr's evaluator (None = NaN) or a number -> the float domain"""
    if v is None:
        return FNAN
    return v if is_special(v) else Fraction(v)


def wrap(n, i):
    return i + n if i < 0 else i


# ------------------------------------------------------------------------------------------------
# expressions
# ------------------------------------------------------------------------------------------------
def join(a: str, b: str, what: str) -> str:
    if a == b:
        return a
    if a in NUM4 and b in NUM4:
        return NUM4[max(NUM4.index(a), NUM4.index(b))]
    raise Unsupported(f"{what}: cannot unify the types {a} and {b}")


def cast(e: Ex, ty: str) -> Ex:
    if e.ty == ty:
        return e
    if ty != EXT:
        return pyexpr.cast(e, ty)
    if e.ty in (INT, RAT):
        e = pyexpr.cast(e, RAT)
        return Ex("cast", EXT, (e,))
    if e.ty == VAL:
        return Ex("cast", EXT, (e,))
    raise Unsupported(f"cannot convert {e.ty} to {ty}")


@dataclass
class ArrayInfo:
    name: str
    elem: str
    ndim: int
    lean: str
    dims: List[str]  # lean names of the extents


class ExprTranslator(pyexpr.Translator):
    """pyexpr's expression translation + array reads, `ext` floats, isfinite, bool * int.  `self.arrays`: readable
    arrays; `self.cell_of(node)`: hook giving the pseudo-local of an `out[v0, v1, k]` node (map kernels)."""

    def __init__(self, fn, lean_name, numpy_names=("np",), source_text=None):
        super().__init__(fn, lean_name, [], None, numpy_names, source_text)
        self.arrays: Dict[str, ArrayInfo] = {}
        self.reads: List[Ex] = []  # in-bounds conditions of the reads met since the last `take_checks`

    def take_checks(self) -> Optional[Ex]:
        cs, self.reads = self.reads, []
        out = None
        for c in cs:
            out = c if out is None else Ex("and", BOOL, (out, c))
        return out

    def is_np_call(self, node, name) -> bool:
        return (isinstance(node, ast.Call) and isinstance(node.func, ast.Attribute) and node.func.attr == name
                and isinstance(node.func.value, ast.Name) and node.func.value.id in self.numpy_names
                and len(node.args) == 1 and not node.keywords)

    def num_pair(self, a, b, what):
        if a.ty not in NUM4 or b.ty not in NUM4:
            raise Unsupported(f"{self.fn.name}: `{what}` on {a.ty} and {b.ty}")
        ty = join(a.ty, b.ty, what)
        return cast(a, ty), cast(b, ty), ty

    def index_exprs(self, node: ast.Subscript, env, facts) -> List[Ex]:
        idx = node.slice.elts if isinstance(node.slice, ast.Tuple) else [node.slice]
        out = []
        for i in idx:
            if isinstance(i, (ast.Slice, ast.Starred)):
                raise Unsupported(f"{self.fn.name}: slice in `{src(node)}`")
            e = self.expr(i, env, facts)
            if e.ty != INT:
                raise Unsupported(f"{self.fn.name}: index `{src(i)}` of `{src(node)}` is a {e.ty}, not an int")
            out.append(e)
        return out

    def expr(self, node, env, facts) -> Ex:  # noqa: C901
        fn = self.fn.name
        if isinstance(node, ast.Subscript):
            if not (isinstance(node.value, ast.Name) and node.value.id in self.arrays):
                raise Unsupported(f"{fn}: subscript `{src(node)}` of something that is not a readable array")
            if self.short_circuit:
                raise Unsupported(f"{fn}: array read `{src(node)}` inside the right operand of and/or")
            arr = self.arrays[node.value.id]
            idx = self.index_exprs(node, env, facts)
            if len(idx) != arr.ndim:
                raise Unsupported(f"{fn}: `{src(node)}`: {len(idx)} indices for the {arr.ndim}-D array `{arr.name}`")
            self.reads.append(Ex("inb", BOOL, tuple(idx), arr.name))
            return Ex("aread", arr.elem, tuple(idx), arr.name)
        if isinstance(node, ast.Name) and node.id in self.arrays:
            raise Unsupported(f"{fn}: the array `{node.id}` is used without subscripts")
        if isinstance(node, ast.UnaryOp) and not isinstance(node.op, ast.Not):
            e = self.expr(node.operand, env, facts)
            if e.ty not in NUM4:
                raise Unsupported(f"{fn}: unary operator on a {e.ty}")
            if isinstance(node.op, ast.UAdd):
                return e
            if isinstance(node.op, ast.USub):
                if e.op == "lit":
                    return Ex("lit", e.ty, (), -e.aux)
                return Ex("neg", e.ty, (e,))
            raise Unsupported(f"{fn}: unary operator `{src(node)}`")
        if isinstance(node, ast.BinOp):
            ops = {ast.Add: "add", ast.Sub: "sub", ast.Mult: "mul"}
            if type(node.op) not in ops:
                raise Unsupported(f"{fn}: operator in `{src(node)}` is outside the subset (loops: + - * only)")
            a = self.expr(node.left, env, facts)
            b = self.expr(node.right, env, facts)
            if isinstance(node.op, ast.Mult) and BOOL in (a.ty, b.ty):
                a = Ex("b2i", INT, (a,)) if a.ty == BOOL else a
                b = Ex("b2i", INT, (b,)) if b.ty == BOOL else b
            a, b, ty = self.num_pair(a, b, src(node))
            return Ex(ops[type(node.op)], ty, (a, b))
        if isinstance(node, ast.Call):
            if node.keywords or any(isinstance(a, ast.Starred) for a in node.args):
                raise Unsupported(f"{fn}: keyword / starred arguments in `{src(node)}`")
            if self.is_np_call(node, "isfinite") or self.is_np_call(node, "isnan"):
                which = node.func.attr
                e = self.expr(node.args[0], env, facts)
                if e.ty not in NUM4:
                    raise Unsupported(f"{fn}: np.{which} on a {e.ty}")
                if e.op == "nan":
                    return Ex("const", BOOL, (), which == "isnan")
                if e.ty in (INT, RAT):
                    return Ex("const", BOOL, (), which == "isfinite")
                if which == "isnan":
                    return Ex("isnan", BOOL, (e,))
                return Ex("isfinite", BOOL, (e,)) if e.ty == EXT else Ex("not", BOOL, (Ex("isnan", BOOL, (e,)),))
            if isinstance(node.func, ast.Name) and node.func.id in pyexpr.BUILTINS and node.func.id not in env:
                name = node.func.id
                args = [self.expr(a, env, facts) for a in node.args]
                for a in args:
                    if a.ty not in NUM4:
                        raise Unsupported(f"{fn}: `{name}` on a {a.ty} in `{src(node)}`")
                if name == "abs":
                    if len(args) != 1:
                        raise Unsupported(f"{fn}: `{src(node)}`: abs takes one argument")
                    return Ex("abs", args[0].ty, (args[0],))
                if len(args) < 2:
                    raise Unsupported(f"{fn}: `{src(node)}`: {name} of an iterable is outside the subset")
                ty = args[0].ty
                for a in args[1:]:
                    ty = join(ty, a.ty, src(node))
                out = cast(args[0], ty)
                for a in args[1:]:
                    out = Ex(name, ty, (out, cast(a, ty)))
                return out
            raise Unsupported(f"{fn}: call `{src(node)}` is outside the subset")
        return super().expr(node, env, facts)


# ------------------------------------------------------------------------------------------------
# tree IR of the per-pixel function
# ------------------------------------------------------------------------------------------------
@dataclass
class TLet:
    name: str
    value: Ex
    body: object


@dataclass
class TYield:
    """end of a block: the values of the names the block was asked for; `brk`: None outside a loop body, else whether
    the loop is left"""
    values: List[Ex]
    brk: Optional[bool] = None


@dataclass
class TMerge:
    names: List[Tuple[str, str]]
    cond: Ex
    then: object
    orelse: object
    body: object


@dataclass
class TIf:
    cond: Ex
    then: object
    orelse: object


@dataclass
class TLoop:
    uid: int
    names: List[Tuple[str, str]]  # carried (lean name, type); pyOk first
    start: Ex
    stop: Ex
    step: int
    var: str  # lean name of the loop variable
    body: object  # ends in TYield(brk=…) over `names`
    rest: object


@dataclass
class LoopKernel:
    py_name: str
    lean_name: str
    params: list
    lean_params: List[Tuple[str, str]]  # (lean name, lean type text)
    arrays: Dict[str, ArrayInfo]
    pixel_vars: Tuple[str, str]
    bounds: Tuple[Ex, Ex]  # the two loop bounds, over the prelude
    cells: List[Tuple[str, str]]  # (lean name, type) of the components of the result
    out_name: str
    out_elem: str
    tree: object
    source: str = ""
    notes: List[str] = field(default_factory=list)


# ------------------------------------------------------------------------------------------------
# statements: map kernel -> per-pixel tree
# ------------------------------------------------------------------------------------------------
INT_DTYPES = {"int8", "int16", "int32", "int64", "uint8", "uint16"}
FLOAT_DTYPES = {"float32", "float64"}


def _loads(node, name) -> int:
    return sum(1 for n in ast.walk(node) if isinstance(n, ast.Name) and n.id == name and isinstance(n.ctx, ast.Load))


def contains_break(stmts) -> bool:
    """a `break` that belongs to the enclosing loop (nested loops keep theirs)"""
    for st in stmts:
        if isinstance(st, ast.Break):
            return True
        if isinstance(st, ast.If) and (contains_break(st.body) or contains_break(st.orelse)):
            return True
    return False


class MapKernelTranslator:
    def __init__(self, fn: ast.FunctionDef, lean_name: str, params: Sequence, numpy_names=("np",), source_text=None):
        self.fn = fn
        self.lean_name = lean_name
        self.params = list(params)
        self.x = ExprTranslator(fn, lean_name, numpy_names, source_text)
        self.numpy_names = set(numpy_names)
        self.uid = 0
        self.out_name = None
        self.out_elem = None
        self.out_shape: List[ast.expr] = []
        self.ncells = 1
        self.pix: Tuple[str, str] = ("", "")
        self.frozen = set()  # names BODY must not assign
        self.notes: List[str] = []

    # ---- helpers
    def bad(self, msg):
        raise Unsupported(f"{self.fn.name}: {msg}")

    def cell_name(self, k: int) -> str:
        return f"{self.out_name}#{k}"  # python-level pseudo-local of `out[v0, v1, k]`

    def cell_lean(self, k: int) -> str:
        return lean_ident(f"{self.out_name}_{k}")

    def lean_of(self, name: str) -> str:
        if "#" in name:
            return self.cell_lean(int(name.split("#")[1]))
        return lean_ident(name)

    def var(self, b: Binding) -> Ex:
        return Ex("var", b.ty, (), b.lean)

    def with_checks(self, tree_fn):
        """wrap: `let pyOk := pyOk && <checks of the reads met since the last call>` in front of tree_fn()"""
        c = self.x.take_checks()
        body = tree_fn()
        if c is None:
            return body
        return TLet(OK, Ex("and", BOOL, (Ex("var", BOOL, (), OK), c)), body)

    def expr(self, node, env) -> Ex:
        return self.x.expr(node, env, frozenset())

    def assigned(self, stmts) -> List[str]:
        """python-level names (cells as pseudo-locals, pyOk when an array is read) a statement list may assign"""
        out = []

        def add(n):
            if n not in out:
                out.append(n)

        for st in stmts:
            for node in ast.walk(st):
                if isinstance(node, ast.NamedExpr):
                    self.bad("assignment expressions (`:=`) are not supported")
                tg = []
                if isinstance(node, ast.Assign):
                    tg = node.targets
                elif isinstance(node, (ast.AugAssign, ast.AnnAssign)):
                    tg = [node.target]
                elif isinstance(node, ast.For):
                    tg = [node.target]
                for t in tg:
                    if isinstance(t, ast.Name):
                        add(t.id)
                    elif isinstance(t, ast.Subscript):
                        add(self.cell_name(self.store_cell(t)))
                    else:
                        self.bad(f"assignment target `{src(t)}`")
                if isinstance(node, ast.Subscript) and isinstance(node.ctx, ast.Load):
                    add(OK)
        return out

    def store_cell(self, t: ast.Subscript) -> int:
        if not (isinstance(t.value, ast.Name) and t.value.id == self.out_name):
            self.bad(f"store into `{src(t)}`: only the allocated array `{self.out_name}` is written")
        idx = t.slice.elts if isinstance(t.slice, ast.Tuple) else [t.slice]
        if len(idx) != len(self.out_shape):
            self.bad(f"`{src(t)}`: {len(idx)} indices for a {len(self.out_shape)}-D array")
        for i, v in zip(idx[:2], self.pix):
            if not (isinstance(i, ast.Name) and i.id == v):
                self.bad(f"`{src(t)}`: a map kernel stores at `[{self.pix[0]}, {self.pix[1]}, …]` only")
        if len(idx) == 2:
            return 0
        k = idx[2]
        if not (isinstance(k, ast.Constant) and isinstance(k.value, int) and not isinstance(k.value, bool)
                and 0 <= k.value < self.ncells):
            self.bad(f"`{src(t)}`: the last index must be an integer literal in [0, {self.ncells})")
        return k.value

    # ---- entry
    def translate(self) -> LoopKernel:  # noqa: C901
        fn = self.fn
        a = fn.args
        if a.vararg or a.kwarg or a.kwonlyargs or a.posonlyargs or a.defaults or a.kw_defaults:
            self.bad("only plain positional parameters are supported")
        if [x.arg for x in a.args] != [p.name for p in self.params]:
            self.bad(f"parameters {[x.arg for x in a.args]} are not the declared {[p.name for p in self.params]}")
        for node in ast.walk(fn):
            if isinstance(node, (ast.Global, ast.Nonlocal, ast.Lambda, ast.FunctionDef, ast.ClassDef, ast.While, ast.Continue,
                                 ast.Try, ast.With, ast.ListComp, ast.GeneratorExp, ast.IfExp)) and node is not fn:
                self.bad(f"`{type(node).__name__}` is outside the subset")
        env: Dict[str, Binding] = {}
        lean_params: List[Tuple[str, str]] = []
        for p in self.params:
            if isinstance(p, AParam):
                if p.elem not in (INT, VAL, EXT) or not 1 <= p.ndim <= 3:
                    self.bad(f"array parameter `{p.name}`: element type {p.elem} / {p.ndim} dimensions")
                dims = [lean_ident(f"{p.name}_n{i}") for i in range(p.ndim)]
                self.x.arrays[p.name] = ArrayInfo(p.name, p.elem, p.ndim, lean_ident(p.name), dims)
                lean_params.append((lean_ident(p.name), " → ".join(["Int"] * p.ndim + [LEAN_TYPE[p.elem]])))
                lean_params += [(d, "Int") for d in dims]
            elif isinstance(p, Param) and p.kind in (VAL, RAT, INT, BOOL):
                env[p.name] = Binding(lean_ident(p.name), p.kind)
                lean_params.append((lean_ident(p.name), LEAN_TYPE[p.kind]))
            else:
                self.bad(f"parameter `{p.name}` of an unsupported kind")
        body = list(fn.body)
        if body and isinstance(body[0], ast.Expr) and isinstance(body[0].value, ast.Constant) and isinstance(body[0].value.value, str):
            body = body[1:]
        k = next((i for i, st in enumerate(body) if isinstance(st, ast.For)), None)
        if k is None or len(body) != k + 2:
            self.bad("not a map kernel: expected prelude, one `for` nest, `return <array>`")
        prelude, outer, ret = body[:k], body[k], body[k + 1]
        lets: List[Tuple[str, Ex]] = []
        for st in prelude:
            self.prelude_stmt(st, env, lets)
        if self.out_name is None:
            self.bad("no `np.zeros` allocation in the prelude")
        if not (isinstance(ret, ast.Return) and isinstance(ret.value, ast.Name) and ret.value.id == self.out_name):
            self.bad(f"the function must end with `return {self.out_name}`")
        v0, e0, inner_body = self.simple_range_loop(outer)
        if len(inner_body) != 1 or not isinstance(inner_body[0], ast.For):
            self.bad("the outer pixel loop must contain exactly the inner pixel loop")
        v1, e1, pix_body = self.simple_range_loop(inner_body[0])
        if v0 == v1:
            self.bad("the two pixel loops use the same variable")
        if src(e0) != src(self.out_shape[0]) or src(e1) != src(self.out_shape[1]):
            self.bad(f"the pixel loops run over ({src(e0)}, {src(e1)}) but `{self.out_name}` has extents "
                     f"({src(self.out_shape[0])}, {src(self.out_shape[1])})")
        self.pix = (v0, v1)
        b0, b1 = self.expr(e0, env), self.expr(e1, env)
        if self.x.take_checks() is not None or b0.ty != INT or b1.ty != INT:
            self.bad("the bounds of the pixel loops must be integer expressions without array reads")
        self.frozen = set(env) | {v0, v1} | set(self.x.arrays) | {self.out_name}
        for n in self.assigned(pix_body):
            if n == OK:
                continue
            if n in self.frozen:
                self.bad(f"the pixel body assigns `{n}`, which is bound outside it (a value would flow between pixels)")
            if "#" not in n and (n.startswith("py") or n in pyexpr.BUILTINS or n in self.numpy_names):
                self.bad(f"the local `{n}` collides with a name the translator uses")
        self.check_out_uses(pix_body)
        env = dict(env)
        for v in (v0, v1):
            if v in env:
                self.bad(f"the loop variable `{v}` shadows a local")
            env[v] = Binding(lean_ident(v), INT)
        lean_params += [(lean_ident(v0), "Int"), (lean_ident(v1), "Int")]
        cells = [(self.cell_lean(i), self.out_elem) for i in range(self.ncells)]
        names = {n for n, _ in lean_params} | {c for c, _ in cells}
        if len(names) != len(lean_params) + len(cells):
            self.bad("generated names collide")
        env[OK] = Binding(OK, BOOL)
        for i, (c, ty) in enumerate(cells):
            env[self.cell_name(i)] = Binding(c, ty)
        want = [OK] + [self.cell_name(i) for i in range(self.ncells)]
        tree = self.block(pix_body, env, [], lambda e: TYield([self.var(e[n]) for n in want]), None)
        zero = Ex("lit", INT, (), Fraction(0)) if self.out_elem == INT else Ex("cast", VAL, (Ex("lit", RAT, (), Fraction(0)),))
        for c, ty in reversed(cells):
            tree = TLet(c, zero, tree)
        tree = TLet(OK, Ex("const", BOOL, (), True), tree)
        for n, e in reversed(lets):
            tree = TLet(n, e, tree)
        k = LoopKernel(fn.name, self.lean_name, self.params, lean_params, self.x.arrays, (v0, v1), (b0, b1), cells,
                       self.out_name, self.out_elem, tree, notes=self.notes)
        k.prelude = lets
        try:
            k.source = ast.unparse(fn)
        except Exception:  # pylint: disable=broad-except
            k.source = ""
        return k

    def check_out_uses(self, stmts):
        """`out` appears only as the array of a store target"""
        targets = set()
        for st in stmts:
            for node in ast.walk(st):
                if isinstance(node, ast.Assign):
                    for t in node.targets:
                        if isinstance(t, ast.Subscript):
                            targets.add(id(t.value))
                elif isinstance(node, ast.AugAssign) and isinstance(node.target, ast.Subscript):
                    targets.add(id(node.target.value))
        for st in stmts:
            for node in ast.walk(st):
                if isinstance(node, ast.Name) and node.id == self.out_name and id(node) not in targets:
                    self.bad(f"`{self.out_name}` is read in the pixel body (only `{self.out_name}[…] = e` / `op=` are allowed)")

    def simple_range_loop(self, st: ast.For):
        if st.orelse:
            self.bad("`for … else`")
        if not isinstance(st.target, ast.Name):
            self.bad(f"loop target `{src(st.target)}`")
        it = st.iter
        if not (isinstance(it, ast.Call) and isinstance(it.func, ast.Name) and it.func.id == "range" and len(it.args) == 1
                and not it.keywords):
            self.bad(f"a pixel loop must be `for v in range(n)`, not `{src(it)}`")
        return st.target.id, it.args[0], list(st.body)

    def prelude_stmt(self, st, env, lets):
        if isinstance(st, ast.Pass):
            return
        if not isinstance(st, ast.Assign) or len(st.targets) != 1:
            self.bad(f"prelude statement `{src(st)}`")
        t, v = st.targets[0], st.value
        if isinstance(t, ast.Tuple):
            if not (isinstance(v, ast.Attribute) and v.attr == "shape" and isinstance(v.value, ast.Name)
                    and v.value.id in self.x.arrays and all(isinstance(e, ast.Name) for e in t.elts)):
                self.bad(f"tuple assignment `{src(st)}` (only `a, b = <array parameter>.shape`)")
            arr = self.x.arrays[v.value.id]
            if len(t.elts) != arr.ndim:
                self.bad(f"`{src(st)}`: `{arr.name}` has {arr.ndim} dimensions")
            for e, d in zip(t.elts, arr.dims):
                self.bind_prelude(e.id, Ex("var", INT, (), d), env, lets)
            return
        if not isinstance(t, ast.Name):
            self.bad(f"prelude statement `{src(st)}`")
        if isinstance(v, ast.Call) and isinstance(v.func, ast.Attribute) and v.func.attr == "zeros" \
                and isinstance(v.func.value, ast.Name) and v.func.value.id in self.numpy_names:
            if self.out_name is not None:
                self.bad("more than one allocated array")
            if len(v.args) != 1 or not isinstance(v.args[0], ast.Tuple) or len(v.keywords) != 1 or v.keywords[0].arg != "dtype":
                self.bad(f"allocation `{src(v)}`: expected np.zeros((…), dtype=np.<type>)")
            d = v.keywords[0].value
            if not (isinstance(d, ast.Attribute) and isinstance(d.value, ast.Name) and d.value.id in self.numpy_names):
                self.bad(f"dtype `{src(d)}`")
            if d.attr in INT_DTYPES:
                self.out_elem = INT
                self.notes.append(f"`{t.id}` is {d.attr}: the integer width is not modelled")
            elif d.attr in FLOAT_DTYPES:
                self.out_elem = VAL
            else:
                self.bad(f"dtype `{src(d)}`")
            shape = list(v.args[0].elts)
            if len(shape) not in (2, 3):
                self.bad("the allocated array must have 2 or 3 dimensions")
            if len(shape) == 3:
                k = shape[2]
                if not (isinstance(k, ast.Constant) and isinstance(k.value, int) and not isinstance(k.value, bool) and 1 <= k.value <= 16):
                    self.bad("the third extent of the allocated array must be a small integer literal")
                self.ncells = k.value
            self.out_name, self.out_shape = t.id, shape
            if t.id in env or t.id in self.x.arrays:
                self.bad(f"`{t.id}` is already bound")
            return
        e = self.expr(v, env)
        if self.x.take_checks() is not None:
            self.bad(f"array read in the prelude: `{src(st)}`")
        self.bind_prelude(t.id, e, env, lets)

    def bind_prelude(self, name, e, env, lets):
        if name in env or name in self.x.arrays or name == self.out_name or name.startswith("py"):
            self.bad(f"the prelude rebinds `{name}`")
        if e.ty not in NUM4 + (BOOL,):
            self.bad(f"prelude local `{name}` of type {e.ty}")
        env[name] = Binding(lean_ident(name), e.ty)
        lets.append((lean_ident(name), e))

    # ---- blocks
    def block(self, ss, env, cont, leaf, brk_leaf):  # noqa: C901
        if not ss:
            if cont:
                return self.block(cont[0], env, cont[1:], leaf, brk_leaf)
            return leaf(env)
        st, rest = ss[0], list(ss[1:])
        if isinstance(st, ast.Pass) or (isinstance(st, ast.Expr) and isinstance(st.value, ast.Constant) and isinstance(st.value.value, str)):
            return self.block(rest, env, cont, leaf, brk_leaf)
        if isinstance(st, ast.Break):
            if brk_leaf is None:
                self.bad("`break` outside a loop of the subset")
            if rest:
                self.bad("statement after `break`")
            return brk_leaf(env)
        if isinstance(st, (ast.Assign, ast.AugAssign)):
            if isinstance(st, ast.Assign):
                if len(st.targets) != 1:
                    self.bad(f"chained assignment `{src(st)}`")
                target, value = st.targets[0], st.value
            else:
                target = st.target
                if isinstance(target, ast.Name):
                    cur = ast.Name(id=target.id, ctx=ast.Load())
                    value = ast.BinOp(left=cur, op=st.op, right=st.value)
                    e_cur = None
                elif isinstance(target, ast.Subscript):
                    value, e_cur = None, self.var(env[self.cell_name(self.store_cell(target))])
                else:
                    self.bad(f"assignment target `{src(target)}`")
            if isinstance(target, ast.Subscript):
                name = self.cell_name(self.store_cell(target))
                if isinstance(st, ast.AugAssign):
                    ops = {ast.Add: "add", ast.Sub: "sub", ast.Mult: "mul"}
                    if type(st.op) not in ops:
                        self.bad(f"operator of `{src(st)}`")
                    r = self.expr(st.value, env)
                    a, b, ty = self.x.num_pair(e_cur, r, src(st))
                    e = Ex(ops[type(st.op)], ty, (a, b))
                else:
                    e = self.expr(value, env)
                if self.out_elem == INT and e.ty != INT:
                    self.bad(f"`{src(st)}` stores a {e.ty} into an integer array (truncation is not modelled)")
                if self.out_elem == VAL:
                    if e.ty not in (INT, RAT, VAL):
                        self.bad(f"`{src(st)}` stores a {e.ty} into a float array")
                    e = pyexpr.cast(e, VAL)
            elif isinstance(target, ast.Name):
                name = target.id
                if name in self.frozen:
                    self.bad(f"`{name}` is assigned in the pixel body")
                e = self.expr(value, env)
                if e.ty not in NUM4 + (BOOL,):
                    self.bad(f"local `{name}` of type {e.ty}")
            else:
                self.bad(f"assignment target `{src(target)}`")
            env2 = dict(env)
            env2[name] = Binding(self.lean_of(name), e.ty)
            return self.with_checks(lambda: TLet(self.lean_of(name), e, self.block(rest, env2, cont, leaf, brk_leaf)))
        if isinstance(st, ast.If):
            c = self.expr(st.test, env)
            if c.ty != BOOL:
                self.bad(f"the test `{src(st.test)}` is not a boolean (no truthiness of numbers)")
            if contains_break([st]):
                new_cont = [rest] + list(cont)
                return self.with_checks(lambda: TIf(c, self.block(list(st.body), env, new_cont, leaf, brk_leaf),
                                                    self.block(list(st.orelse), env, new_cont, leaf, brk_leaf)))
            return self.with_checks(lambda: self.merged_if(st, c, rest, env, cont, leaf, brk_leaf))
        if isinstance(st, ast.For):
            return self.for_stmt(st, rest, env, cont, leaf, brk_leaf)
        self.bad(f"statement `{type(st).__name__}` is outside the subset")

    def merged_if(self, st, c, rest, env, cont, leaf, brk_leaf):
        assigned = self.assigned(list(st.body) + list(st.orelse))
        ends = []

        def rec_leaf(e):
            y = TYield([])
            ends.append((e, y))
            return y

        t = self.block(list(st.body), env, [], rec_leaf, None)
        e = self.block(list(st.orelse), env, [], rec_leaf, None)
        if len(ends) != 2:
            raise TranslatorBug("a merged branch has several ends")
        (env_t, y_t), (env_e, y_e) = ends
        names, types = [], []
        for n in [n for n in env if n in assigned] + [n for n in assigned if n not in env]:
            if n in env_t and n in env_e:
                names.append(n)
                types.append(join(env_t[n].ty, env_e[n].ty, f"{self.fn.name}: local `{n}` after the `if`"))
        for envb, y in ends:
            y.values = [cast(self.var(envb[n]), ty) for n, ty in zip(names, types)]
        env2 = {n: b for n, b in env.items() if n not in assigned}
        for n, ty in zip(names, types):
            env2[n] = Binding(self.lean_of(n), ty)
        body = self.block(rest, env2, cont, leaf, brk_leaf)
        if not names:
            return body
        return TMerge([(self.lean_of(n), ty) for n, ty in zip(names, types)], c, t, e, body)

    def live_in(self, stmts, candidates) -> set:
        """names of `candidates` that may be read in `stmts` before being assigned (in one pass over the statements)"""
        live = set()

        def loads(node, done):
            for n in ast.walk(node):
                if isinstance(n, ast.Name) and isinstance(n.ctx, ast.Load) and n.id in candidates and n.id not in done:
                    live.add(n.id)

        def walk(ss, done):
            done = set(done)
            for st in ss:
                if isinstance(st, ast.Assign):
                    loads(st.value, done)
                    for t in st.targets:
                        if isinstance(t, ast.Name):
                            done.add(t.id)
                        else:
                            loads(t, done)
                elif isinstance(st, ast.AugAssign):
                    loads(st.value, done)
                    if isinstance(st.target, ast.Name):
                        if st.target.id in candidates and st.target.id not in done:
                            live.add(st.target.id)
                        done.add(st.target.id)
                    else:
                        loads(st.target, done)
                elif isinstance(st, ast.If):
                    loads(st.test, done)
                    a = walk(st.body, done)
                    b = walk(st.orelse, done)
                    done = a & b
                elif isinstance(st, ast.For):
                    loads(st.iter, done)
                    walk(st.body, done | ({st.target.id} if isinstance(st.target, ast.Name) else set()))
                else:
                    loads(st, done)
            return done

        walk(stmts, set())
        return live

    def for_stmt(self, st: ast.For, rest, env, cont, leaf, brk_leaf):  # noqa: C901
        if st.orelse:
            self.bad("`for … else`")
        if not isinstance(st.target, ast.Name):
            self.bad(f"loop target `{src(st.target)}`")
        var = st.target.id
        if var in self.frozen:
            self.bad(f"the loop variable `{var}` is bound outside the pixel body")
        it = st.iter
        if not (isinstance(it, ast.Call) and isinstance(it.func, ast.Name) and it.func.id == "range" and 1 <= len(it.args) <= 3
                and not it.keywords and "range" not in env):
            self.bad(f"loop over `{src(it)}` (only range(a), range(a, b), range(a, b, <int literal>))")
        args = list(it.args)
        step = 1
        if len(args) == 3:
            s = args[2]
            if isinstance(s, ast.UnaryOp) and isinstance(s.op, ast.USub) and isinstance(s.operand, ast.Constant) \
                    and isinstance(s.operand.value, int) and not isinstance(s.operand.value, bool):
                step = -s.operand.value
            elif isinstance(s, ast.Constant) and isinstance(s.value, int) and not isinstance(s.value, bool):
                step = s.value
            else:
                self.bad(f"the step of `{src(it)}` is not an integer literal")
            if step == 0:
                self.bad("range() with step 0")
        start = Ex("lit", INT, (), Fraction(0)) if len(args) == 1 else self.expr(args[0], env)
        stop = self.expr(args[0] if len(args) == 1 else args[1], env)
        if start.ty != INT or stop.ty != INT:
            self.bad(f"the bounds of `{src(it)}` are not integers")
        assigned = self.assigned(list(st.body) + [ast.Assign(targets=[ast.Name(id=var, ctx=ast.Store())], value=ast.Constant(value=0))])
        live = self.live_in(list(st.body), set(assigned) - {var})
        carried = [OK]
        for n in env:
            if n == OK or n not in assigned:
                continue
            if "#" in n or n in live or _loads(self.fn, n) > _loads(st, n):
                carried.append(n)
        dropped = [n for n in assigned if n not in carried]
        names = [(self.lean_of(n), env[n].ty) for n in carried]
        env_body = {n: b for n, b in env.items() if n not in dropped}
        env_body[var] = Binding(lean_ident(var), INT)
        self.uid += 1
        uid = self.uid

        def end(brk):
            def f(e):
                vals = []
                for n, (_, ty) in zip(carried, names):
                    if n not in e or e[n].ty != ty:
                        self.bad(f"the loop-carried local `{n}` changes type in the body of `for {var} …`")
                    vals.append(self.var(e[n]))
                return TYield(vals, brk)
            return f

        def build():
            body = TLet(lean_ident(var), Ex("var", INT, (), "pyI"), self.block(list(st.body), env_body, [], end(False), end(True)))
            env_after = {n: b for n, b in env.items() if n not in dropped}
            if var not in carried:
                env_after.pop(var, None)
            return TLoop(uid, names, start, stop, step, lean_ident(var), body, self.block(rest, env_after, cont, leaf, brk_leaf))

        return self.with_checks(build)


def translate_map_kernel(fn: ast.FunctionDef, lean_name: str, params: Sequence, numpy_names=("np",), source_text=None) -> LoopKernel:
    return MapKernelTranslator(fn, lean_name, params, numpy_names, source_text).translate()


# ------------------------------------------------------------------------------------------------
# Lean rendering
# ------------------------------------------------------------------------------------------------
def lean_expr(e: Ex, arrays: Dict[str, ArrayInfo]) -> str:  # noqa: C901
    """pyexpr.lean_expr extended; sub-expressions are rendered here and handed to pyexpr as opaque variables"""
    a = [lean_expr(x, arrays) for x in e.args]
    t = e.args[0].ty if e.args else e.ty
    if e.op in ("aread", "inb"):
        arr = arrays[e.aux]
        f = f"PyLoops.get{arr.ndim} {arr.lean}" if e.op == "aread" else f"PyLoops.inb{arr.ndim}"
        return f"({f} {' '.join(arr.dims)} {' '.join(a)})"
    if e.op == "b2i":
        return f"(PyLoops.b2i {a[0]})"
    if e.op == "isfinite":
        return f"(PyLoops.Fl.isFinite {a[0]})"
    if e.op == "isnan" and t == EXT:
        return f"(PyLoops.Fl.isNan {a[0]})"
    if e.op == "cast" and e.ty == EXT:
        return f"(PyLoops.Fl.fin {a[0]})" if t == RAT else f"(PyLoops.Fl.ofVal {a[0]})"
    if e.ty == EXT and e.op in ("neg", "abs", "add", "sub", "mul", "min", "max"):
        return f"(PyLoops.Fl.{e.op} {' '.join(a)})"
    if e.op == "cmp" and t == EXT:
        f, x, y = {"lt": ("lt", 0, 1), "le": ("le", 0, 1), "gt": ("lt", 1, 0), "ge": ("le", 1, 0), "eq": ("eq", 0, 1),
                   "ne": ("ne", 0, 1)}[e.aux]
        return f"(PyLoops.Fl.{f} {a[x]} {a[y]})"
    if e.ty == EXT and e.op not in ("var",):
        raise TranslatorBug(f"cannot render {e.op} on ext")
    opaque = tuple(Ex("var", x.ty, (), s) for x, s in zip(e.args, a))
    return pyexpr.lean_expr(Ex(e.op, e.ty, opaque, e.aux))


def tuple_type(types: List[str]) -> str:
    return " × ".join(LEAN_TYPE[t] for t in types)


def proj(i: int, n: int) -> str:
    if n == 1:
        return ""
    return ".2" * i + (".1" if i < n - 1 else "")


def lean_tree(tree, ind: str, k: LoopKernel) -> List[str]:  # noqa: C901
    A = k.arrays
    if isinstance(tree, TYield):
        vals = [lean_expr(v, A) for v in tree.values]
        tup = vals[0] if len(vals) == 1 else "(" + ", ".join(vals) + ")"
        if tree.brk is None:
            return [ind + tup]
        return [f"{ind}({'true' if tree.brk else 'false'}, {tup})"]
    if isinstance(tree, TLet):
        return [f"{ind}let {tree.name} : {LEAN_TYPE[tree.value.ty]} := {lean_expr(tree.value, A)}"] + lean_tree(tree.body, ind, k)
    if isinstance(tree, TIf):
        return ([f"{ind}if {lean_expr(tree.cond, A)} then"] + lean_tree(tree.then, ind + "  ", k)
                + [f"{ind}else"] + lean_tree(tree.orelse, ind + "  ", k))
    if isinstance(tree, TMerge):
        n = len(tree.names)
        ty = tuple_type([t for _, t in tree.names])
        lines = [f"{ind}let pyMerged : {ty} :=", f"{ind}  if {lean_expr(tree.cond, A)} then"]
        lines += lean_tree(tree.then, ind + "    ", k) + [f"{ind}  else"] + lean_tree(tree.orelse, ind + "    ", k)
        for i, (nm, t) in enumerate(tree.names):
            lines.append(f"{ind}let {nm} : {LEAN_TYPE[t]} := pyMerged{proj(i, n)}")
        return lines + lean_tree(tree.body, ind, k)
    if isinstance(tree, TLoop):
        n = len(tree.names)
        ty = tuple_type([t for _, t in tree.names])
        lp = f"pyLoop{tree.uid}"
        lines = [f"{ind}let {lp} : {ty} := PyLoops.forRange {lean_expr(tree.start, A)} {lean_expr(tree.stop, A)} ({tree.step} : Int)",
                 f"{ind}  (fun (pyI : Int) (pySt : {ty}) =>"]
        for i, (nm, t) in enumerate(tree.names):
            lines.append(f"{ind}    let {nm} : {LEAN_TYPE[t]} := pySt{proj(i, n)}")
        body = lean_tree(tree.body, ind + "    ", k)
        body[-1] += ")"
        init = ["true"] + [nm for nm, _ in tree.names[1:]]
        lines += body + [f"{ind}  " + (init[0] if n == 1 else "(" + ", ".join(init) + ")")]
        lines.append(f"{ind}let {OK} : Bool := ({OK} && {lp}{proj(0, n)})")
        for i, (nm, t) in enumerate(tree.names):
            if i:
                lines.append(f"{ind}let {nm} : {LEAN_TYPE[t]} := {lp}{proj(i, n)}")
        return lines + lean_tree(tree.rest, ind, k)
    raise TranslatorBug(f"cannot render {type(tree).__name__}")


def result_type(k: LoopKernel) -> str:
    return f"PyLoops.Res ({tuple_type([t for _, t in k.cells])})"


def render_lean(k: LoopKernel) -> str:
    params = " ".join(f"({n} : {t})" for n, t in k.lean_params)
    lines = [f"def {k.lean_name} {params} : {result_type(k)} :="]
    body = lean_tree(k.tree, "  ", k)
    n = 1 + len(k.cells)
    last = body.pop()
    lines += body
    lines.append(f"  let pyOut : {tuple_type([BOOL] + [t for _, t in k.cells])} := {last.strip()}")
    cells = ", ".join(f"pyOut{proj(i + 1, n)}" for i in range(len(k.cells)))
    cells = f"({cells})" if len(k.cells) > 1 else cells
    lines.append(f"  if pyOut.1 then PyLoops.Res.ok {cells} else PyLoops.Res.outOfBounds")
    return "\n".join(lines) + "\n"


# ------------------------------------------------------------------------------------------------
# evaluator of the tree (what the Lean text says), exact
# ------------------------------------------------------------------------------------------------
class Arr:
    """an array argument: nested lists + shape; cells: int, or Fraction / "nan" / "inf" / "-inf" """

    def __init__(self, data, shape):
        self.data, self.shape = data, tuple(shape)

    def inb(self, idx):
        return all(0 <= wrap(n, i) < n for n, i in zip(self.shape, idx))

    def get(self, idx):
        x = self.data
        for n, i in zip(self.shape, idx):
            w = wrap(n, i)
            if not 0 <= w < n:
                return None  # the Lean function is total there; the value is never used by a kernel whose flag is checked
            x = x[w]
        return x


def ev(e: Ex, env, arrays):  # noqa: C901
    if e.op in ("and", "or"):
        x = ev(e.args[0], env, arrays)
        if e.op == "and":
            return x and ev(e.args[1], env, arrays)
        return x or ev(e.args[1], env, arrays)
    a = [ev(x, env, arrays) for x in e.args]
    t = e.args[0].ty if e.args else e.ty
    if e.op == "aread":
        v = arrays[e.aux].get(a)
        if v is None:
            return 0 if e.ty == INT else FNAN if e.ty == EXT else None
        if e.ty == VAL:
            return None if v == FNAN else v
        return v
    if e.op == "inb":
        return arrays[e.aux].inb(a)
    if e.op == "b2i":
        return 1 if a[0] else 0
    if e.op == "isfinite":
        return not is_special(a[0])
    if e.op == "isnan" and t == EXT:
        return a[0] == FNAN
    if e.op == "cast" and e.ty == EXT:
        return to_ext(a[0])
    if e.ty == EXT and e.op in ("neg", "abs"):
        return (f_neg if e.op == "neg" else f_abs)(a[0])
    if e.ty == EXT and e.op in ("add", "sub", "mul", "min", "max"):
        return {"add": f_add, "sub": f_sub, "mul": f_mul, "min": f_min, "max": f_max}[e.op](a[0], a[1])
    if e.op == "cmp" and t == EXT:
        return f_cmp(e.aux, a[0], a[1])
    env2 = dict(env)
    names = []
    for i, v in enumerate(a):
        env2[f"#arg{i}"] = v
        names.append(Ex("var", e.args[i].ty, (), f"#arg{i}"))
    return pyexpr.ev(Ex(e.op, e.ty, tuple(names), e.aux), env2)


def run_tree(tree, env, arrays):  # noqa: C901
    """-> (brk, values)"""
    while True:
        if isinstance(tree, TYield):
            return tree.brk, tuple(ev(v, env, arrays) for v in tree.values)
        if isinstance(tree, TLet):
            env = dict(env)
            env[tree.name] = ev(tree.value, env, arrays)
            tree = tree.body
        elif isinstance(tree, TIf):
            tree = tree.then if ev(tree.cond, env, arrays) else tree.orelse
        elif isinstance(tree, TMerge):
            _, vals = run_tree(tree.then if ev(tree.cond, env, arrays) else tree.orelse, env, arrays)
            env = dict(env)
            for (n, _), v in zip(tree.names, vals):
                env[n] = v
            tree = tree.body
        elif isinstance(tree, TLoop):
            a, b = ev(tree.start, env, arrays), ev(tree.stop, env, arrays)
            s = tree.step
            count = max(0, (b - a + s - 1) // s) if s > 0 else max(0, (a - b - s - 1) // (-s))
            state = (True,) + tuple(env[n] for n, _ in tree.names[1:])
            i = a
            for _ in range(count):
                benv = dict(env)
                benv["pyI"] = i
                for (n, _), v in zip(tree.names, state):
                    benv[n] = v
                brk, state = run_tree(tree.body, benv, arrays)
                if brk:
                    break
                i += s
            env = dict(env)
            env[OK] = env[OK] and state[0]
            for (n, _), v in list(zip(tree.names, state))[1:]:
                env[n] = v
            tree = tree.rest
        else:
            raise TranslatorBug(f"cannot run {type(tree).__name__}")


def bind_args(k: LoopKernel, args):
    """Python arguments (one per parameter; an array: `Arr`) -> (env, arrays)"""
    if len(args) != len(k.params):
        raise TypeError(f"{k.py_name} takes {len(k.params)} arguments")
    env, arrays = {}, {}
    for p, v in zip(k.params, args):
        if isinstance(p, AParam):
            arrays[p.name] = v
            for d, n in zip(k.arrays[p.name].dims, v.shape):
                env[d] = int(n)
        else:
            env[lean_ident(p.name)] = pyexpr.conv(v, p.kind)
    return env, arrays


def evaluate_px(k: LoopKernel, args, c: int, r: int):
    """the per-pixel function at (c, r): ("ok", cells) | ("outOfBounds", None)"""
    env, arrays = bind_args(k, args)
    env[lean_ident(k.pixel_vars[0])] = c
    env[lean_ident(k.pixel_vars[1])] = r
    _, vals = run_tree(k.tree, env, arrays)
    return ("ok", vals[1:]) if vals[0] else ("outOfBounds", None)


def evaluate_bounds(k: LoopKernel, args):
    env, arrays = bind_args(k, args)
    for n, e in k.prelude:
        env[n] = ev(e, env, arrays)
    return ev(k.bounds[0], env, arrays), ev(k.bounds[1], env, arrays)


# ------------------------------------------------------------------------------------------------
# independent reading: an imperative, dynamically typed, exact interpreter of the function's AST
# ------------------------------------------------------------------------------------------------
class OutOfBounds(Exception):
    pass


class _Break(Exception):
    pass


class Interp:
    """Runs the statements as Python does (mutable locals and arrays, `for` over the real `range`, `break`), with exact
    numbers.  Shares nothing with the translation above except the float domain helpers."""

    def __init__(self, numpy_names=("np",)):
        self.np = set(numpy_names)

    @staticmethod
    def num(x):
        return Fraction(x) if isinstance(x, (int, bool)) else x

    def call(self, fn: ast.FunctionDef, args):
        env = {a.arg: v for a, v in zip(fn.args.args, args)}
        for st in fn.body:
            r = self.stmt(st, env)
            if r is not None:
                return r[0]
        return None

    def stmt(self, st, env):  # noqa: C901
        if isinstance(st, ast.Pass) or (isinstance(st, ast.Expr) and isinstance(st.value, ast.Constant)):
            return None
        if isinstance(st, ast.Return):
            return (self.ex(st.value, env),)
        if isinstance(st, ast.Break):
            raise _Break()
        if isinstance(st, ast.Assign):
            t = st.targets[0]
            if isinstance(t, ast.Tuple):
                arr = env[st.value.value.id]
                for e, n in zip(t.elts, arr.shape):
                    env[e.id] = int(n)
                return None
            v = self.ex(st.value, env)
            self.store(t, v, env)
            return None
        if isinstance(st, ast.AugAssign):
            cur = self.ex(ast.copy_location(ast.Name(id=st.target.id, ctx=ast.Load()), st) if isinstance(st.target, ast.Name)
                          else ast.Subscript(value=st.target.value, slice=st.target.slice, ctx=ast.Load()), env)
            self.store(st.target, self.binop(st.op, cur, self.ex(st.value, env)), env)
            return None
        if isinstance(st, ast.If):
            c = self.ex(st.test, env)
            if not isinstance(c, bool):
                raise Unsupported("interpreter: non-boolean test")
            for s in (st.body if c else st.orelse):
                r = self.stmt(s, env)
                if r is not None:
                    return r
            return None
        if isinstance(st, ast.For):
            rng = range(*[self.ex(a, env) for a in st.iter.args])
            try:
                for i in rng:
                    env[st.target.id] = i
                    for s in st.body:
                        r = self.stmt(s, env)
                        if r is not None:
                            return r
            except _Break:
                pass
            return None
        raise Unsupported(f"interpreter: {type(st).__name__}")

    def store(self, t, v, env):
        if isinstance(t, ast.Name):
            env[t.id] = v
            return
        arr = env[t.value.id]
        idx = [self.ex(i, env) for i in (t.slice.elts if isinstance(t.slice, ast.Tuple) else [t.slice])]
        if not arr.inb(idx):
            raise OutOfBounds(src(t))
        x = arr.data
        for n, i in list(zip(arr.shape, idx))[:-1]:
            x = x[wrap(n, i)]
        if getattr(arr, "integer", False) and not (isinstance(v, int) and not isinstance(v, bool)):
            raise Unsupported("interpreter: a non-integer is stored into an integer array")
        x[wrap(arr.shape[-1], idx[-1])] = v

    def binop(self, op, a, b):
        ints = all(isinstance(x, int) for x in (a, b))  # bool is an int here, as in Python
        if isinstance(op, ast.Mult):
            return int(a) * int(b) if ints else f_mul(self.num(a), self.num(b))
        if any(isinstance(x, bool) for x in (a, b)):
            raise Unsupported("interpreter: bool in + / -")
        if isinstance(op, ast.Add):
            return a + b if ints else f_add(self.num(a), self.num(b))
        if isinstance(op, ast.Sub):
            return a - b if ints else f_sub(self.num(a), self.num(b))
        raise Unsupported("interpreter: operator")

    def ex(self, node, env):  # noqa: C901
        if isinstance(node, ast.Constant):
            v = node.value
            if isinstance(v, (bool, int)):
                return v
            if isinstance(v, float):
                return Fraction(repr(v))
            raise Unsupported("interpreter: literal")
        if isinstance(node, ast.Name):
            return env[node.id]
        if isinstance(node, ast.Tuple):
            return tuple(self.ex(e, env) for e in node.elts)
        if isinstance(node, ast.Attribute) and isinstance(node.value, ast.Name) and node.value.id in self.np:
            if node.attr in ("nan", "inf"):
                return FNAN if node.attr == "nan" else PINF
        if isinstance(node, ast.Subscript):
            arr = env[node.value.id]
            idx = [self.ex(i, env) for i in (node.slice.elts if isinstance(node.slice, ast.Tuple) else [node.slice])]
            if not arr.inb(idx):
                raise OutOfBounds(src(node))
            return arr.get(idx)
        if isinstance(node, ast.UnaryOp):
            v = self.ex(node.operand, env)
            if isinstance(node.op, ast.Not):
                return not v
            if isinstance(node.op, ast.USub):
                return -v if isinstance(v, int) else f_neg(v)
            return v
        if isinstance(node, ast.BinOp):
            return self.binop(node.op, self.ex(node.left, env), self.ex(node.right, env))
        if isinstance(node, ast.BoolOp):
            v = None
            for x in node.values:
                v = self.ex(x, env)
                if v is (not isinstance(node.op, ast.And)):
                    return v
            return v
        if isinstance(node, ast.Compare):
            left = self.ex(node.left, env)
            names = {ast.Lt: "lt", ast.LtE: "le", ast.Gt: "gt", ast.GtE: "ge", ast.Eq: "eq", ast.NotEq: "ne"}
            for op, c in zip(node.ops, node.comparators):
                right = self.ex(c, env)
                if not f_cmp(names[type(op)], self.num(left), self.num(right)):
                    return False
                left = right
            return True
        if isinstance(node, ast.Call):
            f = node.func
            args = [self.ex(a, env) for a in node.args]
            if isinstance(f, ast.Name) and f.id == "abs":
                return abs(args[0]) if isinstance(args[0], int) else f_abs(args[0])
            if isinstance(f, ast.Name) and f.id in ("min", "max"):
                out = args[0]
                for b in args[1:]:
                    better = f_lt(self.num(out), self.num(b)) if f.id == "max" else f_lt(self.num(b), self.num(out))
                    if all(isinstance(x, int) for x in (out, b)):
                        out = b if better else out
                    else:
                        out = self.num(b) if better else self.num(out)
                return out
            if isinstance(f, ast.Attribute) and isinstance(f.value, ast.Name) and f.value.id in self.np:
                if f.attr == "isfinite":
                    return not is_special(args[0])
                if f.attr == "isnan":
                    return args[0] == FNAN
                if f.attr == "zeros":
                    shape = args[0]
                    dt = node.keywords[0].value.attr

                    def mk(sh):
                        return [mk(sh[1:]) for _ in range(sh[0])] if len(sh) > 1 else [0] * sh[0]
                    a = Arr(mk(list(shape)), shape)
                    a.integer = dt in INT_DTYPES
                    if not a.integer:
                        a.data = _map_nested(a.data, lambda _: Fraction(0))
                    return a
        raise Unsupported(f"interpreter: `{src(node)}`")


def _map_nested(x, f):
    return [_map_nested(y, f) for y in x] if isinstance(x, list) else f(x)


def interpret(fn: ast.FunctionDef, args, numpy_names=("np",)):
    """the whole function on `Arr` / scalar arguments -> the returned `Arr`; raises OutOfBounds on a read or store
    outside an array"""
    return Interp(numpy_names).call(fn, list(args))
