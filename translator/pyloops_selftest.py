"""Self-test of translator/pyloops.py on constructs `cross_support` does not all exercise.

`ACCEPTED`: small map kernels inside the subset.  Four readings of each are compared:
  * CPython running the function text itself on numpy arrays (`run_python`; the harness does this on every run of C11);
  * `pyloops.interpret` (imperative exact interpreter of the AST);
  * `pyloops.evaluate_px` (the per-pixel tree);
  * the Lean text rendered from the tree: translator/gen_kernels_cbca.py writes Generated/KernelsLoopsSelfTest.lean with
    `example`s whose expected values come from `evaluate_px` and are checked by Lean (`decide +kernel`).
`REFUSED`: functions outside the subset — each must raise `Unsupported` (nothing is guessed).
"""
from __future__ import annotations

import ast
import math
from fractions import Fraction

from . import pyloops
from .common import Unsupported
from .pyexpr import INT, RAT, VAL, Param
from .pyloops import AParam, EXT, Arr

# name -> (parameters, source, inputs); an array input is (nested list, shape); "inf"/"-inf"/"nan" in float cells
ACCEPTED = {
    "t_last": ([AParam("a", INT, 2), Param("k", INT)], '''
def t_last(a, k):
    """the loop variable is read after the loop (bound before it: it keeps its last value, or the initial one when the
    range is empty); step 2; range(a, b, s) with a positive literal step; break; two outputs"""
    n0, n1 = a.shape
    out = np.zeros((n0, n1, 2), dtype=np.int64)
    for i in range(n0):
        for j in range(n1):
            last = -7
            s = 0
            for last in range(j, n1, 2):
                if a[i, last] > k:
                    break
                s += a[i, last]
            out[i, j, 0] = s
            out[i, j, 1] = last
    return out
''', [(([[1, 2, 3, 9, 1], [0, 0, 0, 0, 0]], (2, 5)), 5), (([[7]], (1, 1)), 5), (([[1, 2], [3, 4], [5, 6]], (3, 2)), 100)]),
    "t_wrap": ([AParam("a", VAL, 2), AParam("w", INT, 1)], '''
def t_wrap(a, w):
    """negative indices wrap around (index -1 is the last cell: the sentinel column of cbca_step_2); float output;
    `+=` on an output cell; NaN test; nested loops; range(n)"""
    n0, n1 = a.shape
    out = np.zeros((n0, n1), dtype=np.float64)
    for i in range(n0):
        for j in range(n1):
            out[i, j] = a[i, j - 1]
            for d in range(w[0]):
                for e in range(d + 1):
                    if not np.isnan(a[i - d, j - e]):
                        out[i, j] += a[i - d, j - e] * w[-1]
                    else:
                        out[i, j] += 1
    return out
''', [(([[1, 2, 3], [4, "nan", 6]], (2, 3)), ([2, 5, 3], (3,))), (([[Fraction(1, 2)]], (1, 1)), ([1, -2], (2,)))]),
    "t_down": ([AParam("img", EXT, 2), Param("t", RAT)], '''
def t_down(img, t):
    """descending loop with a computed bound, if / elif / else merged inside the body, infinities, min / max / abs,
    bool * int, a local bound on both sides of an `if`"""
    h, w = img.shape
    res = np.zeros((h, w, 3), dtype=np.int16)
    for r in range(h):
        for c in range(w):
            up = 0
            big = 0
            for q in range(r, max(r - 3, -1), -1):
                if np.isfinite(img[q, c]):
                    v = 1
                    if abs(img[q, c] - img[r, c]) > t:
                        big += 1
                    elif img[q, c] == img[r, c]:
                        big += 0
                    else:
                        big -= 1
                else:
                    v = 0
                up += v
            res[r, c, 0] = up
            res[r, c, 1] = big
            res[r, c, 2] = 2 * (img[r, c] < t) * (not np.isnan(img[r, c])) + min(up, 1)
    return res
''', [(([[1, "inf"], [3, 4], ["-inf", 4], [5, "nan"], [9, 9]], (5, 2)), Fraction(3, 2)), (([[0]], (1, 1)), 0)]),
}

_HEAD = "def f(a, k):\n    n0, n1 = a.shape\n    out = np.zeros((n0, n1), dtype=np.int64)\n"
_NEST = "    for i in range(n0):\n        for j in range(n1):\n"


def _body(*lines):
    return _HEAD + _NEST + "".join("            " + ln + "\n" for ln in lines) + "    return out\n"


REFUSED_PARAMS = [AParam("a", INT, 2), Param("k", INT)]
REFUSED = {
    "while": _body("s = 0", "while s < k:", "    s += 1", "out[i, j] = s"),
    "continue": _body("s = 0", "for d in range(k):", "    if d == 1:", "        continue", "    s += d", "out[i, j] = s"),
    "division": _body("out[i, j] = a[i, j] / k"),
    "floor_division": _body("out[i, j] = a[i, j] // k"),
    "variable_step": _body("s = 0", "for d in range(0, 4, k):", "    s += 1", "out[i, j] = s"),
    "zero_step": _body("s = 0", "for d in range(0, 4, 0):", "    s += 1", "out[i, j] = s"),
    "store_elsewhere": _body("out[i, j - 1] = 1"),
    "store_other_array": _body("a[i, j] = 1"),
    "read_output": _body("out[i, j] = out[i, j - 1] + 1"),
    "carry_between_pixels": _HEAD + "    acc = 0\n" + _NEST + "            acc = acc + a[i, j]\n            out[i, j] = acc\n    return out\n",
    "read_before_assignment": _body("if a[i, j] > 0:", "    s = 1", "out[i, j] = s"),
    "loop_local_after_loop": _body("for d in range(k):", "    s = d", "out[i, j] = s"),
    "loop_variable_after_loop_unbound": _body("for d in range(k):", "    pass", "out[i, j] = d"),
    "for_else": _body("s = 0", "for d in range(k):", "    s += 1", "else:", "    s = 5", "out[i, j] = s"),
    "slice": _body("out[i, j] = a[i, 0:2][0]"),
    "return_in_body": _body("return out"),
    "truthiness": _body("if a[i, j]:", "    out[i, j] = 1"),
    "bool_plus_int": _body("out[i, j] = (a[i, j] > 0) + 1"),
    "unknown_call": _body("out[i, j] = int(a[i, j])"),
    "read_under_and": _body("if j > 0 and a[i, j - 1] > 0:", "    out[i, j] = 1"),
    "float_into_int_array": _body("out[i, j] = a[i, j] * 0.5"),
    "break_outside_loop": _body("break"),
    "assign_pixel_variable": _body("j = 0", "out[i, j] = 1"),
    "loop_over_list": _body("s = 0", "for d in [1, 2]:", "    s += d", "out[i, j] = s"),
    "non_int_index": _body("out[i, j] = a[i, 0.0]"),
    "two_allocations": _HEAD + "    other = np.zeros((n0, n1), dtype=np.int64)\n" + _NEST + "            out[i, j] = 1\n    return out\n",
    "extent_mismatch": "def f(a, k):\n    n0, n1 = a.shape\n    out = np.zeros((n0, n1 + 1), dtype=np.int64)\n" + _NEST
                       + "            out[i, j] = 1\n    return out\n",
    "type_changing_carried_local": "def f(a, k):\n    n0, n1 = a.shape\n    out = np.zeros((n0, n1), dtype=np.float64)\n" + _NEST
                                   + "            s = 0\n            for d in range(k):\n                s = s + 0.5\n            out[i, j] = s\n    return out\n",
    "not_a_map_kernel": "def f(a, k):\n    n0, n1 = a.shape\n    out = np.zeros((n0, n1), dtype=np.int64)\n    return out\n",
}


def function_of(text: str) -> ast.FunctionDef:
    return ast.parse(text.strip()).body[0]


def accepted_kernels():
    out = {}
    for name, (params, text, _) in ACCEPTED.items():
        k = pyloops.translate_map_kernel(function_of(text), name, params, source_text=text.strip())
        k.fn = function_of(text)
        out[name] = k
    return out


def refused_problems():
    problems = []
    for name, text in REFUSED.items():
        try:
            pyloops.translate_map_kernel(function_of(text), "f", REFUSED_PARAMS, source_text=text.strip())
            problems.append(f"{name} was translated")
        except Unsupported:
            pass
        except Exception as exc:  # pylint: disable=broad-except
            problems.append(f"{name}: {type(exc).__name__}: {exc} (expected Unsupported)")
    return problems


def cell(v, integer):
    if isinstance(v, str):
        return v
    return int(v) if integer else Fraction(v)


def to_arr(spec, p) -> Arr:
    data, shape = spec

    def conv(x):
        return [conv(y) for y in x] if isinstance(x, list) else cell(x, p.elem == INT)
    return Arr(conv(data), shape)


def exact_args(params, args):
    return [to_arr(a, p) if isinstance(p, AParam) else a for p, a in zip(params, args)]


def run_python(text: str, name: str, params, args):
    """CPython on the text itself (numpy arrays: int64 / float64)"""
    import numpy as np

    ns = {"np": np}
    exec(compile(text.strip(), f"<selftest {name}>", "exec"), ns)  # the self-test's own literals  # pylint: disable=exec-used
    special = {"inf": math.inf, "-inf": -math.inf, "nan": math.nan}
    real = []
    for p, a in zip(params, args):
        if isinstance(p, AParam):
            def conv(x):
                return [conv(y) for y in x] if isinstance(x, list) else (special[x] if isinstance(x, str) else (int(x) if p.elem == INT else float(x)))
            real.append(np.array(conv(a[0]), dtype=np.int64 if p.elem == INT else np.float64).reshape(a[1]))
        else:
            real.append(int(a) if p.kind == INT else float(a))
    return ns[name](*real)


def canon(x):
    """nested lists of ints / exact floats / "nan" """
    if isinstance(x, list):
        return [canon(y) for y in x]
    if x is None:
        return "nan"
    if isinstance(x, str):
        return x
    if isinstance(x, float):
        if math.isnan(x):
            return "nan"
        if math.isinf(x):
            return "inf" if x > 0 else "-inf"
        return Fraction(x)
    return Fraction(x)


def per_pixel(k, args):
    h, w = pyloops.evaluate_bounds(k, args)
    out = []
    for c in range(h):
        row = []
        for r in range(w):
            res, vals = pyloops.evaluate_px(k, args, c, r)
            row.append(res if res != "ok" else (list(vals) if len(k.cells) > 1 else vals[0]))
        out.append(row)
    return out


def python_problems():
    problems = []
    for name, k in accepted_kernels().items():
        params, text, inputs = ACCEPTED[name]
        for args in inputs:
            py = canon(run_python(text, name, params, args).tolist())
            ex = exact_args(params, args)
            whole = canon(pyloops.interpret(k.fn, ex).data)
            px = canon(per_pixel(k, exact_args(params, args)))
            if not py == whole == px:
                problems.append(f"{name}{args}: CPython {py}, interpret {whole}, per-pixel {px}")
    return problems
