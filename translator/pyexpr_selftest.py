"""Self-test of translator/pyexpr.py on constructs the production kernels do not all exercise.

`ACCEPTED`: small functions inside the subset.  Three readings of each are compared:
  * CPython running the function text itself (`run_python`, floats; the harness does this on every run of C06);
  * the translator's exact evaluator over the IR (`pyexpr.evaluate`);
  * the Lean text rendered from the IR: translator/gen_kernels.py writes them to Generated/KernelsSelfTest.lean
    with `example`s whose expected values come from the evaluator and are checked by Lean (`decide +kernel`).
`REFUSED`: functions outside the subset — each must raise `Unsupported` (nothing is guessed).
"""
from __future__ import annotations

import ast
import math
from fractions import Fraction

from . import pyexpr
from .common import Unsupported
from .pyexpr import BOOL, INT, RAT, STR, VAL, Param

NANF = float("nan")

# name -> (parameters, source, inputs)       (None in an input = NaN)
ACCEPTED = {
    "t_merge": ([Param("x", VAL), Param("y", VAL)], '''
def t_merge(x, y):
    """elif chain that reassigns two locals: one merged let, int/float join"""
    a = 1
    b = 2.5
    if x > y:
        a = a + 1
        b = x
    elif x == y:
        b = -b
    else:
        a -= 3
    return a, b, a * b
''', [(1, 2), (2, 1), (3, 3), (None, 1), (1, None), (Fraction(1, 4), Fraction(1, 4))]),
    "t_div": ([Param("x", RAT), Param("y", RAT)], '''
def t_div(x, y):
    """a tested division, then one guarded by `y != 0` inside a branch"""
    q = x / y
    if y != 0:
        r = 1 / y
    else:
        r = 0.0
    return q + r, r
''', [(1, 2), (3, 0), (0, 4), (-5, Fraction(1, 2))]),
    "t_nan": ([Param("x", VAL), Param("y", VAL)], '''
def t_nan(x, y):
    """isnan under and/not, max of three, min, NaN in either position"""
    if np.isnan(x) and not np.isnan(y):
        return y, 1
    m = max(x, y, 0.5)
    n = min(x, y)
    return m - n, 0
''', [(1, 2), (None, 2), (2, None), (None, None), (Fraction(-1, 2), Fraction(1, 4)), (3, 3)]),
    "t_chain": ([Param("i", INT), Param("j", INT), Param("x", VAL)], '''
def t_chain(i, j, x):
    """chained comparison, x != x, integer power, booleans returned"""
    if 0 <= i < j <= 10 and not (x != x):
        return abs(i - j) ** 2, True
    return -i, x >= 0.25 or x < -1e-3
''', [(1, 4, 0), (1, 4, None), (4, 1, Fraction(1, 2)), (0, 11, Fraction(-1, 2)), (-1, 5, None), (3, 3, Fraction(1, 4))]),
    "t_abs_guard": ([Param("a", VAL), Param("b", VAL)], '''
def t_abs_guard(a, b):
    """`abs(d) > c` makes the divisor non-zero (NaN included: it does not raise), product of non-zero things"""
    d = a - b
    if abs(d) > 1.0e-3:
        return b / (-2 * d * d), 1
    return 0.0, 0
''', [(1, 2), (2, 2), (None, 2), (1, None), (Fraction(1, 2), Fraction(1, 4))]),
    "t_str": ([Param("mode", STR), Param("x", RAT), Param("flag", BOOL)], '''
def t_str(mode, x, flag):
    """string parameter, nested ifs returning on some paths only (continuation duplicated), `and` with a fact"""
    y = x
    if mode == "double":
        y = 2 * x
        if flag:
            return y, 0
    elif mode != "half":
        if x != 0 and 1 / x > 2:
            return 1 / x, 1
    else:
        y = x / 2
    y += 1
    return y, 2
''', [("double", 3, True), ("double", 3, False), ("half", 5, True), ("other", Fraction(1, 4), False),
      ("other", 0, False), ("other", 7, True)]),
    "t_raise": ([Param("cost", "array", (VAL, VAL)), Param("k", INT)], '''
def t_raise(cost, k):
    """division by a Val, by an int; the test of an if that divides; negative subscript"""
    if cost[0] / cost[-1] > k:
        return 1 / k
    return k / 1
''', [([1, 2], 0), ([1, 0], 3), ([None, 0], 3), ([4, 2], 1), ([4, None], 1), ([4, 2], 0), ([1, 2], -1)]),
}

# ---- glue extension (records, `raise`, tuple locals, ceil / floor / int, constructor returns): the options the
# generator passes are part of the test.  name -> (parameters, source, inputs, options)
GLUE_OPTIONS = {"exceptions": ("ValueError",), "constructors": {"Box": (3, (2,), "ValueError"), "Pair": 2},
                "math_names": {"ceil": "ceil", "fl": "floor"}}
REC = Param("cfg", "record", (('cfg["a"]["lo"]', "aLo", INT), ('cfg["m"][0]', "m0", INT), ("int(cfg.sizes['n'])", "n", INT)))
GLUE_ACCEPTED = {
    "g_record": ([REC, Param("w", INT)], '''
def g_record(cfg, w):
    """nested string-keyed subscripts and an `int(...)` atom of a record; raise; re-assignment under `if` without else;
    a constructor that validates its last argument"""
    lo = max(cfg["a"]["lo"] - cfg["m"][0], 0)
    size = int(cfg.sizes["n"]) - lo
    if lo >= w or size <= 0:
        raise ValueError("outside")
    if lo + size > w:
        size = w - lo
    return Box(lo, size, size - 2)
''', [([1, 0, 5], 4), ([3, 1, 9], 4), ([5, 0, 9], 4), ([0, 2, 1], 7), ([-3, 1, 2], 1), ([1, 0, 2], 9)]),
    "g_tuple": ([Param("self", "opaque"), Param("n", INT), Param("d", RAT)], '''
def g_tuple(self, n, d):
    """tuple locals read by literal subscripts, reassigned under if / else, ceil / floor / int, nested tuple return"""
    p = (max(0 - d, 0), min(n - d, n))
    q = (p[1], p[0])
    if d < 0:
        p = (int(ceil(p[0])), int(ceil(p[1])))
    else:
        p = (int(fl(p[0])), int(fl(p[-1])))
    if p[1] <= p[0]:
        return (0, 0), (int(q[0]), int(d * 2))
    return p, (int(q[1]), int(d * 2))
''', [(None, 5, 0), (None, 5, Fraction(3, 2)), (None, 5, Fraction(-3, 2)), (None, 4, Fraction(-1, 4)), (None, 4, 7),
      (None, 3, Fraction(-7, 4)), (None, 0, Fraction(1, 4))]),
    "g_swap": ([Param("a", INT), Param("b", INT)], '''
def g_swap(a, b):
    """a tuple display whose elements read components bound before them: all elements see the old values"""
    p = (a, b)
    p = (p[1], p[0] + p[1])
    p = (p[1], p[0])
    return Pair(p[0], p[1])
''', [(1, 2), (-3, 5), (0, 0)]),
}

GLUE_REFUSED = {
    "undeclared atom of a record": "def f(cfg, w):\n    return cfg['a']['hi']\n",
    "record used whole": "def f(cfg, w):\n    x = cfg\n    return w\n",
    "record sub-dict": "def f(cfg, w):\n    m = cfg['m']\n    return w\n",
    "negative index into a record list": "def f(cfg, w):\n    return cfg['m'][-1]\n",
    "undeclared exception": "def f(cfg, w):\n    if w > 0:\n        raise KeyError('x')\n    return w\n",
    "raise with a computed message": "def f(cfg, w):\n    if w > 0:\n        raise ValueError(w)\n    return w\n",
    "raise from": "def f(cfg, w):\n    if w > 0:\n        raise ValueError('x') from None\n    return w\n",
    "bare raise": "def f(cfg, w):\n    if w > 0:\n        raise\n    return w\n",
    "statement after raise": "def f(cfg, w):\n    raise ValueError('x')\n    return w\n",
    "unknown constructor": "def f(cfg, w):\n    return Window(w, w)\n",
    "constructor arity": "def f(cfg, w):\n    return Pair(w, w, w)\n",
    "constructor keyword": "def f(cfg, w):\n    return Pair(w, b=w)\n",
    "constructor inside an expression": "def f(cfg, w):\n    x = Pair(w, w)\n    return w\n",
    "tuple local of varying length": "def f(cfg, w):\n    p = (w, w)\n    p = (w, w, w)\n    return p[0]\n",
    "tuple local also scalar": "def f(cfg, w):\n    p = (w, w)\n    p = w\n    return p\n",
    "tuple local used whole in an expression": "def f(cfg, w):\n    p = (w, w)\n    return p + p\n",
    "tuple subscript out of range": "def f(cfg, w):\n    p = (w, w)\n    return p[2]\n",
    "tuple subscript by a variable": "def f(cfg, w):\n    p = (w, w)\n    return p[w]\n",
    "tuple one-sided": "def f(cfg, w):\n    if w > 0:\n        p = (w, w)\n    return p[0]\n",
    "returns of different shapes": "def f(cfg, w):\n    p = (w, w)\n    if w > 0:\n        return p, w\n    return w, p\n",
    "sqrt from math": "def f(cfg, w):\n    return sqrt(w)\n",
    "ceil of a float that may be NaN": "def f(cfg, w, x):\n    return ceil(x)\n",
    "int of a float that may be NaN": "def f(cfg, w, x):\n    return int(x)\n",
    "int with a base": "def f(cfg, w):\n    return int(w, 10)\n",
    "shadowed ceil": "def f(cfg, w):\n    ceil = 3\n    return w\n",
    "shadowed int": "def f(cfg, w):\n    int = 3\n    return w\n",
    "use of self": "def f(self, w):\n    return self.k + w\n",
}

REFUSED = {
    "for loop": "def f(x):\n    for i in range(3):\n        x = x + i\n    return x\n",
    "while": "def f(x):\n    while x > 0:\n        x = x - 1\n    return x\n",
    "floor division": "def f(x):\n    return x // 2\n",
    "modulo": "def f(x):\n    return x % 2\n",
    "int()": "def f(x):\n    return int(x)\n",
    "conditional expression": "def f(x):\n    return 1 if x > 0 else 2\n",
    "truthiness of a number": "def f(x):\n    if x:\n        return 1\n    return 0\n",
    "and on numbers": "def f(x):\n    return x and 1\n",
    "unknown name": "def f(x):\n    return x + y\n",
    "unknown call": "def f(x):\n    return math.sqrt(x)\n",
    "unknown attribute": "def f(x):\n    return np.pi * x\n",
    "division under or": "def f(x):\n    if x > 1 or 1 / x > 2:\n        return 1\n    return 0\n",
    "missing return": "def f(x):\n    if x > 0:\n        return 1\n",
    "one-sided local": "def f(x):\n    if x > 0:\n        y = 1\n    return y\n",
    "tuple assignment": "def f(x):\n    a, b = x, x\n    return a\n",
    "subscript by a variable": "def f(x):\n    return c[x]\n",
    "keyword argument": "def f(x):\n    return max(x, 1, key=abs)\n",
    "default argument": "def f(x=1):\n    return x\n",
    "statement after return": "def f(x):\n    return x\n    x = 1\n",
    "negative power": "def f(x):\n    return x ** -1\n",
    "float power": "def f(x):\n    return x ** 0.5\n",
    "string result": "def f(x):\n    return 'a'\n",
    "comparison of bool": "def f(x):\n    return (x > 1) < 2\n",
    "different arities": "def f(x):\n    if x > 0:\n        return 1, 2\n    return 1\n",
    "lambda": "def f(x):\n    g = lambda t: t\n    return x\n",
    "shadowed builtin": "def f(x):\n    abs = 3\n    return x\n",
    "is None": "def f(x):\n    return x is None\n",
    "bitwise and": "def f(x):\n    return x & 1\n",
}
REFUSED_PARAMS = [Param("x", VAL)]


def function_of(text: str) -> ast.FunctionDef:
    return ast.parse(text).body[0]


def accepted_kernels():
    """-> {name: Kernel} (raises Unsupported if the translator refuses one of its own test functions)"""
    out = {}
    for name, (params, text, _) in ACCEPTED.items():
        out[name] = pyexpr.translate_function(function_of(text), name, params, source_text=text)
    return out


def glue_kernels():
    out = {}
    for name, (params, text, _) in GLUE_ACCEPTED.items():
        out[name] = pyexpr.translate_function(function_of(text), name, params, source_text=text, **GLUE_OPTIONS)
    return out


def glue_refused_problems():
    bad = []
    for what, text in GLUE_REFUSED.items():
        fn = function_of(text)
        names = [a.arg for a in fn.args.args]
        params = [Param("self", "opaque") if n == "self" else REC if n == "cfg" else Param(n, VAL if n == "x" else INT) for n in names]
        try:
            pyexpr.translate_function(fn, "f", params, source_text=text, **GLUE_OPTIONS)
        except Unsupported:
            continue
        except Exception as exc:  # pylint: disable=broad-except
            bad.append(f"glue / {what}: {type(exc).__name__} instead of Unsupported")
            continue
        bad.append(f"glue / {what}: accepted")
    # without the options of the generator the glue constructs are refused as before
    for name, (params, text, _) in GLUE_ACCEPTED.items():
        if name == "g_swap":
            continue
        try:
            pyexpr.translate_function(function_of(text), name, params, source_text=text)
        except Unsupported:
            continue
        bad.append(f"glue / {name}: accepted without the generator's options")
    return bad


class _Cfg(dict):
    """a record as CPython sees it in the glue self-test: a dict with a `.sizes` attribute"""


def run_python_glue(text: str, name: str, params, args):
    """CPython on the text of a glue test function: a record argument is rebuilt from the values of its atoms, the
    constructors are plain tuples after their own validation"""
    import math

    def box(a, b, c):
        if c < 0:
            raise ValueError("Box: negative")
        return ("Box", a, b, c)

    env = {"ceil": math.ceil, "fl": math.floor, "Box": box, "Pair": lambda a, b: ("Pair", a, b)}
    exec(compile(text, f"<selftest {name}>", "exec"), env)  # pylint: disable=exec-used
    actual = []
    for p, a in zip(params, args):
        if p.kind == "record":
            cfg = _Cfg({"a": {"lo": a[0]}, "m": [a[1]]})
            cfg.sizes = {"n": a[2]}
            actual.append(cfg)
        elif p.kind == "opaque":
            actual.append(None)
        else:
            actual.append(float(a) if p.kind == RAT else a)
    try:
        r = env[name](*actual)
    except ValueError as exc:
        return ("Box: ValueError" if str(exc).startswith("Box:") else "ValueError"), None

    def flat(v):
        if isinstance(v, tuple):
            return [x for c in v if not isinstance(c, str) for x in flat(c)]
        return [v]

    return "ok", tuple(flat(r))


def glue_python_problems():
    bad = []
    ks = glue_kernels()
    for name, (params, text, inputs) in GLUE_ACCEPTED.items():
        for args in inputs:
            py = run_python_glue(text, name, params, args)
            ev = pyexpr.evaluate(ks[name], *args)
            if py[0] != ev[0] or (py[0] == "ok" and (list(py[1]) != list(ev[1]) or any(type(a) is not type(b) for a, b in zip(py[1], ev[1])))):
                bad.append(f"glue / {name}{tuple(args)}: python {py} evaluator {ev}")
    return bad


def refused_problems():
    """names of the REFUSED functions the translator accepted"""
    bad = glue_refused_problems()
    for what, text in REFUSED.items():
        try:
            pyexpr.translate_function(function_of(text), "f", REFUSED_PARAMS, source_text=text)
        except Unsupported:
            continue
        except Exception as exc:  # pylint: disable=broad-except
            bad.append(f"{what}: {type(exc).__name__} instead of Unsupported")
            continue
        bad.append(f"{what}: accepted")
    return bad


def to_float(v):
    if v is None:
        return NANF
    if isinstance(v, (str, bool)):
        return v
    if isinstance(v, list):
        return [to_float(x) for x in v]
    return float(v) if not isinstance(v, int) else v


def run_python(text: str, name: str, args):
    """CPython on the function text (floats; ints stay ints)"""
    import numpy as np

    env = {"np": np}
    exec(compile(text, f"<selftest {name}>", "exec"), env)  # pylint: disable=exec-used
    try:
        r = env[name](*[to_float(a) for a in args])
    except ZeroDivisionError:
        return "ZeroDivisionError", None
    return "ok", r if isinstance(r, tuple) else (r,)


def same(py, ev) -> bool:
    if py[0] != ev[0]:
        return False
    if py[0] != "ok":
        return True
    if len(py[1]) != len(ev[1]):
        return False
    for a, b in zip(py[1], ev[1]):
        if isinstance(a, bool) or isinstance(b, bool):
            if bool(a) != bool(b) or isinstance(a, bool) != isinstance(b, bool):
                return False
        elif b is None:
            if not (isinstance(a, float) and math.isnan(a)):
                return False
        else:
            if isinstance(a, float) and math.isnan(a):
                return False
            if abs(Fraction(a) - Fraction(b)) > Fraction(1, 10**9) * (1 + abs(Fraction(b))):
                return False
    return True


def python_problems():
    """inputs on which CPython and the translator's evaluator differ (must be empty)"""
    bad = glue_python_problems()
    ks = accepted_kernels()
    for name, (params, text, inputs) in ACCEPTED.items():
        for args in inputs:
            py = run_python(text, name, args)
            ev = pyexpr.evaluate(ks[name], *args)
            if not same(py, ev):
                bad.append(f"{name}{tuple(args)}: python {py} evaluator {ev}")
    return bad
