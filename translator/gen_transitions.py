"""T1 entry point (see t1_transitions.py)."""
from . import common, t1_transitions

NAME = "Transitions"


def generate():
    tables = t1_transitions.extract()
    common.write_if_changed("Transitions.lean", t1_transitions.render(tables))
    return {"T1": {"source": t1_transitions.SRC, "digest": common.digest(t1_transitions.SRC),
                   "run_rows": len(tables["run"]), "check_rows": len(tables["check"])}}
