"""T9 (+ attribute initialisation, shared schema): what the reproducibility argument of C18 needs
-> Generated/Threading.lean

1. For every `prange` nest of the numba kernels: each subscript store, and each subscript load of an array
   the nest also stores, with its index elements, the prange variables it is *shared* across (enclosing
   prange loops in whose body the array is not a local), and whether the stored value is a constant.
2. For every run callback of PandoraMachine: all machine attributes it reads / writes; the attributes
   `run_prepare` assigns on every path (and on the multi-scale path).
3. For the matching-cost classes sharing the class-level `schema` dict: the keys each `check_conf` assigns
   before validating.
"""
from __future__ import annotations

import ast

from .common import Unsupported, digest, find_class, find_method, lean_list, lean_str, parse, write_if_changed

NAME = "Threading"

KERNEL_FILES = [
    "pandora/refinement/refinement.py",
    "pandora/cost_volume_confidence/ambiguity.py",
    "pandora/cost_volume_confidence/risk.py",
    "pandora/cost_volume_confidence/interval_bounds.py",
    "pandora/interval_tools.py",
]
MACHINE = "pandora/state_machine.py"
MC_FILES = {
    "AbstractMatchingCost": "pandora/matching_cost/matching_cost.py",
    "SadSsd": "pandora/matching_cost/sad_ssd.py",
    "Census": "pandora/matching_cost/census.py",
    "Zncc": "pandora/matching_cost/zncc.py",
}
CALLBACKS = [
    "matching_cost_prepare", "matching_cost_run", "aggregation_run", "semantic_segmentation_run",
    "optimization_run", "disparity_run", "filter_run", "refinement_run", "validation_run",
    "run_multiscale", "cost_volume_confidence_run",
]


# ------------------------------------------------------------------------------------------------ 1. prange nests
def is_prange(node) -> bool:
    return (isinstance(node, ast.For) and isinstance(node.iter, ast.Call)
            and isinstance(node.iter.func, ast.Name) and node.iter.func.id == "prange")


def index_elems(sub: ast.Subscript):
    sl = sub.slice
    elts = sl.elts if isinstance(sl, ast.Tuple) else [sl]
    return [ast.unparse(e) for e in elts]


def base_name(sub: ast.Subscript):
    b = sub.value
    while isinstance(b, ast.Subscript):
        b = b.value
    if isinstance(b, ast.Name):
        return b.id
    return None


def is_const_value(v: ast.expr) -> bool:
    if isinstance(v, ast.Constant):
        return True
    return ast.unparse(v) in ("np.nan", "True", "False")


class NestWalker:
    """collect the accesses of one outermost prange nest"""

    def __init__(self, func_name, loop):
        self.func = func_name
        self.loop = loop
        self.stores = []
        self.loads = []
        self.walk_body([loop], [])

    @staticmethod
    def locals_of(loop: ast.For):
        """names bound by plain assignment (or tuple unpacking / inner loop variable) inside the loop body"""
        out = set()
        for sub in ast.walk(loop):
            if sub is loop:
                continue
            if isinstance(sub, ast.Assign):
                for t in sub.targets:
                    for n in ast.walk(t):
                        if isinstance(n, ast.Name) and not _inside_subscript(t, n):
                            out.add(n.id)
            if isinstance(sub, ast.For):
                for n in ast.walk(sub.target):
                    if isinstance(n, ast.Name):
                        out.add(n.id)
        return out

    def walk_body(self, stmts, enclosing):
        """enclosing: list of (prange var, locals of that loop) from outermost to innermost"""
        for st in stmts:
            if is_prange(st):
                if not isinstance(st.target, ast.Name):
                    raise Unsupported(f"{self.func}: prange target")
                enc = enclosing + [(st.target.id, self.locals_of(st))]
                self.walk_body(st.body, enc)
                continue
            if isinstance(st, (ast.For, ast.While, ast.If, ast.With)):
                # the test / iterable expressions are loads
                for fld in ("test", "iter"):
                    if hasattr(st, fld):
                        self.record_loads(getattr(st, fld), enclosing)
                self.walk_body(getattr(st, "body", []), enclosing)
                self.walk_body(getattr(st, "orelse", []), enclosing)
                continue
            if isinstance(st, ast.Assign):
                for t in st.targets:
                    self.record_store_target(t, st.value, enclosing)
                self.record_loads(st.value, enclosing)
                continue
            if isinstance(st, ast.AugAssign):
                self.record_store_target(st.target, st.value, enclosing, aug=True)
                self.record_loads(st.value, enclosing)
                continue
            if isinstance(st, (ast.Expr, ast.Return)):
                if st.value is not None:
                    self.record_loads(st.value, enclosing)
                continue
            if isinstance(st, (ast.Continue, ast.Break, ast.Pass)):
                continue
            raise Unsupported(f"{self.func}: unsupported statement in a prange nest: {ast.unparse(st)[:60]}")

    def shared_vars(self, name, enclosing):
        """prange variables of the enclosing loops in whose body `name` is not a local (i.e. shared across them)"""
        shared = []
        private_from = None
        for depth, (var, locs) in enumerate(enclosing):
            if name in locs:
                private_from = depth  # the deepest loop whose body binds the name
        for depth, (var, locs) in enumerate(enclosing):
            if private_from is not None and depth <= private_from:
                continue
            shared.append(var)
        if private_from is None:
            shared = [v for v, _ in enclosing]
        return shared

    def record_store_target(self, t, value, enclosing, aug=False):
        if isinstance(t, ast.Tuple):
            for e in t.elts:
                self.record_store_target(e, value, enclosing, aug)
            return
        if isinstance(t, ast.Name):
            return  # local variable
        if isinstance(t, ast.Subscript):
            name = base_name(t)
            if name is None:
                raise Unsupported(f"{self.func}: store through {ast.unparse(t)}")
            acc = {"array": name, "index": index_elems(t), "shared": self.shared_vars(name, enclosing),
                   "const": (not aug) and is_const_value(value)}
            self.stores.append(acc)
            if aug:
                self.loads.append(dict(acc, const=False))
            # index expressions are loads too
            self.record_loads(t.slice, enclosing)
            return
        raise Unsupported(f"{self.func}: unsupported store target {ast.unparse(t)}")

    def record_loads(self, expr, enclosing):
        bases = set()
        for sub in ast.walk(expr):
            if isinstance(sub, ast.Subscript):
                b = sub.value
                while isinstance(b, ast.Subscript):
                    b = b.value
                bases.add(id(b))
        for sub in ast.walk(expr):
            if isinstance(sub, ast.Subscript) and isinstance(sub.ctx, ast.Load):
                name = base_name(sub)
                if name is None:
                    continue
                self.loads.append({"array": name, "index": index_elems(sub), "shared": self.shared_vars(name, enclosing), "const": False})
            # whole-array uses of a name (e.g. arr.copy(), np.sum(arr)) of a stored array are recorded with an empty index
            if isinstance(sub, ast.Name) and isinstance(sub.ctx, ast.Load) and id(sub) not in bases:
                self.loads.append({"array": sub.id, "index": ["<whole>"], "shared": self.shared_vars(sub.id, enclosing), "const": False, "whole": True})


def _inside_subscript(root, name_node):
    for sub in ast.walk(root):
        if isinstance(sub, ast.Subscript):
            for n in ast.walk(sub):
                if n is name_node:
                    return True
    return False


def outer_pranges(fn: ast.FunctionDef):
    out = []

    def visit(stmts):
        for st in stmts:
            if is_prange(st):
                out.append(st)
            else:
                for fld in ("body", "orelse"):
                    if hasattr(st, fld) and isinstance(getattr(st, fld), list):
                        visit(getattr(st, fld))

    visit(fn.body)
    return out


def parallel_functions(mod: ast.Module):
    for node in ast.walk(mod):
        if isinstance(node, ast.FunctionDef):
            for d in node.decorator_list:
                if isinstance(d, ast.Call) and ast.unparse(d.func) == "njit" and any(k.arg == "parallel" for k in d.keywords):
                    yield node
                    break


def extract_nests():
    nests = []
    for rel in KERNEL_FILES:
        mod = parse(rel)
        n_par = 0
        for fn in parallel_functions(mod):
            n_par += 1
            loops = outer_pranges(fn)
            if not loops:
                raise Unsupported(f"{rel}:{fn.name}: parallel kernel without prange")
            for k, loop in enumerate(loops):
                w = NestWalker(fn.name, loop)
                stored = {s["array"] for s in w.stores}
                # keep loads of stored arrays only; whole-array loads of a stored array that is shared are kept as such
                loads = []
                for l in w.loads:
                    if l["array"] in stored:
                        if l.get("whole"):
                            # a bare name also appears as the base of every subscript: ignore those duplicates
                            continue
                        loads.append(l)
                nests.append({"func": fn.name, "k": k, "file": rel, "stores": w.stores, "loads": loads,
                              "whole_loads": sorted({l["array"] for l in w.loads if l.get("whole") and l["array"] in stored and l["shared"]})})
        # every prange must sit in a function the scan recognised as parallel
        total_prange = sum(1 for n in ast.walk(mod) if is_prange(n))
        seen = sum(1 for fn in parallel_functions(mod) for n in ast.walk(fn) if is_prange(n))
        if total_prange != seen:
            raise Unsupported(f"{rel}: prange outside an njit(parallel=...) function")
    return nests


# ------------------------------------------------------------------------------------------------ 2. machine attributes
def attr_uses(fn: ast.FunctionDef):
    reads, writes = [], []
    called = set()
    for sub in ast.walk(fn):
        if isinstance(sub, ast.Call) and isinstance(sub.func, ast.Attribute) and ast.unparse(sub.func.value) == "self":
            called.add(id(sub.func))
    for sub in ast.walk(fn):
        if isinstance(sub, ast.Attribute) and isinstance(sub.value, ast.Name) and sub.value.id == "self":
            if id(sub) in called:
                continue  # a method call on self, not a data attribute
            if isinstance(sub.ctx, ast.Store):
                if sub.attr not in writes:
                    writes.append(sub.attr)
            else:
                if sub.attr not in reads:
                    reads.append(sub.attr)
    return reads, writes


def definite_assigns(stmts):
    """machine attributes assigned on every path through `stmts`"""
    out = []
    for st in stmts:
        if isinstance(st, ast.Assign):
            for t in st.targets:
                for n in ast.walk(t):
                    if isinstance(n, ast.Attribute) and isinstance(n.value, ast.Name) and n.value.id == "self" and isinstance(n.ctx, ast.Store):
                        if n.attr not in out:
                            out.append(n.attr)
        elif isinstance(st, ast.If):
            if st.orelse:
                a, b = definite_assigns(st.body), definite_assigns(st.orelse)
                for x in a:
                    if x in b and x not in out:
                        out.append(x)
    return out


def extract_machine():
    cls = find_class(parse(MACHINE), "PandoraMachine")
    cbs = []
    for name in CALLBACKS:
        r, w = attr_uses(find_method(cls, name))
        cbs.append({"name": name, "reads": r, "writes": w})
    prep = find_method(cls, "run_prepare")
    always = definite_assigns(prep.body)
    multi = list(always)
    for st in prep.body:
        if isinstance(st, ast.If) and ast.unparse(st.test) == "self.num_scales > 1":
            for x in definite_assigns(st.body):
                if x not in multi:
                    multi.append(x)
    # add_transitions is a call, not an assignment; `events`/`state` belong to the library
    return {"callbacks": cbs, "prepare_always": always, "prepare_multi": multi}


# ------------------------------------------------------------------------------------------------ 3. shared schema
def extract_schema_keys():
    out = {}
    base_cls = find_class(parse(MC_FILES["AbstractMatchingCost"]), "AbstractMatchingCost")
    base_keys = None
    for node in base_cls.body:
        if isinstance(node, ast.Assign) and any(isinstance(t, ast.Name) and t.id == "schema" for t in node.targets):
            if not isinstance(node.value, ast.Dict):
                raise Unsupported("AbstractMatchingCost.schema is not a dict literal")
            base_keys = [k.value for k in node.value.keys]
    if base_keys is None:
        raise Unsupported("AbstractMatchingCost.schema not found")
    for cname in ("SadSsd", "Census", "Zncc"):
        cls = find_class(parse(MC_FILES[cname]), cname)
        fn = find_method(cls, "check_conf")
        keys = []
        aliased = False
        validated_after = False
        for st in fn.body:
            src = ast.unparse(st)
            if src == "schema = self.schema":
                aliased = True
            elif isinstance(st, ast.Assign) and isinstance(st.targets[0], ast.Subscript) and ast.unparse(st.targets[0].value) == "schema":
                if validated_after:
                    raise Unsupported(f"{cname}.check_conf: schema key assigned after validation")
                k = st.targets[0].slice
                if not (isinstance(k, ast.Constant) and isinstance(k.value, str)):
                    raise Unsupported(f"{cname}.check_conf: non literal schema key")
                keys.append(k.value)
            elif src == "checker = Checker(schema)":
                validated_after = True
        if not aliased or not validated_after:
            raise Unsupported(f"{cname}.check_conf: schema aliasing/validation pattern changed")
        out[cname] = keys
    return {"base": base_keys, "classes": out}


def extract():
    return {"nests": extract_nests(), "machine": extract_machine(), "schema": extract_schema_keys()}


def lean_access(a) -> str:
    return "{ array := %s, index := %s, shared := %s, const := %s }" % (
        lean_str(a["array"]), lean_list(map(lean_str, a["index"])), lean_list(map(lean_str, a["shared"])),
        "true" if a["const"] else "false")


def render(d) -> str:
    out = [
        "-- GENERATED by translator/gen_threading.py. Do not edit.",
        "import PandoraModel.Model.Threading",
        "",
        "namespace Pandora.Generated.Threading",
        "open Pandora.Threading",
        "",
        "def nests : List Nest := [",
    ]
    rows = []
    for n in d["nests"]:
        rows.append("  { func := %s, k := %d,\n    stores := %s,\n    loads := %s,\n    wholeLoads := %s }" % (
            lean_str(n["func"]), n["k"], lean_list(lean_access(a) for a in n["stores"]),
            lean_list(lean_access(a) for a in n["loads"]), lean_list(map(lean_str, n["whole_loads"]))))
    out.append(",\n".join(rows))
    out.append("]")
    out.append("")
    m = d["machine"]
    out.append("def callbackAttrs : List CbAttrs := [")
    out.append(",\n".join("  { name := %s, reads := %s, writes := %s }" % (
        lean_str(c["name"]), lean_list(map(lean_str, c["reads"])), lean_list(map(lean_str, c["writes"]))) for c in m["callbacks"]))
    out.append("]")
    out.append("")
    out.append("def prepareAlways : List String := " + lean_list(map(lean_str, m["prepare_always"])))
    out.append("def prepareMulti : List String := " + lean_list(map(lean_str, m["prepare_multi"])))
    out.append("")
    s = d["schema"]
    out.append("def schemaBaseKeys : List String := " + lean_list(map(lean_str, s["base"])))
    out.append("def schemaClassKeys : List (String × List String) := [")
    out.append(",\n".join("  (%s, %s)" % (lean_str(k), lean_list(map(lean_str, v))) for k, v in s["classes"].items()))
    out.append("]")
    out.append("")
    out.append("end Pandora.Generated.Threading")
    return "\n".join(out) + "\n"


def generate():
    d = extract()
    write_if_changed("Threading.lean", render(d))
    return {"T9": {"sources": KERNEL_FILES + [MACHINE] + list(MC_FILES.values()),
                   "digest": digest(*KERNEL_FILES, MACHINE, *MC_FILES.values()), "nests": len(d["nests"])}}
