"""T14i (translator/pyvec_idx.py): the body of `for row in range(0, nb_row)` of
`CrossCheckingAccurate.disparity_checking` (pandora/validation/validation.py) -> Generated/KernelsCrossCheck.lean.

    crossCheckRow maskL dispL dispR threshold disparity_range : PyVec.Res (List Nat × List PyLoops.Fl)

is what one iteration of the loop does to row `row` of the left validity mask and of the confidence band, as a function of
that row of the left mask, of the left and right disparity maps, of `self._threshold` and of the vector `disparity_range`
computed before the loop.  Everything else of the function is PINNED here (any other form raises `Unsupported`):

  * `nb_row, nb_col = <left>["disparity_map"].shape`                      -> `nb_col := len dispL`; the three rows are tested
                                                                              to have that length (the maps of a dataset pair
                                                                              have one shape)
  * `disparity_range = extract_disparity_range_from_disparity_map(<left>)` -> parameter (its construction is modelled in C07
                                                                              as `arange dmin dmax`, tied by the correspondence)
  * `conf_measure = np.full((nb_row, nb_col), np.nan, dtype=np.float32)`   -> the band row starts as NaN
  * `for row in range(0, nb_row):` — the three maps are only subscripted `[row, …]`, so no value flows between rows
  * the statements after the loop (band allocation, `mask_border` when `offset_row_col > 0`, return)
  * `self._threshold = self.cfg["cross_checking_threshold"]` in `__init__`

The names of the locals are read from these statements, not assumed.  `Properties/C07Kernels.lean` proves the generated
definition equal to the hand model `CrossCheck.ccRow .ruleFix` for every row.
"""
from __future__ import annotations

import ast
from fractions import Fraction

from . import gen_constants, pyvec_idx
from .common import Unsupported, digest, find_class, find_method, parse, write_if_changed
from .gen_kernels import module_aliases
from .pyvec_idx import FNAN, PINF, RowKernel, RowTranslator, lit, prim, var

NAME = "KernelsCrossCheck"
SRC = "pandora/validation/validation.py"
LEAN_NAME = "crossCheckRow"


def src(node) -> str:
    return ast.unparse(node)


def strip_doc(body):
    if body and isinstance(body[0], ast.Expr) and isinstance(getattr(body[0], "value", None), ast.Constant) \
            and isinstance(body[0].value.value, str):
        return body[1:]
    return body


def kernel() -> RowKernel:  # noqa: C901
    mod = parse(SRC)
    numpy_names, const_names = module_aliases(mod, SRC)
    cls = find_class(mod, "CrossCheckingAccurate")
    init = find_method(cls, "__init__")
    if "self._threshold = self.cfg['cross_checking_threshold']" not in [src(s) for s in init.body]:
        raise Unsupported(f"{SRC}: __init__ does not set self._threshold from cfg['cross_checking_threshold']")
    fn = find_method(cls, "disparity_checking")
    if fn.decorator_list:
        raise Unsupported(f"{SRC}: disparity_checking is decorated")
    names = [a.arg for a in fn.args.args]
    if len(names) < 3 or names[0] != "self":
        raise Unsupported(f"{SRC}: unexpected signature of disparity_checking")
    left, right = names[1], names[2]
    body = strip_doc(fn.body)
    loops = [i for i, s in enumerate(body) if isinstance(s, ast.For)]
    if len(loops) != 1:
        raise Unsupported(f"{SRC}: disparity_checking: expected exactly one loop, found {len(loops)}")
    pre, loop, tail = body[:loops[0]], body[loops[0]], body[loops[0] + 1:]

    # ---- prelude: three statements, any order, names read from them
    nb_row = nb_col = rng = conf = None
    for st in pre:
        ok = False
        if isinstance(st, ast.Assign) and len(st.targets) == 1:
            t, v = st.targets[0], src(st.value)
            if isinstance(t, ast.Tuple) and len(t.elts) == 2 and all(isinstance(e, ast.Name) for e in t.elts) \
                    and v == f"{left}['disparity_map'].shape" and nb_col is None:
                nb_row, nb_col, ok = t.elts[0].id, t.elts[1].id, True
            elif isinstance(t, ast.Name) and v == f"extract_disparity_range_from_disparity_map({left})" and rng is None:
                rng, ok = t.id, True
            elif isinstance(t, ast.Name) and nb_col is not None and conf is None and any(
                    v == f"{n}.full(({nb_row}, {nb_col}), {n}.nan, dtype={n}.float32)" for n in numpy_names):
                conf, ok = t.id, True
        if not ok:
            raise Unsupported(f"{SRC}: disparity_checking: unexpected statement before the loop: `{src(st)[:90]}`")
    if None in (nb_col, rng, conf):
        raise Unsupported(f"{SRC}: disparity_checking: shape / disparity_range / confidence array not found before the loop")
    if len({nb_row, nb_col, rng, conf, left, right}) != 6:
        raise Unsupported(f"{SRC}: disparity_checking: a prelude name is bound twice")

    # ---- the loop header
    if not (isinstance(loop.target, ast.Name) and src(loop.iter) in (f"range(0, {nb_row})", f"range({nb_row})")
            and not loop.orelse):
        raise Unsupported(f"{SRC}: disparity_checking: unexpected loop `for {src(loop.target)} in {src(loop.iter)}`")
    row = loop.target.id

    # ---- the tail
    want_tail = [
        f"{left}.attrs['validation'] = 'cross_checking_accurate'",
        f"{left}, _ = AbstractCostVolumeConfidence.allocate_confidence_map('left_right_consistency', {conf}, {left}, cv)",
        f"if {left}.attrs['offset_row_col'] > 0:\n    {left}['validity_mask'] = mask_border({left})",
        f"return {left}",
    ]
    got_tail = [src(s) for s in tail]
    if got_tail != want_tail:
        diff = next((g for g, w in zip(got_tail + [""] * 4, want_tail + [""] * 4) if g != w), "")
        raise Unsupported(f"{SRC}: disparity_checking: unexpected statement after the loop: `{diff[:100]}`")

    # ---- the row body
    arrays = {
        f"{left}['validity_mask'].data": ("maskL", "nat", True),
        f"{left}['disparity_map'].data": ("dispL", "fl", False),
        f"{right}['disparity_map'].data": ("dispR", "fl", False),
        conf: ("confRow", "fl", True),
    }
    scalars = {
        "self._threshold": var("threshold", "fl"),
        nb_col: var("nb_col", "int"),
        rng: var("disparity_range", "vint"),
    }
    t = RowTranslator(row, arrays, scalars, gen_constants.extract(), numpy_names=numpy_names, const_names=const_names)
    t.used |= {"maskL", "dispL", "dispR", "threshold", "disparity_range", "nb_col", "confRow"}
    t.lets.append(("nb_col", prim("len", "int", var("dispL", "vfl"))))
    t.check(prim("sameLen", "bool", var("maskL", "vnat"), var("dispL", "vfl")))
    t.check(prim("sameLen", "bool", var("dispR", "vfl"), var("dispL", "vfl")))
    t.state["confRow"] = t.bind("confRow", prim("full", "vfl", lit("fl", FNAN), var("nb_col", "int")))
    for node in (n for st in loop.body for n in ast.walk(st)):
        if isinstance(node, ast.Name) and node.id in (nb_row, left, right) and not _inside_array_ref(loop, node, arrays):
            raise Unsupported(f"{SRC}: disparity_checking: `{node.id}` is used in the row body outside a `[row, …]` subscript")
    t.statements(loop.body)
    k = RowKernel(
        LEAN_NAME,
        [("maskL", "vnat"), ("dispL", "vfl"), ("dispR", "vfl"), ("threshold", "fl"), ("disparity_range", "vint")],
        t.lets, t.checks,
        [(t.state.get("maskL", var("maskL", "vnat")).name, "vnat"), (t.state["confRow"].name, "vfl")],
    )
    # stages (smaller definitions, composed by `crossCheckRow`): the consistency part ends before the first 2-D grid; the flag
    # update starts at the first read of the left validity mask after the grids
    lets = k.lets
    cut1 = next((i for i, (_, e) in enumerate(lets) if pyvec_idx.has_grid(e)), None)
    if cut1 is not None:
        mask_names = {"maskL"}
        cut2 = next((i for i, (_, e) in enumerate(lets) if i > cut1 and not pyvec_idx.has_grid(e)
                     and pyvec_idx.free_vars(e, set()) & mask_names), None)
        if cut2 is not None:
            k.cuts = [cut1, cut2]
    k.origin = f"{SRC}: CrossCheckingAccurate.disparity_checking, body of `for {row} in {src(loop.iter)}`"
    k.source = "\n".join(src(s) for s in loop.body)
    k.meta = {"left": left, "right": right, "row": row, "nb_col": nb_col, "range": rng, "conf": conf}
    return k


def _inside_array_ref(root, name_node, arrays) -> bool:
    """`name_node` occurs only as part of one of the declared array expressions"""
    for node in ast.walk(root):
        if isinstance(node, ast.Subscript) and src(node.value) in arrays:
            if any(n is name_node for n in ast.walk(node.value)):
                return True
    return False


# ---- golden values: what pyvec_idx's evaluator computes on a few rows, checked by Lean when the file is built
N = None
GOLDEN = [
    # kept, mismatch, occlusion, outside (occlusion / mismatch by the same search), invalid pixel, NaN disparities
    {"maskL": [0, 0, 0, 1, 0], "dispL": [0, 1, -1, 0, N], "dispR": [0, 3, -1, N, -1], "threshold": 1, "range": [-1, 0, 1]},
    {"maskL": [0, 0, 0], "dispL": [-1, -1, -1], "dispR": [-1, Fraction(1, 2), -1], "threshold": 0, "range": [-1, 0, 1]},
    {"maskL": [4, 8, 0, 64], "dispL": [Fraction(1, 2), Fraction(3, 2), 5, 0], "dispR": [N, -1, -2, 0], "threshold": Fraction(1, 2),
     "range": [-2, -1, 0]},
    {"maskL": [], "dispL": [], "dispR": [], "threshold": 1, "range": [0]},
    {"maskL": [0, 0], "dispL": [0, 0], "dispR": [5, 5], "threshold": 1, "range": []},
    {"maskL": [0], "dispL": [0, 0], "dispR": [0, 0], "threshold": 1, "range": [0]},          # shapes disagree
    {"maskL": [65535 - 963, 0], "dispL": [7, 0], "dispR": [0, 0], "threshold": 1, "range": [0]},      # largest valid uint16 flag word
    {"maskL": [65536, 0], "dispL": [7, 0], "dispR": [0, 0], "threshold": 1, "range": [0]},            # not a uint16: += would wrap
]


def exact_fl(v):
    if isinstance(v, list):
        return [exact_fl(x) for x in v]
    return FNAN if v is None else (v if isinstance(v, str) else Fraction(v))


def golden_args(g):
    return {"maskL": list(g["maskL"]), "dispL": exact_fl(g["dispL"]), "dispR": exact_fl(g["dispR"]),
            "threshold": exact_fl(g["threshold"]), "disparity_range": list(g["range"])}


def lean_value(v, ty) -> str:
    if ty in ("fl", "int", "nat", "bool"):
        return pyvec_idx.lean_lit(ty, v)
    return "[" + ", ".join(lean_value(x, ty[1:]) for x in v) + "]"


def golden(k) -> list:
    out = []
    for g in GOLDEN:
        args = golden_args(g)
        res, vals = pyvec_idx.evaluate(k, args)
        actual = " ".join(lean_value(args[n], ty) if ty in ("fl",) else "(" + lean_value(args[n], ty) + f" : {pyvec_idx.lean_type_of(ty)})"
                          for n, ty in k.params)
        if res != "ok":
            rhs = "PyVec.Res.shapeError"
        else:
            rhs = "PyVec.Res.ok (" + ", ".join(lean_value(v, ty) for v, (_, ty) in zip(vals, k.results)) + ")"
        out.append(f"example : {k.lean_name} {actual} = {rhs} := by decide +kernel")
    return out


def render(k) -> str:
    lines = [
        "-- GENERATED by translator/gen_kernels_crosscheck.py (translator/pyvec_idx.py) from the Python source. Do not edit.",
        "import PandoraModel.Model.PyVecIdx",
        "set_option linter.unusedVariables false",
        "namespace Pandora.Generated.KernelsCrossCheck",
        "open Pandora",
        "",
        f"/- {k.origin}",
        "   parameters: maskL = row of the left validity mask (uint16), dispL / dispR = row of the left / right disparity map,",
        "   threshold = self._threshold, disparity_range = the vector computed before the loop;",
        "   result: (the row of the left validity mask, the row of the confidence band) after the iteration",
        k.source.replace("-/", "- /").replace("/-", "/ -"),
        "-/",
        pyvec_idx.render_lean(k),
        "-- what translator/pyvec_idx.py's own evaluator computes on a few rows, checked here by evaluation",
    ]
    lines += golden(k)
    lines += ["", "end Pandora.Generated.KernelsCrossCheck", ""]
    return "\n".join(lines)


def generate():
    k = kernel()
    write_if_changed("KernelsCrossCheck.lean", render(k))
    return {"T14i": {"source": [SRC], "digest": digest(SRC), "kernel": LEAN_NAME, "lets": len(k.lets), "checks": len(k.checks)}}
