"""Shared helpers of the translator (source -> lean/PandoraModel/Generated/*.lean).

Only Python's `ast` is used: pandora is never imported here, so the generated files say what the
*source text* of /repo's working tree says now.
"""
from __future__ import annotations

import ast
import hashlib
import os
import tempfile

REPO = os.environ.get("PANDORA_REPO", "/repo")
VERIF = os.path.dirname(os.path.dirname(os.path.abspath(__file__)))
GEN_DIR = os.path.join(VERIF, "lean", "PandoraModel", "Generated")


class Unsupported(Exception):
    """The source uses a construct the extractor does not recognise (obligation cannot be regenerated)."""


def read_source(rel: str) -> str:
    with open(os.path.join(REPO, rel), "r", encoding="utf-8") as f:
        return f.read()


def parse(rel: str) -> ast.Module:
    try:
        return ast.parse(read_source(rel), filename=rel)
    except SyntaxError as exc:  # a tree that does not parse cannot be translated
        raise Unsupported(f"{rel}: syntax error {exc}") from exc


def digest(*rels: str) -> str:
    h = hashlib.sha256()
    for rel in rels:
        h.update(rel.encode())
        h.update(read_source(rel).encode())
    return h.hexdigest()[:16]


def lean_str(s: str) -> str:
    out = ['"']
    for ch in s:
        if ch == '"':
            out.append('\\"')
        elif ch == "\\":
            out.append("\\\\")
        elif ch == "\n":
            out.append("\\n")
        elif ch == "\t":
            out.append("\\t")
        elif ord(ch) < 32:
            out.append("\\x%02x" % ord(ch))
        else:
            out.append(ch)
    out.append('"')
    return "".join(out)


def lean_list(items) -> str:
    return "[" + ", ".join(items) + "]"


def write_if_changed(name: str, content: str) -> bool:
    """Atomically write GEN_DIR/name when its content changed. Returns True when written."""
    os.makedirs(GEN_DIR, exist_ok=True)
    path = os.path.join(GEN_DIR, name)
    try:
        with open(path, "r", encoding="utf-8") as f:
            if f.read() == content:
                return False
    except FileNotFoundError:
        pass
    fd, tmp = tempfile.mkstemp(dir=GEN_DIR, suffix=".tmp")
    with os.fdopen(fd, "w", encoding="utf-8") as f:
        f.write(content)
    os.replace(tmp, path)
    return True


def find_class(mod: ast.Module, name: str) -> ast.ClassDef:
    for node in mod.body:
        if isinstance(node, ast.ClassDef) and node.name == name:
            return node
    raise Unsupported(f"class {name} not found")


def find_method(cls: ast.ClassDef, name: str) -> ast.FunctionDef:
    for node in cls.body:
        if isinstance(node, ast.FunctionDef) and node.name == name:
            return node
    raise Unsupported(f"method {cls.name}.{name} not found")


def find_function(mod: ast.Module, name: str) -> ast.FunctionDef:
    for node in mod.body:
        if isinstance(node, ast.FunctionDef) and node.name == name:
            return node
    raise Unsupported(f"function {name} not found")


def class_assign(cls: ast.ClassDef, name: str) -> ast.expr:
    for node in cls.body:
        if isinstance(node, ast.Assign):
            for t in node.targets:
                if isinstance(t, ast.Name) and t.id == name:
                    return node.value
        if isinstance(node, ast.AnnAssign) and isinstance(node.target, ast.Name) and node.target.id == name:
            if node.value is not None:
                return node.value
    raise Unsupported(f"{cls.name}.{name} not found")


def const_str(node: ast.expr, what: str) -> str:
    if isinstance(node, ast.Constant) and isinstance(node.value, str):
        return node.value
    raise Unsupported(f"{what}: expected a string literal, got {ast.dump(node)[:80]}")


def str_or_list(node: ast.expr, what: str):
    if isinstance(node, ast.Constant) and isinstance(node.value, str):
        return [node.value]
    if isinstance(node, (ast.List, ast.Tuple)):
        return [const_str(e, what) for e in node.elts]
    raise Unsupported(f"{what}: expected a string or list of strings")
