"""T14, VECTOR sub-language: per-pixel bodies of numba `prange` map kernels written as vectorised numpy over one axis
(`pandora/cost_volume_confidence/{ambiguity,risk,interval_bounds}.py`) -> Lean 4 source text.

Pipeline (the two readings of ONE typed tree, as translator/pyloops.py):
    ast.FunctionDef --translate_vec_kernel--> VecKernel (typed tree of the per-pixel function)
    VecKernel --render_lean--> Lean text (Generated/KernelsConf.lean)        VecKernel --evaluate_px--> exact value
The harness compares `evaluate_px` with the REAL compiled kernels; Lean checks `evaluate_px` against the rendered text on
generated `example`s.  Run-time support: lean/PandoraModel/Model/PyVec.lean.

THE SUBSET (anything else raises `translator.common.Unsupported` — nothing is guessed)

  function     [docstring]
               prelude:   `g = np.nanmin(A)` | `g = np.nanmax(A)`       (A a 3-D array parameter)  -> HOISTED scalar parameter
                          `n0, n1, nd = A.shape`                         (n0, n1: pixel extents; nd = length of the pixel slice)
                          `e = np.arange(p, q, r)`                       (p, q, r scalar parameters) -> HOISTED vector parameter
                          `out = np.zeros((n0, n1[, n]), dtype=np.float32)` | `np.full((n0, n1), 0, dtype=np.float32)`
                          `x = <expression>`                             (no pixel dependency; becomes a `let` of the pixel function)
               for v0 in prange(n0):   (or range: `prange` is read as `range` — the body writes cell [v0, v1] of the
                   for v1 in prange(n1):   outputs only and reads no output, so the iterations are independent; that the
                       BODY               parallel schedule cannot change the result is the subject of C18 / T9, not of T14)
               return out | return out_a, out_b, …
  parameters   declared by the generator:  `Slice3(name)`: 3-D float array read ONLY as `name[v0, v1, :]` (and `.shape`,
               global `nanmin/nanmax` in the prelude) -> the per-pixel function takes that slice (`List Fl`);
               `Whole1(name)`: 1-D float array read by index -> `List Fl`;  `FScalar(name)`: float scalar -> `Fl`
               (a scalar that only feeds a hoisted `np.arange` is not a parameter of the per-pixel function).
  statements   `x = e` (a local may be rebound with another type), `a, b = e1, e2`, `x[mask] = scalar` (x a local float vector),
               `out[v0, v1] = e`, `out[v0, v1] op= e`, `out[v0, v1, :] = e`, `out[v0, v1, :] op= e`, `if / elif / else` (merged),
               and the tabulation idiom  `x = np.zeros(n)` … `for i in range(n): x[i] = e_i; y[i] = f_i`  -> `x := tabulate n e`.
  expressions  scalars: literals, `np.nan`, `np.inf`, unary `-`, `+ - * /`, comparisons, `np.isnan`, `max/min` of two values,
               `v.shape[0]`, `v[i]`, `np.nanmin/nanmax/nanmean(v)`, `np.sum(mask)`, `mask.sum()`;
               vectors: `A[v0, v1, :]`, element-wise `+ - * /` and comparisons with scalar broadcasting, `np.isnan(v)`,
               `np.repeat(v | scalar, n)`, `np.arange(n)`, `v.reshape((r, c))`, `v.reshape((-1, c))`, `m.T`, `m.flatten()`,
               `m[:, j]`, `np.sum(m, axis=0)`, `v[int vector]`, `v[mask]`, `np.argsort(v)` (UNINTERPRETED: the generated
               definition takes the sorting function as a parameter `pyArgsort`).

SEMANTICS
  * floats are `PyLoops.Fl` (exact rationals, NaN, ±inf, IEEE rules, no rounding: float32 storage is not modelled);
    `/` is IEEE division `PyVec.fdiv` (these kernels are compiled with `parallel=True`; observed: 0/0 gives NaN);
    an `int` meeting a float is converted (`PyVec.ofInt`).
  * every numpy operation whose operands must agree in shape is TESTED (`PyVec.sameLen`, `reshapeOk`, `reshapeRowsOk`,
    `nonEmpty` for nanmin/nanmax, `inRange` for subscripts — negative wrap-around is treated as an error): the flag `pyOk`
    is threaded through the code and the result is `PyVec.Res.shapeError` when it is false.
"""
from __future__ import annotations

import ast
from dataclasses import dataclass, field
from fractions import Fraction
from typing import Dict, List, Optional, Sequence, Tuple

from . import pyloops
from .common import Unsupported
from .pyexpr import Ex, TranslatorBug, lean_ident, src
from .pyloops import FNAN, NINF, PINF, f_add, f_cmp, f_lt, f_mul, f_neg, f_sub, is_special

FL, INT, BOOL = "fl", "int", "bool"
VFL, VINT, VBOOL = "vfl", "vint", "vbool"
MFL, MINT, MBOOL = "mfl", "mint", "mbool"
SCALARS = (FL, INT, BOOL)
VECTORS = (VFL, VINT, VBOOL)
MATRICES = (MFL, MINT, MBOOL)
ELEM = {VFL: FL, VINT: INT, VBOOL: BOOL, MFL: FL, MINT: INT, MBOOL: BOOL}
VEC_OF = {FL: VFL, INT: VINT, BOOL: VBOOL}
MAT_OF = {VFL: MFL, VINT: MINT, VBOOL: MBOOL}
ROW_OF = {MFL: VFL, MINT: VINT, MBOOL: VBOOL}
LEAN_TYPE = {FL: "PyLoops.Fl", INT: "Int", BOOL: "Bool", VFL: "List PyLoops.Fl", VINT: "List Int", VBOOL: "List Bool",
             MFL: "List (List PyLoops.Fl)", MINT: "List (List Int)", MBOOL: "List (List Bool)"}
DEFAULT = {FL: "PyLoops.Fl.nan", INT: "(0 : Int)", BOOL: "false"}
OK = "pyOk"
ARGSORT = "pyArgsort"


@dataclass(frozen=True)
class Slice3:
    name: str


@dataclass(frozen=True)
class Whole1:
    name: str


@dataclass(frozen=True)
class FScalar:
    name: str


@dataclass
class Binding:
    lean: str
    ty: str
    ncols: Optional[Ex] = None  # matrices: number of columns (an int expression)


@dataclass
class TLet:
    name: str
    value: Ex
    body: object


@dataclass
class TMerge:
    names: List[Tuple[str, str]]
    cond: Ex
    then: object
    orelse: object
    body: object


@dataclass
class TYield:
    values: List[Ex]


@dataclass
class VecKernel:
    py_name: str
    lean_name: str
    lean_params: List[Tuple[str, str, str]]  # (lean name, type, role) role: slice:<array> | whole:<array> | scalar:<name> | gmin:<array> | gmax:<array> | arange:<a>,<b>,<c> | argsort
    cells: List[Tuple[str, str]]  # (lean name of the output, type) in `return` order
    out_names: List[str]
    pixel_vars: Tuple[str, str]
    tree: object
    hoisted: Dict[str, Tuple[str, str]] = field(default_factory=dict)  # python local -> (kind, text)
    prange: bool = False
    source: str = ""
    notes: List[str] = field(default_factory=list)


def f_div(x, y):
    if x == FNAN or y == FNAN:
        return FNAN
    if is_special(x) and is_special(y):
        return FNAN
    if is_special(y):
        return Fraction(0)
    if is_special(x):
        pos = (x == PINF) == (y >= 0)
        return PINF if pos else NINF
    if y == 0:
        return FNAN if x == 0 else (PINF if x > 0 else NINF)
    return Fraction(x) / Fraction(y)


def lit_fl(q) -> str:
    q = Fraction(q)
    if q.denominator == 1:
        return f"(PyLoops.Fl.fin ({q.numerator} : Rat))"
    return f"(PyLoops.Fl.fin (({q.numerator} : Rat) / {q.denominator}))"


class VecKernelTranslator:  # noqa: R0902
    def __init__(self, fn: ast.FunctionDef, lean_name: str, params: Sequence, numpy_names=("np",)):
        self.fn = fn
        self.lean_name = lean_name
        self.params = list(params)
        self.np = set(numpy_names)
        self.checks: List[Ex] = []
        self.used = set()
        self.slices: Dict[str, Binding] = {}
        self.pix: Tuple[str, str] = ("", "")
        self.outs: Dict[str, Tuple[str, Optional[ast.expr]]] = {}  # python name -> (cell type, third extent node)
        self.extents: Optional[Tuple[str, str]] = None
        self.hoisted: Dict[str, Tuple[str, str]] = {}
        self.zeros: Dict[str, str] = {}  # local float vectors created by np.zeros(n): name -> text of n
        self.frozen = set()
        self.uses_argsort = False
        self.notes: List[str] = []
        self.prange = False

    # ---------------------------------------------------------------------------------------- helpers
    def bad(self, msg):
        raise Unsupported(f"{self.fn.name}: {msg}")

    def is_np(self, node, attr=None) -> bool:
        ok = isinstance(node, ast.Attribute) and isinstance(node.value, ast.Name) and node.value.id in self.np
        return ok and (attr is None or node.attr == attr)

    def np_call(self, node, name, nargs=None) -> bool:
        return (isinstance(node, ast.Call) and self.is_np(node.func, name) and not any(isinstance(a, ast.Starred) for a in node.args)
                and (nargs is None or len(node.args) == nargs))

    def check(self, e: Ex):
        self.checks.append(e)

    def take_checks(self) -> Optional[Ex]:
        cs, self.checks = self.checks, []
        out = None
        for c in cs:
            out = c if out is None else Ex("and", BOOL, (out, c))
        return out

    @staticmethod
    def var(b: Binding) -> Ex:
        return Ex("var", b.ty, (), b.lean)

    def to_fl(self, e: Ex) -> Ex:
        if e.ty == FL:
            return e
        if e.ty == INT:
            if e.op == "ilit":
                return Ex("flit", FL, (), Fraction(e.aux))
            return Ex("i2f", FL, (e,))
        if e.ty == VINT:
            return Ex("vi2f", VFL, (e,))
        if e.ty == VFL:
            return e
        self.bad(f"a {e.ty} is used as a float")

    def need(self, e: Ex, ty: str, what: str) -> Ex:
        if e.ty != ty:
            self.bad(f"{what}: expected {ty}, got {e.ty}")
        return e

    # ---------------------------------------------------------------------------------------- expressions
    def expr(self, node, env) -> Ex:  # noqa: C901
        fn = self.fn.name
        if isinstance(node, ast.Constant):
            v = node.value
            if isinstance(v, bool):
                self.bad(f"boolean literal `{src(node)}`")
            if isinstance(v, int):
                return Ex("ilit", INT, (), v)
            if isinstance(v, float):
                return Ex("flit", FL, (), Fraction(repr(v)))
            self.bad(f"literal `{src(node)}`")
        if isinstance(node, ast.Name):
            if node.id in env:
                self.used.add(node.id)
                return self.var(env[node.id])
            self.bad(f"`{node.id}` is not a readable local here (unbound, an output, an array parameter used whole, or bound on one path only)")
        if isinstance(node, ast.Attribute):
            if self.is_np(node, "nan"):
                return Ex("nan", FL)
            if self.is_np(node, "inf"):
                return Ex("pinf", FL)
            if node.attr == "T":
                m = self.expr(node.value, env)
                if m.ty not in MATRICES:
                    self.bad(f"`.T` of a {m.ty}")
                nc = self.ncols_of(m)
                out = Ex("transpose", m.ty, (m, nc))
                self.mshape[out] = Ex("mrows", INT, (m,))
                return out
            self.bad(f"attribute `{src(node)}`")
        if isinstance(node, ast.UnaryOp):
            if isinstance(node.op, ast.USub):
                e = self.expr(node.operand, env)
                if e.op == "pinf":
                    return Ex("ninf", FL)
                if e.op == "ilit":
                    return Ex("ilit", INT, (), -e.aux)
                if e.op == "flit":
                    return Ex("flit", FL, (), -e.aux)
                if e.ty == FL:
                    return Ex("neg", FL, (e,))
                if e.ty == INT:
                    return Ex("ineg", INT, (e,))
            self.bad(f"unary operator in `{src(node)}`")
        if isinstance(node, ast.BinOp):
            ops = {ast.Add: "add", ast.Sub: "sub", ast.Mult: "mul", ast.Div: "div"}
            if type(node.op) not in ops:
                self.bad(f"operator in `{src(node)}`")
            return self.arith(ops[type(node.op)], self.expr(node.left, env), self.expr(node.right, env), src(node))
        if isinstance(node, ast.Compare):
            if len(node.ops) != 1:
                self.bad(f"chained comparison `{src(node)}`")
            names = {ast.Lt: "lt", ast.LtE: "le", ast.Gt: "gt", ast.GtE: "ge", ast.Eq: "eq", ast.NotEq: "ne"}
            if type(node.ops[0]) not in names:
                self.bad(f"comparison `{src(node)}`")
            return self.compare(names[type(node.ops[0])], self.expr(node.left, env), self.expr(node.comparators[0], env), src(node))
        if isinstance(node, ast.Call):
            return self.call(node, env)
        if isinstance(node, ast.Subscript):
            return self.subscript(node, env)
        self.bad(f"expression `{src(node)}` ({type(node).__name__}) is outside the subset")
        raise TranslatorBug(fn)

    def arith(self, op, a: Ex, b: Ex, text) -> Ex:
        if a.ty in MATRICES or b.ty in MATRICES or BOOL in (a.ty, b.ty) or VBOOL in (a.ty, b.ty):
            self.bad(f"`{text}`: arithmetic on {a.ty} and {b.ty}")
        if a.ty == INT and b.ty == INT and op != "div":
            return Ex("i" + op, INT, (a, b))
        a, b = self.to_fl(a), self.to_fl(b)
        if a.ty == FL and b.ty == FL:
            return Ex(op, FL, (a, b))
        if a.ty == VFL and b.ty == VFL:
            self.check(Ex("samelen", BOOL, (a, b)))
            return Ex("zip2", VFL, (a, b), op)
        if a.ty == VFL:
            return Ex("mapR", VFL, (a, b), op)
        return Ex("mapL", VFL, (a, b), op)

    def compare(self, op, a: Ex, b: Ex, text) -> Ex:
        if op in ("gt", "ge"):  # a > b is b < a (operands have no side effects)
            a, b, op = b, a, {"gt": "lt", "ge": "le"}[op]
        if a.ty == INT and b.ty == INT:
            return Ex("icmp", BOOL, (a, b), op)
        if a.ty in (FL, INT, VFL, VINT) and b.ty in (FL, INT, VFL, VINT):
            a, b = self.to_fl(a), self.to_fl(b)
            if a.ty == FL and b.ty == FL:
                return Ex("cmp", BOOL, (a, b), op)
            if a.ty == VFL and b.ty == VFL:
                self.check(Ex("samelen", BOOL, (a, b)))
                return Ex("zip2", VBOOL, (a, b), op)
            if a.ty == VFL:
                return Ex("mapR", VBOOL, (a, b), op)
            return Ex("mapL", VBOOL, (a, b), op)
        self.bad(f"`{text}`: comparison of {a.ty} and {b.ty}")
        raise TranslatorBug(text)

    def ncols_of(self, m: Ex) -> Ex:
        if m not in self.mshape:
            raise TranslatorBug(f"matrix without a column count: {m.op}")
        return self.mshape[m]

    def int_arg(self, node, env, what) -> Ex:
        e = self.expr(node, env)
        if e.ty != INT:
            self.bad(f"{what} `{src(node)}` is a {e.ty}, not an int")
        return e

    def call(self, node: ast.Call, env) -> Ex:  # noqa: C901
        f = node.func
        text = src(node)
        if any(isinstance(a, ast.Starred) for a in node.args):
            self.bad(f"starred argument in `{text}`")
        kw = {k.arg: k.value for k in node.keywords}
        if None in kw:
            self.bad(f"`**` in `{text}`")
        # ---- builtins
        if isinstance(f, ast.Name) and f.id in ("max", "min") and f.id not in env and not kw:
            if len(node.args) != 2:
                self.bad(f"`{text}`: {f.id} takes two arguments here")
            a, b = (self.expr(x, env) for x in node.args)
            if a.ty == INT and b.ty == INT:
                return Ex("i" + f.id, INT, (a, b))
            if a.ty in (FL, INT) and b.ty in (FL, INT):
                return Ex(f.id, FL, (self.to_fl(a), self.to_fl(b)))
            self.bad(f"`{text}` on {a.ty} and {b.ty}")
        # ---- numpy functions
        if self.is_np(f):
            name = f.attr
            args = node.args
            if name == "isnan" and len(args) == 1 and not kw:
                e = self.expr(args[0], env)
                if e.ty == FL:
                    return Ex("isnan", BOOL, (e,))
                if e.ty == VFL:
                    return Ex("visnan", VBOOL, (e,))
                self.bad(f"np.isnan of a {e.ty}")
            if name in ("nanmin", "nanmax") and len(args) == 1 and not kw:
                e = self.expr(args[0], env)
                if e.ty == VFL:
                    self.check(Ex("nonempty", BOOL, (e,)))
                    return Ex(name, FL, (e,))
                if e.ty == VINT:
                    self.check(Ex("nonempty", BOOL, (e,)))
                    return Ex("i" + name, INT, (e,))
                self.bad(f"np.{name} of a {e.ty}")
            if name == "nanmean" and len(args) == 1 and not kw:
                e = self.expr(args[0], env)
                return Ex("nanmean", FL, (self.need(self.to_fl(e) if e.ty == VINT else e, VFL, text),))
            if name == "sum" and len(args) == 1:
                e = self.expr(args[0], env)
                if e.ty == VBOOL and not kw:
                    return Ex("count", INT, (e,))
                if e.ty == MBOOL and list(kw) == ["axis"] and isinstance(kw["axis"], ast.Constant) and kw["axis"].value == 0:
                    return Ex("colcounts", VINT, (e, self.ncols_of(e)))
                self.bad(f"`{text}`: np.sum of a {e.ty} (only a Boolean vector, or a Boolean matrix with axis=0)")
            if name == "repeat" and len(args) == 2 and not kw:
                e = self.expr(args[0], env)
                n = self.int_arg(args[1], env, "repeat count")
                self.check(Ex("icmp", BOOL, (Ex("ilit", INT, (), 0), n), "le"))
                if e.ty in VECTORS:
                    return Ex("repeat", e.ty, (e, n))
                if e.ty in (FL, INT):
                    return Ex("full", VFL, (self.to_fl(e), n))
                self.bad(f"np.repeat of a {e.ty}")
            if name == "arange" and len(args) == 1 and not kw:
                return Ex("arange", VINT, (self.int_arg(args[0], env, "np.arange bound"),))
            if name == "argsort" and len(args) == 1 and not kw:
                e = self.need(self.expr(args[0], env), VFL, text)
                self.uses_argsort = True
                return Ex("argsort", VINT, (e,))
            self.bad(f"call `{text}` is outside the subset")
        # ---- methods
        if isinstance(f, ast.Attribute):
            if f.attr == "sum" and not node.args and not kw:
                e = self.expr(f.value, env)
                if e.ty == VBOOL:
                    return Ex("count", INT, (e,))
                self.bad(f"`{text}`: .sum() of a {e.ty}")
            if f.attr == "flatten" and not node.args and not kw:
                m = self.expr(f.value, env)
                if m.ty not in MATRICES:
                    self.bad(f"`{text}`: flatten of a {m.ty}")
                return Ex("flatten", ROW_OF[m.ty], (m,))
            if f.attr == "reshape" and len(node.args) == 1 and isinstance(node.args[0], ast.Tuple) and len(node.args[0].elts) == 2 and not kw:
                v = self.expr(f.value, env)
                if v.ty not in VECTORS:
                    self.bad(f"`{text}`: reshape of a {v.ty}")
                r, c = node.args[0].elts
                cc = self.int_arg(c, env, "reshape extent")
                if isinstance(r, ast.UnaryOp) and isinstance(r.op, ast.USub) and isinstance(r.operand, ast.Constant) and r.operand.value == 1:
                    self.check(Ex("reshaperowsok", BOOL, (v, cc)))
                    out = Ex("reshaperows", MAT_OF[v.ty], (v, cc))
                else:
                    rr = self.int_arg(r, env, "reshape extent")
                    self.check(Ex("reshapeok", BOOL, (v, rr, cc)))
                    out = Ex("reshape2", MAT_OF[v.ty], (v, rr, cc))
                self.mshape[out] = cc
                return out
        self.bad(f"call `{text}` is outside the subset")
        raise TranslatorBug(text)

    def subscript(self, node: ast.Subscript, env) -> Ex:  # noqa: C901
        text = src(node)
        idx = node.slice.elts if isinstance(node.slice, ast.Tuple) else [node.slice]

        def full_slice(s):
            return isinstance(s, ast.Slice) and s.lower is None and s.upper is None and s.step is None

        # A[v0, v1, :]
        if isinstance(node.value, ast.Name) and node.value.id in self.slices:
            if (len(idx) == 3 and all(isinstance(i, ast.Name) for i in idx[:2]) and (idx[0].id, idx[1].id) == self.pix
                    and full_slice(idx[2]) and self.pix[0]):
                self.used.add(node.value.id)
                return self.var(self.slices[node.value.id])
            self.bad(f"`{text}`: the array `{node.value.id}` is read only as `{node.value.id}[{self.pix[0] or 'v0'}, {self.pix[1] or 'v1'}, :]` in the pixel body")
        # v.shape[0]
        if isinstance(node.value, ast.Attribute) and node.value.attr == "shape" and len(idx) == 1 \
                and isinstance(idx[0], ast.Constant) and idx[0].value == 0:
            v = self.expr(node.value.value, env)
            if v.ty not in VECTORS:
                self.bad(f"`{text}`: shape[0] of a {v.ty}")
            return Ex("len", INT, (v,))
        base = self.expr(node.value, env)
        if base.ty in MATRICES:
            if len(idx) == 2 and full_slice(idx[0]) and not isinstance(idx[1], ast.Slice):
                j = self.int_arg(idx[1], env, "column index")
                nc = self.ncols_of(base)
                self.check(Ex("inrange", BOOL, (nc, j)))
                return Ex("column", ROW_OF[base.ty], (base, j))
            self.bad(f"`{text}`: a matrix is read only as `m[:, j]`")
        if base.ty in VECTORS and len(idx) == 1 and not isinstance(idx[0], ast.Slice):
            i = self.expr(idx[0], env)
            if i.ty == INT:
                self.check(Ex("inrange", BOOL, (Ex("len", INT, (base,)), i)))
                return Ex("getat", ELEM[base.ty], (base, i))
            if i.ty == VINT:
                self.check(Ex("gatherok", BOOL, (base, i)))
                return Ex("gather", base.ty, (base, i))
            if i.ty == VBOOL:
                self.check(Ex("samelen", BOOL, (base, i)))
                return Ex("select", base.ty, (base, i))
            self.bad(f"`{text}`: index of type {i.ty}")
        self.bad(f"subscript `{text}` is outside the subset")
        raise TranslatorBug(text)

    # ---------------------------------------------------------------------------------------- the function
    def translate(self) -> VecKernel:  # noqa: C901
        fn = self.fn
        self.mshape: Dict[Ex, Ex] = {}
        a = fn.args
        if a.vararg or a.kwarg or a.kwonlyargs or a.posonlyargs or a.defaults or a.kw_defaults:
            self.bad("only plain positional parameters are supported")
        if [x.arg for x in a.args] != [p.name for p in self.params]:
            self.bad(f"parameters {[x.arg for x in a.args]} are not the declared {[p.name for p in self.params]}")
        for node in ast.walk(fn):
            if isinstance(node, (ast.Global, ast.Nonlocal, ast.Lambda, ast.FunctionDef, ast.ClassDef, ast.While, ast.Continue, ast.Break,
                                 ast.Try, ast.With, ast.ListComp, ast.GeneratorExp, ast.IfExp, ast.NamedExpr, ast.BoolOp,
                                 ast.Return)) and node is not fn and node is not fn.body[-1]:
                self.bad(f"`{type(node).__name__}` is outside the subset")
        env: Dict[str, Binding] = {}
        scalars = []
        for p in self.params:
            if isinstance(p, Slice3):
                self.slices[p.name] = Binding(lean_ident(p.name), VFL)
            elif isinstance(p, Whole1):
                env[p.name] = Binding(lean_ident(p.name), VFL)
            elif isinstance(p, FScalar):
                env[p.name] = Binding(lean_ident(p.name), FL)
                scalars.append(p.name)
            else:
                self.bad(f"parameter `{p.name}` of an unsupported kind")
        body = list(fn.body)
        if body and isinstance(body[0], ast.Expr) and isinstance(body[0].value, ast.Constant) and isinstance(body[0].value.value, str):
            body = body[1:]
        k = next((i for i, st in enumerate(body) if isinstance(st, ast.For)), None)
        if k is None or len(body) != k + 2:
            self.bad("not a map kernel: expected prelude, one `for` nest, `return`")
        prelude, outer, ret = body[:k], body[k], body[k + 1]
        lets: List[Tuple[str, Ex, Optional[Ex]]] = []
        hoisted_params: List[Tuple[str, str, str]] = []
        for st in prelude:
            self.prelude_stmt(st, env, lets, hoisted_params)
        if not self.outs:
            self.bad("no output allocation in the prelude")
        if self.extents is None:
            self.bad("no `n0, n1, nd = <array>.shape` in the prelude")
        # return
        if not isinstance(ret, ast.Return) or ret.value is None:
            self.bad("the function must end with `return <outputs>`")
        rv = ret.value.elts if isinstance(ret.value, ast.Tuple) else [ret.value]
        out_names = []
        for r in rv:
            if not (isinstance(r, ast.Name) and r.id in self.outs) or r.id in out_names:
                self.bad(f"`{src(ret)}`: the returned values must be the allocated outputs, once each")
            out_names.append(r.id)
        if set(out_names) != set(self.outs):
            self.bad(f"allocated outputs {sorted(self.outs)} are not all returned")
        # pixel loops
        v0, e0, inner = self.pixel_loop(outer)
        if len(inner) != 1 or not isinstance(inner[0], ast.For):
            self.bad("the outer pixel loop must contain exactly the inner pixel loop")
        v1, e1, pix_body = self.pixel_loop(inner[0])
        if v0 == v1 or (e0, e1) != self.extents:
            self.bad(f"the pixel loops run over ({e0}, {e1}), the first two extents are {self.extents}")
        for v in (v0, v1):
            if v in env or v in self.slices or v in self.outs:
                self.bad(f"the loop variable `{v}` shadows a name")
        self.pix = (v0, v1)
        self.frozen = set(env) | {v0, v1} | set(self.slices) | set(self.outs) | set(self.extents)
        self.check_out_uses(pix_body)
        # cells
        env = dict(env)
        env[OK] = Binding(OK, BOOL)
        tree_lets: List[Tuple[str, Ex]] = [(n, e) for n, e, _ in lets]
        cells = []
        for name in out_names:
            ty, third = self.outs[name]
            cell = lean_ident(name)
            if ty == FL:
                init = Ex("flit", FL, (), Fraction(0))
            else:
                n = self.int_arg(third, env, "third extent")
                self.check(Ex("icmp", BOOL, (Ex("ilit", INT, (), 0), n), "le"))
                init = Ex("full", VFL, (Ex("flit", FL, (), Fraction(0)), n))
            env["#" + name] = Binding(cell, ty)
            cells.append((cell, ty, init))
        names = [n for n, _ in tree_lets] + [c for c, _, _ in cells] + [OK]
        if len(set(names)) != len(names):
            self.bad("generated names collide")
        want = [OK] + ["#" + n for n in out_names]
        tree = self.block(pix_body, env, lambda e: TYield([self.var(e[n]) for n in want]))
        c0 = self.take_checks()
        if c0 is not None:
            raise TranslatorBug("unflushed checks")
        for c, _, init in reversed(cells):
            tree = TLet(c, init, tree)
        ok0: Ex = Ex("const", BOOL, (), True)
        tree = TLet(OK, ok0, tree)
        # checks made by the prelude lets and the cell initialisations are attached right after them
        pre_checks = self.prelude_checks
        if pre_checks is not None:
            tree.value = pre_checks
        for n, e in reversed(tree_lets):
            tree = TLet(n, e, tree)
        lean_params: List[Tuple[str, str, str]] = []
        if self.uses_argsort:
            lean_params.append((ARGSORT, "List PyLoops.Fl → List Int", "argsort"))
        for p in self.params:
            if isinstance(p, Slice3):
                lean_params.append((lean_ident(p.name), LEAN_TYPE[VFL], f"slice:{p.name}"))
            elif isinstance(p, Whole1):
                lean_params.append((lean_ident(p.name), LEAN_TYPE[VFL], f"whole:{p.name}"))
            elif p.name in self.used:
                lean_params.append((lean_ident(p.name), LEAN_TYPE[FL], f"scalar:{p.name}"))
        order = {"gmin": 0, "gmax": 1, "arange": 2}
        for hp in sorted(hoisted_params, key=lambda h: (order[h[2].split(":")[0]], h[2])):
            lean_params.append(hp)
        if len({n for n, _, _ in lean_params} | set(names)) != len(lean_params) + len(names):
            self.bad("generated names collide")
        kern = VecKernel(fn.name, self.lean_name, lean_params, [(c, ty) for c, ty, _ in cells], out_names, (v0, v1), tree,
                         hoisted=self.hoisted, prange=self.prange, notes=self.notes)
        try:
            kern.source = ast.unparse(fn)
        except Exception:  # pylint: disable=broad-except
            kern.source = ""
        return kern

    prelude_checks: Optional[Ex] = None

    def pixel_loop(self, st: ast.For):
        if st.orelse or not isinstance(st.target, ast.Name):
            self.bad("pixel loop with `else` / a target that is not a name")
        it = st.iter
        if not (isinstance(it, ast.Call) and isinstance(it.func, ast.Name) and it.func.id in ("range", "prange") and len(it.args) == 1
                and not it.keywords and isinstance(it.args[0], ast.Name)):
            self.bad(f"a pixel loop must be `for v in prange(n)` / `range(n)`, not `{src(it)}`")
        if it.func.id == "prange":
            self.prange = True
        return st.target.id, it.args[0].id, list(st.body)

    def check_out_uses(self, stmts):
        targets = set()
        for st in stmts:
            for node in ast.walk(st):
                if isinstance(node, ast.Assign):
                    for t in node.targets:
                        if isinstance(t, ast.Subscript):
                            targets.add(id(t.value))
                elif isinstance(node, ast.AugAssign) and isinstance(node.target, ast.Subscript):
                    targets.add(id(node.target.value))
        for st in stmts:
            for node in ast.walk(st):
                if isinstance(node, ast.Name) and node.id in self.outs and id(node) not in targets:
                    self.bad(f"the output `{node.id}` is read in the pixel body")
                if isinstance(node, ast.Name) and node.id in self.extents:
                    self.bad(f"the pixel extent `{node.id}` is used in the pixel body")

    def prelude_stmt(self, st, env, lets, hoisted_params):  # noqa: C901
        if isinstance(st, ast.Pass):
            return
        if not isinstance(st, ast.Assign) or len(st.targets) != 1:
            self.bad(f"prelude statement `{src(st)}`")
        t, v = st.targets[0], st.value
        if isinstance(t, ast.Tuple):
            if not (isinstance(v, ast.Attribute) and v.attr == "shape" and isinstance(v.value, ast.Name) and v.value.id in self.slices
                    and len(t.elts) == 3 and all(isinstance(e, ast.Name) for e in t.elts)):
                self.bad(f"tuple assignment `{src(st)}` (only `n0, n1, nd = <3-D array parameter>.shape`)")
            if self.extents is not None:
                self.bad("two `.shape` unpackings")
            n0, n1, nd = (e.id for e in t.elts)
            self.extents = (n0, n1)
            self.bind_prelude(nd, Ex("len", INT, (self.var(self.slices[v.value.id]),)), env, lets)
            self.used.add(v.value.id)
            return
        if not isinstance(t, ast.Name):
            self.bad(f"prelude statement `{src(st)}`")
        name = t.id
        # hoisted: global reductions, the eta grid
        for red, kind in (("nanmin", "gmin"), ("nanmax", "gmax")):
            if self.np_call(v, red, 1) and not v.keywords and isinstance(v.args[0], ast.Name) and v.args[0].id in self.slices:
                self.new_name(name, env)
                env[name] = Binding(lean_ident(name), FL)
                self.hoisted[name] = (kind, v.args[0].id)
                hoisted_params.append((lean_ident(name), LEAN_TYPE[FL], f"{kind}:{v.args[0].id}"))
                return
        if self.np_call(v, "arange", 3) and not v.keywords:
            if not all(isinstance(x, ast.Name) and isinstance(env.get(x.id), Binding) and env[x.id].ty == FL and x.id not in self.hoisted
                       for x in v.args):
                self.bad(f"`{src(st)}`: the bounds of a hoisted np.arange must be float scalar parameters")
            self.new_name(name, env)
            env[name] = Binding(lean_ident(name), VFL)
            txt = ",".join(x.id for x in v.args)
            self.hoisted[name] = ("arange", txt)
            hoisted_params.append((lean_ident(name), LEAN_TYPE[VFL], f"arange:{txt}"))
            return
        # outputs
        if (self.np_call(v, "zeros", 1) or self.np_call(v, "full", 2)) and isinstance(v.args[0], ast.Tuple):
            if list(k.arg for k in v.keywords) != ["dtype"] or not self.is_np(v.keywords[0].value) or v.keywords[0].value.attr not in ("float32", "float64"):
                self.bad(f"allocation `{src(v)}`: expected dtype=np.float32 / np.float64")
            if v.func.attr == "full" and not (isinstance(v.args[1], ast.Constant) and v.args[1].value == 0 and not isinstance(v.args[1].value, bool)):
                self.bad(f"allocation `{src(v)}`: np.full with a fill value other than 0")
            shape = v.args[0].elts
            if self.extents is None or len(shape) not in (2, 3) or not all(isinstance(s, ast.Name) for s in shape[:2]) \
                    or (shape[0].id, shape[1].id) != self.extents:
                self.bad(f"allocation `{src(v)}`: the first two extents must be the pixel extents {self.extents}")
            self.new_name(name, env)
            self.outs[name] = (FL, None) if len(shape) == 2 else (VFL, shape[2])
            self.notes.append(f"`{name}` is {v.keywords[0].value.attr}: rounding on storage is not modelled")
            return
        e = self.expr(v, env)
        if e.ty in MATRICES:
            self.bad(f"prelude local `{name}` is a matrix")
        c = self.take_checks()
        if c is not None:
            self.prelude_checks = c if self.prelude_checks is None else Ex("and", BOOL, (self.prelude_checks, c))
        self.bind_prelude(name, e, env, lets)

    def new_name(self, name, env):
        if name in env or name in self.slices or name in self.outs or name.startswith("py") or (self.extents and name in self.extents):
            self.bad(f"the prelude rebinds `{name}`")

    def bind_prelude(self, name, e, env, lets):
        self.new_name(name, env)
        env[name] = Binding(lean_ident(name), e.ty)
        lets.append((lean_ident(name), e, None))

    # ---------------------------------------------------------------------------------------- statements
    def with_checks(self, tree_fn):
        c = self.take_checks()
        body = tree_fn()
        if c is None:
            return body
        return TLet(OK, Ex("and", BOOL, (Ex("var", BOOL, (), OK), c)), body)

    def store_target(self, t: ast.Subscript):
        """-> (output name, whole-vector store?)"""
        if not (isinstance(t.value, ast.Name) and t.value.id in self.outs):
            return None
        idx = t.slice.elts if isinstance(t.slice, ast.Tuple) else [t.slice]
        ty, _ = self.outs[t.value.id]
        want = 2 if ty == FL else 3
        if len(idx) != want or not all(isinstance(i, ast.Name) for i in idx[:2]) or (idx[0].id, idx[1].id) != self.pix:
            self.bad(f"`{src(t)}`: a map kernel stores at `[{self.pix[0]}, {self.pix[1]}{', :' if ty == VFL else ''}]` only")
        if ty == VFL:
            s = idx[2]
            if not (isinstance(s, ast.Slice) and s.lower is None and s.upper is None and s.step is None):
                self.bad(f"`{src(t)}`: the last index of a 3-D output must be `:`")
        return t.value.id

    def assigned(self, stmts) -> List[str]:
        out = []

        def add(n):
            if n not in out:
                out.append(n)

        for st in stmts:
            for node in ast.walk(st):
                tg = []
                if isinstance(node, ast.Assign):
                    tg = node.targets
                elif isinstance(node, (ast.AugAssign, ast.AnnAssign)):
                    tg = [node.target]
                elif isinstance(node, ast.For):
                    tg = [node.target]
                for t in tg:
                    for x in (t.elts if isinstance(t, ast.Tuple) else [t]):
                        if isinstance(x, ast.Name):
                            add(x.id)
                        elif isinstance(x, ast.Subscript) and isinstance(x.value, ast.Name):
                            add("#" + x.value.id if x.value.id in self.outs else x.value.id)
                        else:
                            self.bad(f"assignment target `{src(x)}`")
        return out

    def bind_local(self, name, e: Ex, env) -> Dict[str, Binding]:
        if name in self.frozen or name.startswith("py") or name in self.np or name in ("max", "min", "range", "prange"):
            self.bad(f"the pixel body assigns `{name}` (bound outside it, or a name the translator uses)")
        env2 = dict(env)
        b = Binding(lean_ident(name), e.ty, self.mshape.get(e) if e.ty in MATRICES else None)
        env2[name] = b
        if e.ty in MATRICES:
            self.mshape[self.var(b)] = self.mshape[e]
        self.zeros.pop(name, None)
        return env2

    def block(self, ss, env, leaf):  # noqa: C901
        if not ss:
            return leaf(env)
        st, rest = ss[0], list(ss[1:])
        if isinstance(st, ast.Pass) or (isinstance(st, ast.Expr) and isinstance(st.value, ast.Constant) and isinstance(st.value.value, str)):
            return self.block(rest, env, leaf)
        if isinstance(st, ast.Assign):
            if len(st.targets) != 1:
                self.bad(f"chained assignment `{src(st)}`")
            t, v = st.targets[0], st.value
            if isinstance(t, ast.Tuple):
                if not (isinstance(v, ast.Tuple) and len(v.elts) == len(t.elts) and all(isinstance(x, ast.Name) for x in t.elts)
                        and len({x.id for x in t.elts}) == len(t.elts)):
                    self.bad(f"tuple assignment `{src(st)}`")
                vals = [self.expr(x, env) for x in v.elts]  # all right-hand sides first, as Python does
                tmp = [f"pyT{i}" for i in range(len(vals))]
                env2 = env

                def chain(i, env_i):
                    if i == len(vals):
                        return self.block(rest, env_i, leaf)
                    return TLet(lean_ident(t.elts[i].id), Ex("var", vals[i].ty, (), tmp[i]),
                                chain(i + 1, self.bind_local(t.elts[i].id, vals[i], env_i)))

                def first():
                    tree = chain(0, env2)
                    for n, e in reversed(list(zip(tmp, vals))):
                        tree = TLet(n, e, tree)
                    return tree
                for e in vals:
                    if e.ty in MATRICES:
                        self.bad("matrix in a tuple assignment")
                return self.with_checks(first)
            if isinstance(t, ast.Name):
                # x = np.zeros(n): a local float vector, to be filled by a tabulation loop
                if self.np_call(v, "zeros", 1) and not v.keywords:
                    n = self.int_arg(v.args[0], env, "np.zeros extent")
                    self.check(Ex("icmp", BOOL, (Ex("ilit", INT, (), 0), n), "le"))
                    e = Ex("full", VFL, (Ex("flit", FL, (), Fraction(0)), n))
                    env2 = self.bind_local(t.id, e, env)
                    self.zeros[t.id] = src(v.args[0])
                    return self.with_checks(lambda: TLet(lean_ident(t.id), e, self.block(rest, env2, leaf)))
                e = self.expr(v, env)
                env2 = self.bind_local(t.id, e, env)
                return self.with_checks(lambda: TLet(lean_ident(t.id), e, self.block(rest, env2, leaf)))
            if isinstance(t, ast.Subscript):
                out = self.store_target(t)
                if out is not None:
                    return self.store(out, None, v, st, rest, env, leaf)
                # x[mask] = scalar
                if isinstance(t.value, ast.Name) and t.value.id in env and env[t.value.id].ty == VFL and t.value.id not in self.frozen \
                        and not isinstance(t.slice, (ast.Tuple, ast.Slice)):
                    x = self.var(env[t.value.id])
                    m = self.expr(t.slice, env)
                    c = self.expr(v, env)
                    if m.ty == VBOOL and c.ty in (FL, INT):
                        self.check(Ex("samelen", BOOL, (x, m)))
                        e = Ex("maskset", VFL, (x, m, self.to_fl(c)))
                        env2 = self.bind_local(t.value.id, e, env)
                        return self.with_checks(lambda: TLet(lean_ident(t.value.id), e, self.block(rest, env2, leaf)))
                self.bad(f"store `{src(st)}` is outside the subset")
            self.bad(f"assignment target `{src(t)}`")
        if isinstance(st, ast.AugAssign):
            ops = {ast.Add: "add", ast.Sub: "sub", ast.Mult: "mul", ast.Div: "div"}
            if type(st.op) not in ops:
                self.bad(f"operator of `{src(st)}`")
            if isinstance(st.target, ast.Subscript):
                out = self.store_target(st.target)
                if out is None:
                    self.bad(f"`{src(st)}`: augmented store into something that is not an output cell")
                return self.store(out, ops[type(st.op)], st.value, st, rest, env, leaf)
            if isinstance(st.target, ast.Name):
                cur = self.expr(ast.Name(id=st.target.id, ctx=ast.Load()), env)
                e = self.arith(ops[type(st.op)], cur, self.expr(st.value, env), src(st))
                env2 = self.bind_local(st.target.id, e, env)
                return self.with_checks(lambda: TLet(lean_ident(st.target.id), e, self.block(rest, env2, leaf)))
            self.bad(f"assignment target `{src(st.target)}`")
        if isinstance(st, ast.If):
            c = self.expr(st.test, env)
            if c.ty != BOOL:
                self.bad(f"the test `{src(st.test)}` is not a boolean")
            return self.with_checks(lambda: self.merged_if(st, c, rest, env, leaf))
        if isinstance(st, ast.For):
            return self.tabulate(st, rest, env, leaf)
        self.bad(f"statement `{type(st).__name__}` is outside the subset")
        raise TranslatorBug("block")

    def store(self, out, op, value, st, rest, env, leaf):
        ty, _ = self.outs[out]
        cur = self.var(env["#" + out])
        e = self.expr(value, env)
        if ty == FL:
            if e.ty not in (FL, INT):
                self.bad(f"`{src(st)}` stores a {e.ty} into a cell of a 2-D output")
            e = self.to_fl(e)
            if op is not None:
                e = Ex(op, FL, (cur, e))
        else:
            if e.ty in (FL, INT):
                e = Ex("full", VFL, (self.to_fl(e), Ex("len", INT, (cur,))))
            elif e.ty in (VFL, VINT):
                e = self.to_fl(e)
                self.check(Ex("samelen", BOOL, (cur, e)))
            else:
                self.bad(f"`{src(st)}` stores a {e.ty} into a slice of a 3-D output")
            if op is not None:
                e = Ex("zip2", VFL, (cur, e), op)
        env2 = dict(env)
        env2["#" + out] = Binding(lean_ident(out), ty)
        return self.with_checks(lambda: TLet(lean_ident(out), e, self.block(rest, env2, leaf)))

    def merged_if(self, st, c, rest, env, leaf):
        assigned = self.assigned(list(st.body) + list(st.orelse)) + [OK]
        ends = []

        def rec_leaf(e):
            y = TYield([])
            ends.append((e, y))
            return y

        zeros0 = dict(self.zeros)
        t = self.block(list(st.body), env, rec_leaf)
        self.zeros = dict(zeros0)
        e = self.block(list(st.orelse), env, rec_leaf)
        self.zeros = {}
        if len(ends) != 2:
            raise TranslatorBug("a merged branch has several ends")
        (env_t, y_t), (env_e, y_e) = ends
        names = []
        for n in [n for n in env if n in assigned] + [n for n in assigned if n not in env]:
            if n in env_t and n in env_e and env_t[n].ty == env_e[n].ty and env_t[n].ty not in MATRICES and n not in names:
                names.append(n)
        names.sort(key=lambda n: n != OK)  # the flag first (stable)
        for envb, y in ends:
            y.values = [self.var(envb[n]) for n in names]
        env2 = {n: b for n, b in env.items() if n not in assigned}
        for n in names:
            env2[n] = Binding(env_t[n].lean, env_t[n].ty)
        body = self.block(rest, env2, leaf)
        return TMerge([(env_t[n].lean, env_t[n].ty) for n in names], c, t, e, body)

    def tabulate(self, st: ast.For, rest, env, leaf):
        """x = np.zeros(n) …  for i in range(n): x[i] = e_i   ->   x := tabulate n (fun i => e_i)"""
        if st.orelse or not isinstance(st.target, ast.Name):
            self.bad("`for … else` / loop target")
        it = st.iter
        if not (isinstance(it, ast.Call) and isinstance(it.func, ast.Name) and it.func.id == "range" and len(it.args) == 1 and not it.keywords):
            self.bad(f"loop over `{src(it)}`: only the tabulation idiom `for i in range(n): x[i] = …` is supported")
        var = st.target.id
        if var in env or var in self.frozen or var.startswith("py"):
            self.bad(f"the loop variable `{var}` is already bound")
        n_text = src(it.args[0])
        n = self.int_arg(it.args[0], env, "loop bound")
        pre = self.take_checks()
        if pre is not None:
            raise TranslatorBug("unflushed checks before a loop")
        targets = []
        for s in st.body:
            if not (isinstance(s, ast.Assign) and len(s.targets) == 1 and isinstance(s.targets[0], ast.Subscript)
                    and isinstance(s.targets[0].value, ast.Name) and isinstance(s.targets[0].slice, ast.Name)
                    and s.targets[0].slice.id == var):
                self.bad(f"`{src(s)}`: a loop body may only contain `x[{var}] = e`")
            x = s.targets[0].value.id
            if self.zeros.get(x) != n_text or x in targets:
                self.bad(f"`{src(s)}`: `{x}` is not a local `np.zeros({n_text})` vector assigned once in this loop")
            targets.append(x)
        if not targets:
            self.bad("empty loop")
        env_i = {k: b for k, b in env.items() if k not in targets}
        env_i[var] = Binding(lean_ident(var), INT)
        new = []
        allc = None
        for s, x in zip(st.body, targets):
            e = self.expr(s.value, env_i)
            if e.ty not in (FL, INT):
                self.bad(f"`{src(s)}` stores a {e.ty} into a cell")
            c = self.take_checks()
            if c is not None:
                allc = c if allc is None else Ex("and", BOOL, (allc, c))
            new.append((x, Ex("tabulate", VFL, (n, self.to_fl(e)), lean_ident(var))))
        if allc is not None:
            self.check(Ex("allrange", BOOL, (n, allc), lean_ident(var)))

        def build():
            env2 = dict(env)
            for x, e in new:
                env2[x] = Binding(lean_ident(x), VFL)
                self.zeros.pop(x, None)
            tree = self.block(rest, env2, leaf)
            for x, e in reversed(new):
                tree = TLet(lean_ident(x), e, tree)
            return tree

        return self.with_checks(build)


def translate_vec_kernel(fn: ast.FunctionDef, lean_name: str, params: Sequence, numpy_names=("np",)) -> VecKernel:
    return VecKernelTranslator(fn, lean_name, params, numpy_names).translate()


# ------------------------------------------------------------------------------------------------
# Lean rendering
# ------------------------------------------------------------------------------------------------
FL_OP = {"add": "PyLoops.Fl.add", "sub": "PyLoops.Fl.sub", "mul": "PyLoops.Fl.mul", "div": "PyVec.fdiv",
         "lt": "PyLoops.Fl.lt", "le": "PyLoops.Fl.le", "eq": "PyLoops.Fl.eq", "ne": "PyLoops.Fl.ne",
         "max": "PyLoops.Fl.max", "min": "PyLoops.Fl.min"}
INT_SYM = {"lt": "<", "le": "≤", "eq": "=", "ne": "≠"}


def lean_expr(e: Ex) -> str:  # noqa: C901
    a = [lean_expr(x) for x in e.args]
    op = e.op
    if op == "var":
        return e.aux
    if op == "ilit":
        return f"({e.aux} : Int)"
    if op == "flit":
        return lit_fl(e.aux)
    if op == "const":
        return "true" if e.aux else "false"
    if op in ("nan", "pinf", "ninf"):
        return f"PyLoops.Fl.{op}"
    if op == "i2f":
        return f"(PyVec.ofInt {a[0]})"
    if op == "vi2f":
        return f"(PyVec.intsToFl {a[0]})"
    if op == "neg":
        return f"(PyLoops.Fl.neg {a[0]})"
    if op == "ineg":
        return f"(-{a[0]})"
    if op in ("add", "sub", "mul", "div", "max", "min"):
        return f"({FL_OP[op]} {a[0]} {a[1]})"
    if op in ("iadd", "isub", "imul"):
        return f"({a[0]} {'+-*'['iadd isub imul'.split().index(op)]} {a[1]})"
    if op in ("imax", "imin"):
        return f"(PyExpr.{op} {a[0]} {a[1]})"
    if op == "cmp":
        return f"({FL_OP[e.aux]} {a[0]} {a[1]})"
    if op == "icmp":
        return f"(decide ({a[0]} {INT_SYM[e.aux]} {a[1]}))"
    if op == "and":
        return f"({a[0]} && {a[1]})"
    if op == "isnan":
        return f"(PyLoops.Fl.isNan {a[0]})"
    if op == "visnan":
        return f"(List.map PyLoops.Fl.isNan {a[0]})"
    if op in ("zip2", "mapR", "mapL"):
        return f"(PyVec.{op} {FL_OP[e.aux]} {a[0]} {a[1]})"
    if op == "samelen":
        return f"(PyVec.sameLen {a[0]} {a[1]})"
    if op == "nonempty":
        return f"(PyVec.nonEmpty {a[0]})"
    if op == "inrange":
        return f"(PyVec.inRange {a[0]} {a[1]})"
    if op == "len":
        return f"(PyVec.len {a[0]})"
    if op == "mrows":
        return f"(PyVec.len {a[0]})"
    if op in ("nanmin", "nanmax", "nanmean"):
        return f"(PyVec.{op} {a[0]})"
    if op in ("inanmin", "inanmax"):
        return f"(PyVec.{'iminL' if op == 'inanmin' else 'imaxL'} {a[0]})"
    if op == "count":
        return f"(PyVec.countTrue {a[0]})"
    if op == "colcounts":
        return f"(PyVec.colCounts {a[0]} {a[1]})"
    if op == "repeat":
        return f"(PyVec.repeatEach {a[0]} {a[1]})"
    if op == "full":
        return f"(PyVec.full {a[0]} {a[1]})"
    if op == "arange":
        return f"(PyVec.arange {a[0]})"
    if op == "argsort":
        return f"({ARGSORT} {a[0]})"
    if op == "reshaperows":
        return f"(PyVec.reshapeRows {a[0]} {a[1]})"
    if op == "reshaperowsok":
        return f"(PyVec.reshapeRowsOk {a[0]} {a[1]})"
    if op == "reshape2":
        return f"(PyVec.reshape2 {a[0]} {a[1]} {a[2]})"
    if op == "reshapeok":
        return f"(PyVec.reshapeOk {a[0]} {a[1]} {a[2]})"
    if op == "transpose":
        return f"(PyVec.transpose {DEFAULT[ELEM[e.ty]]} {a[1]} {a[0]})"
    if op == "flatten":
        return f"(PyVec.flatten {a[0]})"
    if op == "column":
        return f"(PyVec.column {DEFAULT[ELEM[e.ty]]} {a[0]} {a[1]})"
    if op == "getat":
        return f"(PyVec.getAt {DEFAULT[e.ty]} {a[0]} {a[1]})"
    if op == "gather":
        return f"(PyVec.gather {DEFAULT[ELEM[e.ty]]} {a[0]} {a[1]})"
    if op == "gatherok":
        return f"(PyVec.gatherOk {a[0]} {a[1]})"
    if op == "select":
        return f"(PyVec.select {a[0]} {a[1]})"
    if op == "maskset":
        return f"(PyVec.maskSet {a[0]} {a[1]} {a[2]})"
    if op == "tabulate":
        return f"(PyVec.tabulate {a[0]} (fun ({e.aux} : Int) => {a[1]}))"
    if op == "allrange":
        return f"(PyVec.allRange {a[0]} (fun ({e.aux} : Int) => {a[1]}))"
    raise TranslatorBug(f"cannot render {op}")


def tuple_type(types: List[str]) -> str:
    return " × ".join(("(" + LEAN_TYPE[t] + ")") if " " in LEAN_TYPE[t] else LEAN_TYPE[t] for t in types)


proj = pyloops.proj


def lean_tree(tree, ind: str) -> List[str]:
    if isinstance(tree, TYield):
        vals = [lean_expr(v) for v in tree.values]
        return [ind + (vals[0] if len(vals) == 1 else "(" + ", ".join(vals) + ")")]
    if isinstance(tree, TLet):
        return [f"{ind}let {tree.name} : {LEAN_TYPE[tree.value.ty]} := {lean_expr(tree.value)}"] + lean_tree(tree.body, ind)
    if isinstance(tree, TMerge):
        n = len(tree.names)
        ty = tuple_type([t for _, t in tree.names])
        lines = [f"{ind}let pyMerged : {ty} :=", f"{ind}  if {lean_expr(tree.cond)} then"]
        lines += lean_tree(tree.then, ind + "    ") + [f"{ind}  else"] + lean_tree(tree.orelse, ind + "    ")
        for i, (nm, t) in enumerate(tree.names):
            lines.append(f"{ind}let {nm} : {LEAN_TYPE[t]} := pyMerged{proj(i, n)}")
        return lines + lean_tree(tree.body, ind)
    raise TranslatorBug(f"cannot render {type(tree).__name__}")


def result_type(k: VecKernel) -> str:
    return f"PyVec.Res ({tuple_type([t for _, t in k.cells])})"


def render_lean(k: VecKernel) -> str:
    params = " ".join(f"({n} : {t})" for n, t, _ in k.lean_params)
    lines = [f"def {k.lean_name} {params} : {result_type(k)} :="]
    body = lean_tree(k.tree, "  ")
    n = 1 + len(k.cells)
    last = body.pop()
    lines += body
    lines.append(f"  let pyOut : {tuple_type([BOOL] + [t for _, t in k.cells])} := {last.strip()}")
    cells = ", ".join(f"pyOut{proj(i + 1, n)}" for i in range(len(k.cells)))
    cells = f"({cells})" if len(k.cells) > 1 else cells
    lines.append(f"  if pyOut.1 then PyVec.Res.ok {cells} else PyVec.Res.shapeError")
    return "\n".join(lines) + "\n"


# ------------------------------------------------------------------------------------------------
# exact evaluator of the same tree.   floats: Fraction | "nan" | "inf" | "-inf";  ints: int;  vectors: list
# ------------------------------------------------------------------------------------------------
def _num(x):
    return Fraction(x) if isinstance(x, int) and not isinstance(x, bool) else x


F2 = {"add": f_add, "sub": f_sub, "mul": f_mul, "div": f_div,
      "lt": lambda x, y: f_cmp("lt", x, y), "le": lambda x, y: f_cmp("le", x, y), "eq": lambda x, y: f_cmp("eq", x, y),
      "ne": lambda x, y: f_cmp("ne", x, y), "max": lambda x, y: y if f_lt(x, y) else x, "min": lambda x, y: y if f_lt(y, x) else x}


def _chunks(k, n, v):
    return [v[i * k:(i + 1) * k] for i in range(n)]


def _getd(v, i, d):
    return v[i] if 0 <= i < len(v) else d


def _default(ty):
    return {FL: FNAN, INT: 0, BOOL: False}[ty]


def _nan_reduce(v, better):
    out = None
    for x in reversed(v):  # same association as the Lean definition (fold from the right)
        if x == FNAN:
            continue
        if out is None or better(x, out):
            out = x
    return FNAN if out is None else out


def default_argsort(v):
    """a stable sort of the indices, NaN last (any permutation of the indices gives the same kernel results)"""
    key = lambda i: (2, 0) if v[i] == FNAN else ((0, 0) if v[i] == NINF else (1.5, 0) if v[i] == PINF else (1, v[i]))  # noqa: E731
    return sorted(range(len(v)), key=key)


def ev(e: Ex, env):  # noqa: C901
    op = e.op
    if op == "var":
        return env[e.aux]
    if op == "ilit":
        return e.aux
    if op == "flit":
        return Fraction(e.aux)
    if op == "const":
        return e.aux
    if op == "nan":
        return FNAN
    if op == "pinf":
        return PINF
    if op == "ninf":
        return NINF
    if op == "and":
        return ev(e.args[0], env) and ev(e.args[1], env)
    if op in ("tabulate", "allrange"):
        n = max(0, ev(e.args[0], env))
        vals = []
        for i in range(n):
            env2 = dict(env)
            env2[e.aux] = i
            vals.append(ev(e.args[1], env2))
        return vals if op == "tabulate" else all(vals)
    a = [ev(x, env) for x in e.args]
    if op == "i2f":
        return Fraction(a[0])
    if op == "vi2f":
        return [Fraction(x) for x in a[0]]
    if op == "neg":
        return f_neg(a[0])
    if op == "ineg":
        return -a[0]
    if op in ("add", "sub", "mul", "div", "max", "min"):
        return F2[op](a[0], a[1])
    if op == "iadd":
        return a[0] + a[1]
    if op == "isub":
        return a[0] - a[1]
    if op == "imul":
        return a[0] * a[1]
    if op == "imax":
        return a[1] if a[0] < a[1] else a[0]
    if op == "imin":
        return a[1] if a[1] < a[0] else a[0]
    if op == "cmp":
        return F2[e.aux](a[0], a[1])
    if op == "icmp":
        return {"lt": a[0] < a[1], "le": a[0] <= a[1], "eq": a[0] == a[1], "ne": a[0] != a[1]}[e.aux]
    if op == "isnan":
        return a[0] == FNAN
    if op == "visnan":
        return [x == FNAN for x in a[0]]
    if op == "zip2":
        return [F2[e.aux](x, y) for x, y in zip(a[0], a[1])]
    if op == "mapR":
        return [F2[e.aux](x, a[1]) for x in a[0]]
    if op == "mapL":
        return [F2[e.aux](a[0], y) for y in a[1]]
    if op == "samelen":
        return len(a[0]) == len(a[1])
    if op == "nonempty":
        return len(a[0]) > 0
    if op == "inrange":
        return 0 <= a[1] < a[0]
    if op in ("len", "mrows"):
        return len(a[0])
    if op == "nanmin":
        return _nan_reduce(a[0], lambda x, m: f_cmp("le", x, m))
    if op == "nanmax":
        return _nan_reduce(a[0], lambda x, m: f_cmp("le", m, x))
    if op == "nanmean":
        xs = [x for x in a[0] if x != FNAN]
        if not xs:
            return FNAN
        s = Fraction(0)
        for x in reversed(xs):
            s = f_add(x, s)
        return f_div(s, Fraction(len(xs)))
    if op == "inanmin":
        return min(a[0]) if a[0] else 0
    if op == "inanmax":
        return max(a[0]) if a[0] else 0
    if op == "count":
        return sum(1 for x in a[0] if x)
    if op == "colcounts":
        return [sum(1 for r in a[0] if _getd(r, j, False)) for j in range(max(0, a[1]))]
    if op == "repeat":
        return [x for x in a[0] for _ in range(max(0, a[1]))]
    if op == "full":
        return [a[0]] * max(0, a[1])
    if op == "arange":
        return list(range(max(0, a[0])))
    if op == "argsort":
        return list(env[ARGSORT](a[0]))
    if op == "reshaperows":
        c = max(0, a[1])
        return _chunks(c, (len(a[0]) // c) if c else 0, a[0])
    if op == "reshaperowsok":
        return a[1] > 0 and len(a[0]) % a[1] == 0
    if op == "reshape2":
        return _chunks(max(0, a[2]), max(0, a[1]), a[0])
    if op == "reshapeok":
        return a[1] >= 0 and a[2] >= 0 and a[1] * a[2] == len(a[0])
    if op == "transpose":
        d = _default(ELEM[e.ty])
        return [[_getd(r, j, d) for r in a[0]] for j in range(max(0, a[1]))]
    if op == "flatten":
        return [x for r in a[0] for x in r]
    if op == "column":
        return [_getd(r, max(0, a[1]), _default(ELEM[e.ty])) for r in a[0]]
    if op == "getat":
        return _getd(a[0], max(0, a[1]), _default(e.ty))
    if op == "gather":
        return [_getd(a[0], max(0, i), _default(ELEM[e.ty])) for i in a[1]]
    if op == "gatherok":
        return all(0 <= i < len(a[0]) for i in a[1])
    if op == "select":
        return [x for x, b in zip(a[0], a[1]) if b]
    if op == "maskset":
        return [a[2] if b else x for x, b in zip(a[0], a[1])]
    raise TranslatorBug(f"cannot evaluate {op}")


def run_tree(tree, env):
    while True:
        if isinstance(tree, TYield):
            return tuple(ev(v, env) for v in tree.values)
        if isinstance(tree, TLet):
            env = dict(env)
            env[tree.name] = ev(tree.value, env)
            tree = tree.body
        elif isinstance(tree, TMerge):
            vals = run_tree(tree.then if ev(tree.cond, env) else tree.orelse, env)
            env = dict(env)
            for (n, _), v in zip(tree.names, vals):
                env[n] = v
            tree = tree.body
        else:
            raise TranslatorBug(f"cannot run {type(tree).__name__}")


def evaluate_px(k: VecKernel, args: dict, argsort=default_argsort):
    """the per-pixel function on exact arguments {lean parameter name: value}: ("ok", cells) | ("shapeError", None)"""
    env = {}
    for n, _, role in k.lean_params:
        if role == "argsort":
            env[n] = argsort
        else:
            env[n] = args[n]
    vals = run_tree(k.tree, env)
    return ("ok", vals[1:]) if vals[0] else ("shapeError", None)
