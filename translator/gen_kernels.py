"""T12: the small scalar numeric kernels, translated expression by expression (translator/pyexpr.py) ->
Generated/Kernels.lean.  Unlike T11 (gen_refine_cc.py: literals and statement shapes are pinned), the Lean
definitions written here ARE the Python functions, re-read from the source text on every run:

    pandora/refinement/vfit.py       Vfit.refinement_method        -> Pandora.Generated.Kernels.vfitMethod
    pandora/refinement/quadratic.py  Quadratic.refinement_method   -> Pandora.Generated.Kernels.quadraticMethod

Signature (close to the Python one): `(cost0 cost1 cost2 : Val) (disp : Val) (measure : String) :
PyExpr.PyRes (Val × Val × Int)` — the three cells of `cost`, the disparity, the measure string ->
(sub-pixel shift, interpolated cost, validity code) or the ZeroDivisionError numba raises.
`Properties/C06Kernels.lean` proves them equal to the hand model of Model/Refinement.lean for all inputs.
"""
from __future__ import annotations

import ast

from . import gen_constants, pyexpr
from .common import Unsupported, digest, find_class, find_method, parse, read_source, write_if_changed
from .pyexpr import Param, VAL, STR

NAME = "Kernels"

REFINE_PARAMS = [Param("cost", "array", (VAL, VAL, VAL)), Param("disp", VAL), Param("measure", STR)]

# (source file, class, method, Lean name, parameters)
KERNELS = [
    ("pandora/refinement/vfit.py", "Vfit", "refinement_method", "vfitMethod", REFINE_PARAMS),
    ("pandora/refinement/quadratic.py", "Quadratic", "refinement_method", "quadraticMethod", REFINE_PARAMS),
]
SRC = sorted({k[0] for k in KERNELS} | {gen_constants.SRC})


def module_aliases(mod: ast.Module, rel: str):
    """names bound at module level to numpy and to pandora.constants"""
    numpy_names, const_names = set(), set()
    for node in mod.body:
        if isinstance(node, ast.Import):
            for a in node.names:
                if a.name == "numpy":
                    numpy_names.add(a.asname or "numpy")
                if a.name == "pandora.constants" and a.asname:
                    const_names.add(a.asname)
        elif isinstance(node, ast.ImportFrom):
            if node.module == "pandora" and node.level == 0:
                for a in node.names:
                    if a.name == "constants":
                        const_names.add(a.asname or "constants")
    # a module-level rebinding of one of these names would change their meaning
    for node in ast.walk(mod):
        if isinstance(node, (ast.Assign, ast.AnnAssign, ast.AugAssign)):
            targets = node.targets if isinstance(node, ast.Assign) else [node.target]
            for t in targets:
                if isinstance(t, ast.Name) and t.id in numpy_names | const_names:
                    raise Unsupported(f"{rel}: `{t.id}` is rebound")
    return numpy_names, const_names


def check_decorators(fn: ast.FunctionDef, rel: str):
    """`@staticmethod` and numba's `@njit(...)` with the default error model (ZeroDivisionError on a zero divisor)"""
    seen = set()
    for d in fn.decorator_list:
        call = d if isinstance(d, ast.Call) else None
        f = call.func if call else d
        name = f.id if isinstance(f, ast.Name) else (f.attr if isinstance(f, ast.Attribute) else None)
        if name == "staticmethod" and call is None:
            seen.add(name)
        elif name in ("njit", "jit"):
            seen.add("njit")
            for kw in (call.keywords if call else []):
                if kw.arg in ("error_model", "fastmath", None):
                    raise Unsupported(f"{rel}: {fn.name}: `{ast.unparse(d)}` changes the arithmetic (error_model / fastmath)")
        else:
            raise Unsupported(f"{rel}: {fn.name}: unknown decorator `{ast.unparse(d)}`")
    if "staticmethod" not in seen:
        raise Unsupported(f"{rel}: {fn.name} is not a staticmethod (its first parameter would be `self`)")


def kernels():
    """-> {lean name: pyexpr.Kernel} read from the source tree now"""
    consts = gen_constants.extract()
    out = {}
    for rel, cls, meth, lean_name, params in KERNELS:
        mod = parse(rel)
        fn = find_method(find_class(mod, cls), meth)
        check_decorators(fn, rel)
        numpy_names, const_names = module_aliases(mod, rel)
        table = {f"{alias}.{k}": int(v) for alias in const_names for k, v in consts.items()}
        out[lean_name] = pyexpr.translate_function(fn, lean_name, params, consts=table, numpy_names=numpy_names,
                                                   source_text=read_source(rel))
        out[lean_name].origin = f"{rel}: {cls}.{meth}"
    return out


def python_comment(k) -> str:
    """the Python text that was translated (docstring dropped), as a Lean comment"""
    try:
        fn = ast.parse(k.source).body[0]
        if fn.body and isinstance(fn.body[0], ast.Expr) and isinstance(getattr(fn.body[0], "value", None), ast.Constant) \
                and isinstance(fn.body[0].value.value, str):
            fn.body = fn.body[1:] or [ast.Pass()]
        text = ast.unparse(fn)
    except Exception:  # pylint: disable=broad-except
        text = k.source
    return text.replace("-/", "- /").replace("/-", "/ -")


def render(ks) -> str:
    lines = [
        "-- GENERATED by translator/gen_kernels.py (translator/pyexpr.py) from the Python source. Do not edit.",
        "import PandoraModel.Model.PyExpr",
        "set_option linter.unusedVariables false",
        "namespace Pandora.Generated.Kernels",
        "open Pandora",
        "",
    ]
    for name, k in ks.items():
        lines.append(f"/- {k.origin}")
        lines.append(python_comment(k))
        for note in sorted(set(k.notes)):
            lines.append(f"   note: {note.replace('-/', '- /')}")
        lines.append("-/")
        lines.append(pyexpr.render_lean(k, always_partial=True))
    lines.append("end Pandora.Generated.Kernels")
    return "\n".join(lines) + "\n"


def generate():
    ks = kernels()
    write_if_changed("Kernels.lean", render(ks))
    return {"T12": {"source": SRC, "digest": digest(*SRC), "kernels": sorted(ks),
                    "tested_divisions": {n: k.partial for n, k in ks.items()}}}
