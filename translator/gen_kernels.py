"""T12: the small scalar numeric kernels, translated expression by expression (translator/pyexpr.py) ->
Generated/Kernels.lean.  Unlike T11 (gen_refine_cc.py: literals and statement shapes are pinned), the Lean
definitions written here ARE the Python functions, re-read from the source text on every run:

    pandora/refinement/vfit.py       Vfit.refinement_method        -> Pandora.Generated.Kernels.vfitMethod
    pandora/refinement/quadratic.py  Quadratic.refinement_method   -> Pandora.Generated.Kernels.quadraticMethod
    pandora/refinement/refinement.py AbstractRefinement.loop_refinement: the test of the `if` that lets the method run
                                     (an expression inside loops that are not in the subset)
                                                                   -> Pandora.Generated.Kernels.refineGuard

Signature (close to the Python one): `(cost0 cost1 cost2 : Val) (disp : Val) (measure : String) :
PyExpr.PyRes (Val × Val × Int)` — the three cells of `cost`, the disparity, the measure string ->
(sub-pixel shift, interpolated cost, validity code) or the ZeroDivisionError numba raises.
`Properties/C06Kernels.lean` proves them equal to the hand model of Model/Refinement.lean for all inputs.
"""
from __future__ import annotations

import ast
from fractions import Fraction

from . import gen_constants, pyexpr
from .common import Unsupported, digest, find_class, find_method, parse, read_source, write_if_changed
from .pyexpr import Param, VAL, STR, INT, RAT

NAME = "Kernels"

REFINE_PARAMS = [Param("cost", "array", (VAL, VAL, VAL)), Param("disp", VAL), Param("measure", STR)]

# (source file, class, method, Lean name, parameters)
KERNELS = [
    ("pandora/refinement/vfit.py", "Vfit", "refinement_method", "vfitMethod", REFINE_PARAMS),
    ("pandora/refinement/quadratic.py", "Quadratic", "refinement_method", "quadraticMethod", REFINE_PARAMS),
]
LOOP = ("pandora/refinement/refinement.py", "AbstractRefinement", "loop_refinement")
# what the names of the guard stand for: (source text, Lean parameter, type).  `dsp` is the sample index computed just
# before, `n_disp` the length of the cost row, `disp[row, col]` the (numeric: `int(...)` was taken) disparity of the pixel,
# `d_min` / `d_max` the ends of the global interval (`cv.coords["disp"]`: floats)
GUARD_ATOMS = [("dsp", "dsp", INT), ("n_disp", "n_disp", INT), ("disp[row, col]", "dispRC", RAT),
               ("d_min", "d_min", RAT), ("d_max", "d_max", RAT)]
SRC = sorted({k[0] for k in KERNELS} | {gen_constants.SRC, LOOP[0]})


def module_aliases(mod: ast.Module, rel: str):
    """names bound at module level to numpy and to pandora.constants"""
    numpy_names, const_names = set(), set()
    for node in mod.body:
        if isinstance(node, ast.Import):
            for a in node.names:
                if a.name == "numpy":
                    numpy_names.add(a.asname or "numpy")
                if a.name == "pandora.constants" and a.asname:
                    const_names.add(a.asname)
        elif isinstance(node, ast.ImportFrom):
            if node.module == "pandora" and node.level == 0:
                for a in node.names:
                    if a.name == "constants":
                        const_names.add(a.asname or "constants")
    # a module-level rebinding of one of these names would change their meaning
    for node in ast.walk(mod):
        if isinstance(node, (ast.Assign, ast.AnnAssign, ast.AugAssign)):
            targets = node.targets if isinstance(node, ast.Assign) else [node.target]
            for t in targets:
                if isinstance(t, ast.Name) and t.id in numpy_names | const_names:
                    raise Unsupported(f"{rel}: `{t.id}` is rebound")
    return numpy_names, const_names


def check_decorators(fn: ast.FunctionDef, rel: str):
    """`@staticmethod` and numba's `@njit(...)` with the default error model (ZeroDivisionError on a zero divisor)"""
    seen = set()
    for d in fn.decorator_list:
        call = d if isinstance(d, ast.Call) else None
        f = call.func if call else d
        name = f.id if isinstance(f, ast.Name) else (f.attr if isinstance(f, ast.Attribute) else None)
        if name == "staticmethod" and call is None:
            seen.add(name)
        elif name in ("njit", "jit"):
            seen.add("njit")
            for kw in (call.keywords if call else []):
                if kw.arg in ("error_model", "fastmath", None):
                    raise Unsupported(f"{rel}: {fn.name}: `{ast.unparse(d)}` changes the arithmetic (error_model / fastmath)")
        else:
            raise Unsupported(f"{rel}: {fn.name}: unknown decorator `{ast.unparse(d)}`")
    if "staticmethod" not in seen:
        raise Unsupported(f"{rel}: {fn.name} is not a staticmethod (its first parameter would be `self`)")


def loop_guard():
    """the guard of loop_refinement: by the pinned texts; when they do not match, from the tree of T12p (gen_kernels_refine.py),
    which translates and type-checks the whole body — the sample-index local and `n_disp` are then whatever the source names them"""
    try:
        return loop_guard_pinned()
    except Unsupported:
        import copy
        from . import gen_kernels_refine
        rel, cls, meth = LOOP
        px = gen_kernels_refine.kernels()["loopRefinementPx"]
        if px.guard_test is None or px.index_local is None:
            raise
        test = copy.deepcopy(px.guard_test)
        ren = {px.index_local: "dsp", px.n_disp: "n_disp"}
        for n in ast.walk(test):
            if isinstance(n, ast.Name) and n.id in ren:
                n.id = ren[n.id]
        for n in ast.walk(test):
            if isinstance(n, ast.Name) and n.id not in {a[0] for a in GUARD_ATOMS} | {"disp", "row", "col"}:
                raise Unsupported(f"{rel}: the guard of {meth} reads `{n.id}`, which has no declared meaning")
        numpy_names, _ = module_aliases(parse(rel), rel)
        k = pyexpr.translate_expression(test, "refineGuard", GUARD_ATOMS, numpy_names=numpy_names,
                                        source_text=read_source(rel), py_name=f"{meth}: guard of the method call")
        if k.ret_types != ["bool"] or k.partial:
            raise Unsupported(f"{rel}: the guard of {meth} is not a total boolean expression")
        k.origin = f"{rel}: {cls}.{meth}, test of the `if` whose body calls `method(...)` (read through T12p's tree)"
        k.always_partial = False
        return k


def loop_guard_pinned():
    """the test of the one `if` of loop_refinement whose body calls `method(...)`"""
    rel, cls, meth = LOOP
    mod = parse(rel)
    fn = find_method(find_class(mod, cls), meth)
    found = []
    for node in ast.walk(fn):
        if isinstance(node, ast.If):
            for st in node.body:
                if isinstance(st, (ast.Assign, ast.Expr)) and isinstance(st.value, ast.Call) \
                        and isinstance(st.value.func, ast.Name) and st.value.func.id == "method":
                    found.append(node)
    if len(found) != 1:
        raise Unsupported(f"{rel}: expected one `if` whose body calls method(...), found {len(found)}")
    node = found[0]
    # what the atoms stand for is only right if they are bound as expected before the guard
    body = ast.unparse(fn)
    for needle in ("n_row, n_col, n_disp = cv.shape", "dsp = int((disp[row, col] - d_min) * subpixel)"):
        if needle not in body:
            raise Unsupported(f"{rel}: statement `{needle}` not found in {meth}")
    for n in ast.walk(node.test):
        if isinstance(n, ast.Name) and n.id not in {a[0] for a in GUARD_ATOMS} | {"disp", "row", "col"}:
            raise Unsupported(f"{rel}: the guard of {meth} reads `{n.id}`, which has no declared meaning")
    numpy_names, _ = module_aliases(mod, rel)
    k = pyexpr.translate_expression(node.test, "refineGuard", GUARD_ATOMS, numpy_names=numpy_names,
                                    source_text=read_source(rel), py_name=f"{meth}: guard of the method call")
    if k.ret_types != ["bool"] or k.partial:
        raise Unsupported(f"{rel}: the guard of {meth} is not a total boolean expression")
    k.origin = f"{rel}: {cls}.{meth}, test of the `if` whose body calls `method(...)`"
    k.always_partial = False
    return k


def kernels():
    """-> {lean name: pyexpr.Kernel} read from the source tree now"""
    consts = gen_constants.extract()
    out = {}
    for rel, cls, meth, lean_name, params in KERNELS:
        mod = parse(rel)
        fn = find_method(find_class(mod, cls), meth)
        check_decorators(fn, rel)
        numpy_names, const_names = module_aliases(mod, rel)
        table = {f"{alias}.{k}": int(v) for alias in const_names for k, v in consts.items()}
        out[lean_name] = pyexpr.translate_function(fn, lean_name, params, consts=table, numpy_names=numpy_names,
                                                   source_text=read_source(rel))
        out[lean_name].origin = f"{rel}: {cls}.{meth}"
        out[lean_name].always_partial = True
    out["refineGuard"] = loop_guard()
    return out


def python_comment(k) -> str:
    """the Python text that was translated (docstring dropped), as a Lean comment"""
    try:
        fn = ast.parse(k.source).body[0]
        if fn.body and isinstance(fn.body[0], ast.Expr) and isinstance(getattr(fn.body[0], "value", None), ast.Constant) \
                and isinstance(fn.body[0].value.value, str):
            fn.body = fn.body[1:] or [ast.Pass()]
        text = ast.unparse(fn)
    except Exception:  # pylint: disable=broad-except
        text = k.source
    return text.replace("-/", "- /").replace("/-", "/ -")


# inputs of the generated `example`s: the translator's own evaluator (pyexpr.evaluate) computes the expected value,
# Lean checks it by evaluation of the generated definition — this ties the two readings of the IR (Lean text /
# Python evaluator) together at build time
GOLDEN_TRIPLES = [(5, 1, 3), (1, 4, 3), (0, 0, 0), (2, 1, 1), (1, 1, 2), (None, 1, 2), (1, None, 2), (3, 1, None),
                  (1, 2, 1), (7, 5, 9), (Fraction(1, 2), Fraction(1, 4), 3), (-3, -4, -4)]
GOLDEN_GUARD = [(0, 3, 0, -1, 1), (1, 3, 0, -1, 1), (2, 3, 1, -1, 1), (-1, 3, -2, -1, 1), (0, 1, 0, 0, 0)]


def lean_value(v, ty) -> str:
    if ty == "val":
        return "Val.nan" if v is None else f"Val.num {pyexpr.lean_lit(Fraction(v), 'rat')}"
    if ty == "rat":
        return pyexpr.lean_lit(Fraction(v), "rat")
    if ty == "int":
        return f"({int(v)} : Int)"
    if ty == "bool":
        return "true" if v else "false"
    raise Unsupported(f"cannot render a {ty}")


def golden_examples(k, cases=None) -> list:
    out = []
    if cases is not None:
        cases = [list(c) for c in cases]
    elif k.lean_name == "refineGuard":
        cases = [list(c) for c in GOLDEN_GUARD]
    else:
        cases = [[list(t), 0, m] for t in GOLDEN_TRIPLES for m in ("min", "max")]
    partial = k.partial or k.always_partial
    for args in cases:
        res, vals = pyexpr.evaluate(k, *args)
        flat = []
        for a in args:
            flat += list(a) if isinstance(a, list) else [a]
        actual = " ".join(f"({lean_value(v, ty)})" if ty != "str" else pyexpr.lean_str(v)
                          for v, (_, ty) in zip(flat, k.lean_params))
        if res == "ok":
            val = ", ".join(lean_value(v, ty) for v, ty in zip(vals, k.ret_types))
            val = f"({val})" if len(vals) > 1 else val
            rhs = f"PyExpr.PyRes.ok {val}" if partial else val
        else:
            rhs = "PyExpr.PyRes.zeroDivision"
        out.append(f"example : {k.lean_name} {actual} = {rhs} := by decide +kernel")
    return out


def render(ks) -> str:
    lines = [
        "-- GENERATED by translator/gen_kernels.py (translator/pyexpr.py) from the Python source. Do not edit.",
        "import PandoraModel.Model.PyExpr",
        "set_option linter.unusedVariables false",
        "namespace Pandora.Generated.Kernels",
        "open Pandora",
        "",
    ]
    for name, k in ks.items():
        lines.append(f"/- {k.origin}")
        lines.append(python_comment(k))
        for note in sorted(set(k.notes)):
            lines.append(f"   note: {note.replace('-/', '- /')}")
        lines.append("-/")
        lines.append(pyexpr.render_lean(k, always_partial=k.always_partial))
        lines.append("-- what translator/pyexpr.py's own evaluator computes on a few inputs, checked here by evaluation")
        lines += golden_examples(k)
        lines.append("")
    lines.append("end Pandora.Generated.Kernels")
    return "\n".join(lines) + "\n"


def render_selftest() -> str:
    """the translator's own test functions (translator/pyexpr_selftest.py) rendered to Lean, with the values its
    evaluator computes: constructs of the subset the production kernels do not all use (tested divisions, merged
    tuples, elif chains, chained comparisons, …) are checked through the same three-way comparison"""
    from . import pyexpr_selftest

    lines = [
        "-- GENERATED by translator/gen_kernels.py from translator/pyexpr_selftest.py. Do not edit.",
        "import PandoraModel.Model.PyExpr",
        "set_option linter.unusedVariables false",
        "namespace Pandora.Generated.KernelsSelfTest",
        "open Pandora",
        "",
    ]
    for name, k in pyexpr_selftest.accepted_kernels().items():
        k.always_partial = False
        text = pyexpr_selftest.ACCEPTED[name][1].strip().replace("-/", "- /").replace("/-", "/ -")
        lines += ["/-", text, "-/", pyexpr.render_lean(k, always_partial=False)]
        lines += golden_examples(k, pyexpr_selftest.ACCEPTED[name][2])
        lines.append("")
    lines.append("end Pandora.Generated.KernelsSelfTest")
    return "\n".join(lines) + "\n"


def generate():
    ks = kernels()
    write_if_changed("Kernels.lean", render(ks))
    write_if_changed("KernelsSelfTest.lean", render_selftest())
    return {"T12": {"source": SRC, "digest": digest(*SRC), "kernels": sorted(ks),
                    "tested_divisions": {n: k.partial for n, k in ks.items()}}}
