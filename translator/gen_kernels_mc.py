"""T12 (matching-cost loops): the per-disparity index decisions of the three `compute_cost_volume` methods, translated
expression by expression with translator/pyexpr.py -> Generated/KernelsMc.lean:

    pandora/matching_cost/{census,sad_ssd,zncc}.py, in `for disp_index, disp in enumerate(disparity_range):`
        i_right = int((disp % 1) * self._subpix)            -> iRightCensus / iRightSadSsd / iRightZncc  (disp : Rat) (subpix : Int) : Int
    pandora/matching_cost/zncc.py, same loop
        p_std = (point_p[0], max(point_p[1] - (int(self._window_size / 2) * 2), point_p[0]))   -> pStd0, pStd1
        q_std = (point_q[0], max(point_q[1] - (int(self._window_size / 2) * 2), point_q[0]))   -> qStd0, qStd1

and the SHAPE of each loop (which interval / which shifted right image / which plane is combined with which), read off
the `ast` and written as a table of strings `loopShape : List (String × List String)` — the theorems of
`Properties/C02KernelsMc.lean` compare it with the wiring the hand model `MC.rawSadSsd / rawCensus / rawZncc` implements.

What the atoms stand for is declared here: `disp` is a sample of `cost_volume.coords["disp"].data` (a float that is not
NaN, exact), `self._subpix` and `self._window_size` the integers of the configuration, `point_p[i]` / `point_q[i]` the
integers `point_interval` returned.  Each kernel is translated on its own; one that leaves the subset is left out of the
generated file (its theorem then does not build).
"""
from __future__ import annotations

import ast
from fractions import Fraction

from . import pyexpr
from .common import Unsupported, digest, find_class, find_method, parse, read_source, write_if_changed
from .pyexpr import INT, RAT

NAME = "KernelsMc"
FILES = {"Census": "pandora/matching_cost/census.py", "SadSsd": "pandora/matching_cost/sad_ssd.py",
         "Zncc": "pandora/matching_cost/zncc.py"}
SRC = list(FILES.values())

IRIGHT_ATOMS = [("disp", "disp", RAT), ("self._subpix", "subpix", INT)]
STD_ATOMS = [("point_p[0]", "p0", INT), ("point_p[1]", "p1", INT), ("point_q[0]", "q0", INT), ("point_q[1]", "q1", INT),
             ("self._window_size", "w", INT)]


def disparity_loop(cls: str):
    """the `for disp_index, disp in enumerate(disparity_range)` loop of `cls.compute_cost_volume` (exactly one), after
    checking that `disparity_range` is the disparity axis of the cost volume and is not rebound"""
    rel = FILES[cls]
    mod = parse(rel)
    from .gen_kernels_glue import check_builtins, module_bindings

    check_builtins(module_bindings(mod), rel)
    fn = find_method(find_class(mod, cls), "compute_cost_volume")
    loops = [n for n in ast.walk(fn) if isinstance(n, ast.For) and ast.unparse(n.iter) == "enumerate(disparity_range)"]
    if len(loops) != 1:
        raise Unsupported(f"{rel}: {cls}.compute_cost_volume: expected one loop over enumerate(disparity_range), found {len(loops)}")
    loop = loops[0]
    if ast.unparse(loop.target) != "(disp_index, disp)" or loop.orelse:
        raise Unsupported(f"{rel}: {cls}.compute_cost_volume: loop target `{ast.unparse(loop.target)}`")
    binds = [n for n in ast.walk(fn) if isinstance(n, ast.Assign)
             and any(isinstance(t, ast.Name) and t.id == "disparity_range" for t in n.targets)]
    if len(binds) != 1 or ast.unparse(binds[0].value) != "cost_volume.coords['disp'].data":
        raise Unsupported(f"{rel}: {cls}.compute_cost_volume: disparity_range is not cost_volume.coords['disp'].data")
    for node in ast.walk(loop):
        targets = []
        if isinstance(node, ast.Assign):
            targets = node.targets
        elif isinstance(node, (ast.AugAssign, ast.AnnAssign)):
            targets = [node.target]
        for t in targets:
            for n in ast.walk(t) if isinstance(t, (ast.Tuple, ast.List)) else [t]:
                if isinstance(n, ast.Name) and n.id in ("disp", "disp_index", "disparity_range"):
                    raise Unsupported(f"{rel}: {cls}.compute_cost_volume: `{n.id}` is reassigned inside the disparity loop")
    return rel, fn, loop


def single_assign(loop: ast.For, name: str, rel: str):
    found = [st for st in loop.body if isinstance(st, ast.Assign) and len(st.targets) == 1
             and isinstance(st.targets[0], ast.Name) and st.targets[0].id == name]
    others = [n for n in ast.walk(loop) if isinstance(n, (ast.Assign, ast.AugAssign, ast.AnnAssign)) and n not in found
              and any(isinstance(x, ast.Name) and x.id == name and isinstance(x.ctx, ast.Store) for x in ast.walk(n))]
    if len(found) != 1 or others:
        raise Unsupported(f"{rel}: expected exactly one `{name} = …` at the top level of the disparity loop")
    return found[0]


def i_right_kernel(cls: str):
    rel, fn, loop = disparity_loop(cls)
    st = single_assign(loop, "i_right", rel)
    k = pyexpr.translate_expression(st.value, f"iRight{cls}", IRIGHT_ATOMS, source_text=read_source(rel),
                                    py_name=f"{cls}.compute_cost_volume: i_right", pymod=True)
    if k.ret_types != [INT] or k.partial:
        raise Unsupported(f"{rel}: {cls}.compute_cost_volume: i_right is not a total integer expression")
    k.origin = f"{rel}: {cls}.compute_cost_volume, `{ast.unparse(st)}` in the loop over the disparities"
    return k


def std_kernels():
    """zncc: the two components of `p_std` and of `q_std`"""
    rel, fn, loop = disparity_loop("Zncc")
    out = {}
    for name, lean in (("p_std", "pStd"), ("q_std", "qStd")):
        st = single_assign(loop, name, rel)
        if not isinstance(st.value, ast.Tuple) or len(st.value.elts) != 2:
            raise Unsupported(f"{rel}: Zncc.compute_cost_volume: `{ast.unparse(st)}` is not a pair")
        for i, e in enumerate(st.value.elts):
            k = pyexpr.translate_expression(e, f"{lean}{i}", STD_ATOMS, source_text=read_source(rel),
                                            py_name=f"Zncc.compute_cost_volume: {name}[{i}]")
            if k.ret_types != [INT] or k.partial:
                raise Unsupported(f"{rel}: Zncc.compute_cost_volume: {name}[{i}] is not a total integer expression")
            k.origin = f"{rel}: Zncc.compute_cost_volume, component {i} of `{ast.unparse(st)}`"
            out[f"{lean}{i}"] = k
    return out


# ------------------------------------------------------------------------------------------------
# the shape of the loops: what is combined with what
# ------------------------------------------------------------------------------------------------
def norm(node) -> str:
    return ast.unparse(node).replace("\n", " ")


def loop_shape(cls: str) -> list:
    """[(key, [strings])]: the call of point_interval, the store into the cost volume and the pixel-wise call, as text"""
    rel, fn, loop = disparity_loop(cls)
    out = []
    pi = [st for st in loop.body if isinstance(st, ast.Assign) and isinstance(st.value, ast.Call)
          and norm(st.value.func) == "self.point_interval"]
    if len(pi) != 1:
        raise Unsupported(f"{rel}: {cls}: expected one call of self.point_interval in the disparity loop")
    out.append(("point_interval", [norm(pi[0].targets[0])] + [norm(a) for a in pi[0].value.args]))
    stores = [st for st in loop.body if isinstance(st, ast.Assign) and isinstance(st.targets[0], ast.Subscript)
              and isinstance(st.targets[0].value, ast.Name) and st.targets[0].value.id in ("cv", "cv_crop")]
    if len(stores) != 1:
        raise Unsupported(f"{rel}: {cls}: expected one store into the cost volume in the disparity loop")
    st = stores[0]
    sl = st.targets[0].slice
    out.append(("store", [st.targets[0].value.id] + [norm(e) for e in (sl.elts if isinstance(sl, ast.Tuple) else [sl])]))
    v = st.value
    if not (isinstance(v, ast.Call) and norm(v.func) == "np.swapaxes" and len(v.args) == 3
            and [norm(a) for a in v.args[1:]] == ["0", "1"]):
        raise Unsupported(f"{rel}: {cls}: the stored value is not np.swapaxes(…, 0, 1)")
    inner = v.args[0]
    if isinstance(inner, ast.Call):
        out.append(("value", [norm(inner.func)] + [norm(a) for a in inner.args]))
    else:
        out.append(("value", [norm(inner)]))
    return out


def cost_shape(cls: str, method: str) -> list:
    """the column slices of the pixel-wise functions (`ad_cost`, `sd_cost`, `census_cost`): every subscript of
    `img_left["im"].data` / `img_right["im"].data`, and where the two band indices come from"""
    rel = FILES[cls]
    fn = find_method(find_class(parse(rel), cls), method)
    subs = []
    for n in ast.walk(fn):
        if isinstance(n, ast.Subscript) and norm(n.value) in ("img_left['im'].data", "img_right['im'].data"):
            subs.append(f"{norm(n.value)}[{norm(n.slice)}]")
    bands = []
    for n in ast.walk(fn):
        if isinstance(n, ast.Assign) and isinstance(n.targets[0], ast.Name) and n.targets[0].id.startswith("band_index"):
            bands.append(f"{n.targets[0].id} = {norm(n.value)}")
    return [("slices", sorted(set(subs))), ("bands", sorted(set(bands)))]


def shapes() -> dict:
    out = {}
    for cls in FILES:
        out[cls] = loop_shape(cls)
    out["ad_cost"] = cost_shape("SadSsd", "ad_cost")
    out["sd_cost"] = cost_shape("SadSsd", "sd_cost")
    out["census_cost"] = cost_shape("Census", "census_cost")
    return out


# ------------------------------------------------------------------------------------------------
BUILDERS = {"iRightCensus": lambda: i_right_kernel("Census"), "iRightSadSsd": lambda: i_right_kernel("SadSsd"),
            "iRightZncc": lambda: i_right_kernel("Zncc")}


def kernels():
    out, errors = {}, {}
    for name, build in BUILDERS.items():
        try:
            out[name] = build()
        except Unsupported as exc:
            errors[name] = str(exc)
    try:
        out.update(std_kernels())
    except Unsupported as exc:
        errors["pStd/qStd"] = str(exc)
    return out, errors


GOLDEN_IRIGHT = [(0, 1), (Fraction(1, 2), 2), (Fraction(-1, 2), 2), (Fraction(-5, 4), 4), (Fraction(7, 4), 4), (-3, 2), (Fraction(-1, 4), 4)]
GOLDEN_STD = [(0, 7, 2, 9, 3), (1, 2, 0, 1, 5), (3, 9, 0, 6, 1), (0, 0, 0, 0, 3), (2, 6, 0, 4, 5)]


def render(ks, errors, shp, shape_errors) -> str:
    from .common import lean_str
    from .gen_kernels import lean_value

    lines = [
        "-- GENERATED by translator/gen_kernels_mc.py (translator/pyexpr.py) from the Python source. Do not edit.",
        "import PandoraModel.Model.PyExpr",
        "set_option linter.unusedVariables false",
        "namespace Pandora.Generated.KernelsMc",
        "open Pandora",
        "",
    ]
    for name, k in ks.items():
        lines.append(f"/- {k.origin}")
        lines.append(k.source.replace("-/", "- /"))
        lines.append("-/")
        lines.append(pyexpr.render_lean(k, always_partial=False))
        for args in (GOLDEN_IRIGHT if name.startswith("iRight") else GOLDEN_STD):
            res, vals = pyexpr.evaluate(k, *args)
            actual = " ".join(f"({lean_value(v, ty)})" for v, (_, ty) in zip(args, k.lean_params))
            lines.append(f"example : {name} {actual} = {lean_value(vals[0], INT)} := by decide +kernel")
        lines.append("")
    for name, msg in errors.items():
        lines.append(f"-- NOT TRANSLATED: {name}: " + msg.replace("\n", " ").replace("-/", "- /"))
    lines.append("/-- what each disparity loop combines with what, and the column slices of the pixel-wise functions (source text) -/")
    lines.append("def shapes : List (String × List (String × List String)) := [")
    rows = []
    for key, entries in shp.items():
        inner = ", ".join(f"({lean_str(k)}, [{', '.join(lean_str(x) for x in v)}])" for k, v in entries)
        rows.append(f"  ({lean_str(key)}, [{inner}])")
    lines.append(",\n".join(rows))
    lines.append("]")
    for name, msg in shape_errors.items():
        lines.append(f"-- SHAPE NOT READ: {name}: " + msg.replace("\n", " ").replace("-/", "- /"))
    lines.append("")
    lines.append("end Pandora.Generated.KernelsMc")
    return "\n".join(lines) + "\n"


def read_shapes():
    shp, errs = {}, {}
    for key, build in ([(c, (lambda c=c: loop_shape(c))) for c in FILES]
                       + [("ad_cost", lambda: cost_shape("SadSsd", "ad_cost")), ("sd_cost", lambda: cost_shape("SadSsd", "sd_cost")),
                          ("census_cost", lambda: cost_shape("Census", "census_cost"))]):
        try:
            shp[key] = build()
        except Unsupported as exc:
            errs[key] = str(exc)
    return shp, errs


def generate():
    ks, errors = kernels()
    shp, shape_errors = read_shapes()
    write_if_changed("KernelsMc.lean", render(ks, errors, shp, shape_errors))
    if errors or shape_errors:
        raise Unsupported("; ".join(f"{n}: {m}" for n, m in {**errors, **shape_errors}.items()))
    return {"T12-mc": {"source": SRC, "digest": digest(*SRC), "kernels": sorted(ks), "shapes": sorted(shp)}}
