"""T14 (vector sub-language, translator/pyvec.py): the per-pixel bodies of the `prange` kernels of
pandora/cost_volume_confidence/ -> Generated/KernelsConf.lean.

    ambiguity.py        Ambiguity.compute_ambiguity            -> Pandora.Generated.KernelsConf.computeAmbiguityPx
    ambiguity.py        Ambiguity.compute_ambiguity_and_sampled_ambiguity -> computeAmbiguitySampledPx
    risk.py             Risk.compute_risk                      -> computeRiskPx
    risk.py             Risk.compute_risk_and_sampled_risk     -> computeRiskSampledPx
    interval_bounds.py  IntervalBounds.compute_interval_bounds -> computeIntervalBoundsPx

`computeAmbiguityPx cv min_cost max_cost etas : PyVec.Res Fl` is the value of `ambiguity[row, col]` as a function of the
pixel's cost curve `cv[row, col, :]`, the two global extremes (`np.nanmin(cv)`, `np.nanmax(cv)`: computed once in the
prelude, parameters here) and the eta grid.  The eta grid is a PARAMETER: this extractor pins that the source builds it with
`np.arange(_eta_min, _eta_max, _eta_step)` from the function's own parameters (the harness obtains the grid the kernels
really use from numba, see harness/impl/confidence.py `numba_etas`).  The Lean text is re-read from the Python source on every
run; `Properties/C12Kernels.lean` proves it equal to the hand model `Model/Confidence.lean` for every curve, grid and extremes.
"""
from __future__ import annotations

import ast
from fractions import Fraction

from . import pyvec
from .common import Unsupported, digest, find_class, find_method, parse, write_if_changed
from .gen_kernels import module_aliases
from .pyvec import FScalar, Slice3, Whole1

NAME = "KernelsConf"
DIR = "pandora/cost_volume_confidence/"

ETA = [FScalar("_eta_min"), FScalar("_eta_max"), FScalar("_eta_step")]
# (file, class, method, Lean name, parameters as the translator must read them, the hoisted grid it must find)
KERNELS = [
    (DIR + "ambiguity.py", "Ambiguity", "compute_ambiguity", "computeAmbiguityPx", [Slice3("cv")] + ETA,
     {"arange": "_eta_min,_eta_max,_eta_step"}),
    (DIR + "ambiguity.py", "Ambiguity", "compute_ambiguity_and_sampled_ambiguity", "computeAmbiguitySampledPx", [Slice3("cv")] + ETA,
     {"arange": "_eta_min,_eta_max,_eta_step"}),
    (DIR + "risk.py", "Risk", "compute_risk", "computeRiskPx", [Slice3("cv"), Slice3("sampled_ambiguity")] + ETA,
     {"arange": "_eta_min,_eta_max,_eta_step"}),
    (DIR + "risk.py", "Risk", "compute_risk_and_sampled_risk", "computeRiskSampledPx", [Slice3("cv"), Slice3("sampled_ambiguity")] + ETA,
     {"arange": "_eta_min,_eta_max,_eta_step"}),
    (DIR + "interval_bounds.py", "IntervalBounds", "compute_interval_bounds", "computeIntervalBoundsPx",
     [Slice3("cv"), Whole1("disp_interval"), FScalar("possibility_threshold"), FScalar("type_factor")], {}),
]
OPTIONAL = {"computeIntervalBoundsPx"}  # translated when inside the subset; its absence is reported, not fatal (see generate)


def check_njit(fn: ast.FunctionDef, rel: str):
    """`@staticmethod` + numba's njit/jit with a signature, `parallel=…`, `cache=…` only.  `parallel` is accepted: the body
    is a map over pixels (checked structurally by pyvec), its order independence is C18's subject.  error_model / fastmath /
    boundscheck would change the arithmetic and are refused."""
    seen = False
    for d in fn.decorator_list:
        if isinstance(d, ast.Name) and d.id == "staticmethod":
            continue
        call = d if isinstance(d, ast.Call) else None
        f = call.func if call else d
        name = f.id if isinstance(f, ast.Name) else (f.attr if isinstance(f, ast.Attribute) else None)
        if name not in ("njit", "jit"):
            raise Unsupported(f"{rel}: {fn.name}: unknown decorator `{ast.unparse(d)}`")
        seen = True
        for kw in (call.keywords if call else []):
            if kw.arg not in ("parallel", "cache"):
                raise Unsupported(f"{rel}: {fn.name}: `{kw.arg}=` in `{ast.unparse(d)}` may change the semantics")
    if not seen:
        raise Unsupported(f"{rel}: {fn.name} is not a numba kernel")


def kernel(entry):
    rel, cls, meth, lean, params, want = entry
    mod = parse(rel)
    numpy_names, _ = module_aliases(mod, rel)
    fn = find_method(find_class(mod, cls), meth)
    check_njit(fn, rel)
    k = pyvec.translate_vec_kernel(fn, lean, params, numpy_names=numpy_names)
    got = {kind: txt for kind, txt in k.hoisted.values() if kind == "arange"}
    if got != want:
        raise Unsupported(f"{rel}: {meth}: the eta grid is not built as np.arange({want.get('arange')}) (found {got})")
    kinds = sorted(kind for kind, _ in k.hoisted.values() if kind != "arange")
    if kinds != ["gmax", "gmin"] or {a for kind, a in k.hoisted.values() if kind != "arange"} != {"cv"}:
        raise Unsupported(f"{rel}: {meth}: expected exactly np.nanmin(cv) and np.nanmax(cv) in the prelude (found {k.hoisted})")
    k.origin = f"{rel}: {cls}.{meth}"
    return k


def kernels(strict=True):
    """-> {lean name: pyvec.VecKernel} read from the source tree now"""
    out = {}
    problems = {}
    for entry in KERNELS:
        try:
            out[entry[3]] = kernel(entry)
        except Unsupported as exc:
            if strict and entry[3] not in OPTIONAL:
                raise
            problems[entry[3]] = str(exc)
    kernels.problems = problems
    return out


# ---- golden values: what pyvec's evaluator computes on a few inputs, checked by Lean when the file is built
N = None  # NaN
GOLDEN = {
    "computeAmbiguityPx": [
        {"cv": [0, 1, N], "min_cost": 0, "max_cost": 4, "etas": [0, Fraction(1, 4)]},
        {"cv": [N, N, N], "min_cost": 0, "max_cost": 4, "etas": [0, Fraction(1, 4)]},
        {"cv": [4, 2, 2, 3], "min_cost": 0, "max_cost": 4, "etas": [0, Fraction(1, 4), Fraction(1, 2)]},
        {"cv": [1, 1], "min_cost": 1, "max_cost": 1, "etas": [0, Fraction(1, 2)]},
        {"cv": [], "min_cost": 0, "max_cost": 1, "etas": [0]},
        {"cv": [3, 5], "min_cost": 3, "max_cost": 5, "etas": []},
    ],
    "computeAmbiguitySampledPx": [
        {"cv": [0, 1, N], "min_cost": 0, "max_cost": 4, "etas": [0, Fraction(1, 4)]},
        {"cv": [N, N, N], "min_cost": 0, "max_cost": 4, "etas": [0, Fraction(1, 4)]},
        {"cv": [4, 2, 2, 3], "min_cost": 0, "max_cost": 4, "etas": [0, Fraction(1, 4), Fraction(1, 2)]},
        {"cv": [1, 1], "min_cost": 1, "max_cost": 1, "etas": [0, Fraction(1, 2)]},
        {"cv": [], "min_cost": 0, "max_cost": 1, "etas": [0]},
    ],
    "computeRiskPx": [
        {"cv": [0, 1, N], "sampled_ambiguity": [2, 3], "min_cost": 0, "max_cost": 4, "etas": [0, Fraction(1, 4)]},
        {"cv": [N, N], "sampled_ambiguity": [2, 2], "min_cost": 0, "max_cost": 4, "etas": [0, Fraction(1, 4)]},
        {"cv": [4, 2, 2, 3], "sampled_ambiguity": [2, 3, 4], "min_cost": 0, "max_cost": 4, "etas": [0, Fraction(1, 4), Fraction(1, 2)]},
        {"cv": [2, 0, 4, 0], "sampled_ambiguity": [2], "min_cost": 0, "max_cost": 4, "etas": [0, Fraction(1, 2)]},
    ],
    "computeRiskSampledPx": [
        {"cv": [0, 1, N], "sampled_ambiguity": [2, 3], "min_cost": 0, "max_cost": 4, "etas": [0, Fraction(1, 4)]},
        {"cv": [N, N], "sampled_ambiguity": [2, 2], "min_cost": 0, "max_cost": 4, "etas": [0, Fraction(1, 4)]},
        {"cv": [4, 2, 2, 3], "sampled_ambiguity": [2, 3, 4], "min_cost": 0, "max_cost": 4, "etas": [0, Fraction(1, 4), Fraction(1, 2)]},
        {"cv": [2, 0, 4, 0], "sampled_ambiguity": [2], "min_cost": 0, "max_cost": 4, "etas": [0, Fraction(1, 2)]},
    ],
    "computeIntervalBoundsPx": [
        {"cv": [0, 1, N], "disp_interval": [-1, 0, 1], "possibility_threshold": Fraction(1, 2), "type_factor": -1, "min_cost": 0, "max_cost": 4},
        {"cv": [N, N, N], "disp_interval": [-1, 0, 1], "possibility_threshold": Fraction(1, 2), "type_factor": -1, "min_cost": 0, "max_cost": 4},
        {"cv": [4, 2, 0, 3], "disp_interval": [-2, -1, 0, 1], "possibility_threshold": Fraction(3, 4), "type_factor": -1, "min_cost": 0, "max_cost": 4},
        {"cv": [4, 2, 0, 3], "disp_interval": [-2, -1, 0, 1], "possibility_threshold": Fraction(3, 4), "type_factor": 1, "min_cost": 0, "max_cost": 4},
        {"cv": [1, 2], "disp_interval": [0], "possibility_threshold": 0, "type_factor": -1, "min_cost": 1, "max_cost": 2},
    ],
}


def exact(v):
    if isinstance(v, list):
        return [exact(x) for x in v]
    return pyvec.FNAN if v is None else (v if isinstance(v, str) else Fraction(v))


def fl_lean(v) -> str:
    if v == pyvec.FNAN:
        return "PyLoops.Fl.nan"
    if v == pyvec.PINF:
        return "PyLoops.Fl.pinf"
    if v == pyvec.NINF:
        return "PyLoops.Fl.ninf"
    return pyvec.lit_fl(Fraction(v))[1:-1]


def value_lean(v, ty) -> str:
    if ty == pyvec.VFL:
        return "[" + ", ".join(fl_lean(x) for x in v) + "]"
    return "(" + fl_lean(v) + ")"


# the sorting function handed to the generated definitions in the `example`s: a concrete insertion sort of the indices is
# not needed — any function returning a permutation of the indices gives the same value; the examples use the identity order
ARGSORT_LEAN = "(fun v => PyVec.arange (PyVec.len v))"


def golden(k) -> list:
    out = []
    for g in GOLDEN.get(k.lean_name, []):
        # the golden inputs are keyed by ROLE (a renamed prelude local must not matter): hoisted values by kind
        by_role = {"gmin": "min_cost", "gmax": "max_cost", "arange": "etas"}
        args = {}
        for n, _, role in k.lean_params:
            kind, _, what = role.partition(":")
            if kind != "argsort":
                args[n] = exact(g[by_role.get(kind, what)])
        res, vals = pyvec.evaluate_px(k, args, argsort=lambda v: list(range(len(v))))
        actual = []
        for n, ty, role in k.lean_params:
            actual.append(ARGSORT_LEAN if role == "argsort" else value_lean(args[n], pyvec.VFL if ty.startswith("List") else pyvec.FL))
        if res != "ok":
            rhs = "PyVec.Res.shapeError"
        else:
            cells = [value_lean(v, ty) for v, (_, ty) in zip(vals, k.cells)]
            rhs = "PyVec.Res.ok " + (cells[0] if len(cells) == 1 else "(" + ", ".join(cells) + ")")
        out.append(f"example : {k.lean_name} {' '.join(actual)} = {rhs} := by decide +kernel")
    return out


def python_comment(k) -> str:
    try:
        fn = ast.parse(k.source).body[0]
        if fn.body and isinstance(fn.body[0], ast.Expr) and isinstance(getattr(fn.body[0], "value", None), ast.Constant) \
                and isinstance(fn.body[0].value.value, str):
            fn.body = fn.body[1:] or [ast.Pass()]
        text = ast.unparse(fn)
    except Exception:  # pylint: disable=broad-except
        text = k.source
    return text.replace("-/", "- /").replace("/-", "/ -")


def render(ks) -> str:
    lines = [
        "-- GENERATED by translator/gen_kernels_conf.py (translator/pyvec.py) from the Python source. Do not edit.",
        "import PandoraModel.Model.PyVec",
        "set_option linter.unusedVariables false",
        "namespace Pandora.Generated.KernelsConf",
        "open Pandora",
        "",
    ]
    for name, k in ks.items():
        lines.append(f"/- {k.origin}   (per-pixel function of the map kernel: pixel loops over `{k.pixel_vars[0]}`, `{k.pixel_vars[1]}`"
                     f"{', written with prange' if k.prange else ''})")
        lines.append("   parameters: " + "; ".join(f"{n} = {role}" for n, _, role in k.lean_params))
        lines.append(python_comment(k))
        for note in sorted(set(k.notes)):
            lines.append(f"   note: {note.replace('-/', '- /')}")
        lines.append("-/")
        lines.append(pyvec.render_lean(k))
        lines.append("-- what translator/pyvec.py's own evaluator computes on a few inputs, checked here by evaluation")
        lines += golden(k)
        lines.append("")
    lines.append(f"/-- the kernels translated in this run -/")
    lines.append("def translated : List String := [" + ", ".join(f'"{n}"' for n in ks) + "]")
    lines.append("")
    lines.append("end Pandora.Generated.KernelsConf")
    return "\n".join(lines) + "\n"


def generate():
    ks = kernels()
    write_if_changed("KernelsConf.lean", render(ks))
    srcs = sorted({e[0] for e in KERNELS})
    return {"T14v": {"source": srcs, "digest": digest(*srcs), "kernels": sorted(ks), "refused": dict(kernels.problems)}}
