"""T2b (C14): the data of the four filling kernels of pandora/validation/interpolated_disparity.py and of
find_valid_neighbors (pandora/img_tools.py) -> Generated/Interp.lean

Extracted with `ast` only: the direction tables (`dirs = np.array([...])`), the flag updates
(`out_val[col, row] -= cst.X [* msk[arg_valid]]`, then `+= cst.Y` or `|= cst.Y`), the operator that raises a bit
(`+` or `|`, the same everywhere), the constants tested (`valid[...] & cst.X`), the bounds of the path loops
(`range(1, max_path_length)` / `range(max_path_length)`), the initial value of the mc-cnn accumulator (`np.zeros(16)` /
`np.full(16, np.nan)`), the guards under which a pixel is filled (`if np.isfinite(...).any():` …) and the order of the
two passes of each method.
"""
from __future__ import annotations

import ast
from fractions import Fraction

from .common import Unsupported, digest, find_class, find_function, find_method, lean_list, lean_str, parse, write_if_changed

NAME = "Interp"
SRC = "pandora/validation/interpolated_disparity.py"
SRC2 = "pandora/img_tools.py"

KERNELS = [
    ("McCnnInterpolation", "interpolate_occlusion_mc_cnn"),
    ("McCnnInterpolation", "interpolate_mismatch_mc_cnn"),
    ("SgmInterpolation", "interpolate_mismatch_sgm"),
    ("SgmInterpolation", "interpolate_occlusion_sgm"),
]


def number(node):
    if isinstance(node, ast.UnaryOp) and isinstance(node.op, ast.USub):
        return -number(node.operand)
    if isinstance(node, ast.Constant) and isinstance(node.value, (int, float)) and not isinstance(node.value, bool):
        return Fraction(node.value)
    raise Unsupported(f"direction table: unsupported entry {ast.dump(node)[:60]}")


def dirs_of(fn: ast.FunctionDef):
    for node in ast.walk(fn):
        if isinstance(node, ast.Assign) and len(node.targets) == 1 and isinstance(node.targets[0], ast.Name) \
                and node.targets[0].id == "dirs":
            call = node.value
            if not (isinstance(call, ast.Call) and isinstance(call.func, ast.Attribute) and call.func.attr == "array"
                    and len(call.args) == 1 and isinstance(call.args[0], ast.List)):
                raise Unsupported(f"{fn.name}: dirs is not np.array([...])")
            rows = []
            for row in call.args[0].elts:
                if not (isinstance(row, ast.List) and len(row.elts) == 2):
                    raise Unsupported(f"{fn.name}: a direction is not a pair")
                rows.append([number(e) for e in row.elts])
            return rows
    return None


def cst_name(node):
    if isinstance(node, ast.Attribute) and isinstance(node.value, ast.Name) and node.value.id == "cst":
        return node.attr
    return None


def flag_ops(fn: ast.FunctionDef):
    """[(op, constant, multiplied_by_found_mask)] in source order"""
    out = []
    for node in ast.walk(fn):
        if isinstance(node, ast.AugAssign) and isinstance(node.target, ast.Subscript) \
                and isinstance(node.target.value, ast.Name) and node.target.value.id == "out_val":
            if isinstance(node.op, ast.Sub):
                op = "-"
            elif isinstance(node.op, ast.Add):
                op = "+"
            elif isinstance(node.op, ast.BitOr):
                op = "|"
            else:
                raise Unsupported(f"{fn.name}: unsupported update operator on out_val: {type(node.op).__name__}")
            idx = ast.unparse(node.target.slice)
            if idx.replace(" ", "") not in ("col,row", "(col,row)"):
                raise Unsupported(f"{fn.name}: out_val is updated at [{idx}], expected [col, row]")
            v = node.value
            name = cst_name(v)
            masked = False
            if name is None and isinstance(v, ast.BinOp) and isinstance(v.op, ast.Mult):
                name = cst_name(v.left)
                masked = ast.unparse(v.right).replace(" ", "") == "msk[arg_valid]"
                if not masked:
                    name = None
            if name is None:
                raise Unsupported(f"{fn.name}: unsupported update value {ast.unparse(v)[:60]}")
            out.append((node.lineno, node.col_offset, op, name, masked))
        elif isinstance(node, ast.Assign):
            for t in node.targets:
                if isinstance(t, ast.Subscript) and isinstance(t.value, ast.Name) and t.value.id == "out_val":
                    raise Unsupported(f"{fn.name}: plain assignment to out_val")
    out.sort()
    return [(op, name, masked) for (_l, _c, op, name, masked) in out]


def acc_init(fn: ast.FunctionDef):
    """how `interp_mismatched` is initialised: "zeros" or "nan" """
    for node in ast.walk(fn):
        if isinstance(node, ast.Assign) and len(node.targets) == 1 and isinstance(node.targets[0], ast.Name) \
                and node.targets[0].id == "interp_mismatched":
            src = ast.unparse(node.value).replace(" ", "")
            if src.startswith("np.zeros(16,"):
                return "zeros"
            if src.startswith("np.full(16,np.nan,"):
                return "nan"
            raise Unsupported(f"{fn.name}: unsupported accumulator initialisation {src[:60]}")
    raise Unsupported(f"{fn.name}: accumulator interp_mismatched not found")


def guards(fn: ast.FunctionDef):
    """tests of the `if` statements that directly enclose an update of out_val, other than the flag tests
    (`valid[...] & cst.X`), the mask test of the occlusion kernel (`arg_valid == 0`) and the 3x3 test of sgm, in source order"""
    out = []
    for node in ast.walk(fn):
        if isinstance(node, ast.If):
            direct = any(isinstance(b, ast.AugAssign) and isinstance(b.target, ast.Subscript)
                         and isinstance(b.target.value, ast.Name) and b.target.value.id == "out_val"
                         for b in node.body + node.orelse)
            if not direct:
                continue
            test = ast.unparse(node.test).replace("\n", " ")
            if "cst." in test or test.replace(" ", "") == "arg_valid==0":
                continue
            out.append((node.lineno, test))
    out.sort()
    return [t for (_l, t) in out]


def tested(fn: ast.FunctionDef):
    """constants that are and-ed with the mask inside a comparison, in source order"""
    out = []
    for node in ast.walk(fn):
        if isinstance(node, ast.BinOp) and isinstance(node.op, ast.BitAnd):
            name = cst_name(node.right)
            if name is None:
                raise Unsupported(f"{fn.name}: `&` with something that is not a cst.* constant: {ast.unparse(node)[:60]}")
            out.append((node.lineno, node.col_offset, name))
        if isinstance(node, ast.BinOp) and isinstance(node.op, (ast.BitOr, ast.BitXor)) and cst_name(node.right):
            raise Unsupported(f"{fn.name}: unsupported bit operation {ast.unparse(node)[:60]}")
    out.sort()
    return [n for (_l, _c, n) in out]


def path_ranges(fn: ast.FunctionDef):
    out = []
    for node in ast.walk(fn):
        if isinstance(node, ast.For) and isinstance(node.target, ast.Name) and node.target.id == "i":
            if not (isinstance(node.iter, ast.Call) and isinstance(node.iter.func, ast.Name) and node.iter.func.id == "range"):
                raise Unsupported(f"{fn.name}: path loop is not a range()")
            out.append([ast.unparse(a) for a in node.iter.args])
    return out


def path_bounds(fn: ast.FunctionDef):
    """every assignment to the name the path loops are bounded by (`max_path_length = max(nrow, ncol)`), and the
    unpacking that defines its operands (`ncol, nrow = disp.shape`), as normalised source text in source order"""
    out = []
    for node in ast.walk(fn):
        if isinstance(node, (ast.Assign, ast.AugAssign, ast.AnnAssign)):
            targets = node.targets if isinstance(node, ast.Assign) else [node.target]
            names = {n.id for t in targets for n in ast.walk(t) if isinstance(n, ast.Name)}
            if "max_path_length" in names:
                out.append((node.lineno, ast.unparse(node).replace(" ", "")))
    out.sort()
    return [t for (_l, t) in out]


def pass_order(cls: ast.ClassDef):
    """the kernels called by `interpolated_disparity`, in order, and whether mask_border follows"""
    fn = find_method(cls, "interpolated_disparity")
    calls = []
    for node in ast.walk(fn):
        if isinstance(node, ast.Call) and isinstance(node.func, ast.Attribute) and isinstance(node.func.value, ast.Name) \
                and node.func.value.id == "self" and node.func.attr.startswith("interpolate_"):
            calls.append((node.lineno, node.func.attr, [ast.unparse(a) for a in node.args]))
        if isinstance(node, ast.Call) and isinstance(node.func, ast.Name) and node.func.id == "mask_border":
            calls.append((node.lineno, "mask_border", []))
    calls.sort()
    for _l, name, args in calls:
        if name != "mask_border" and [a.replace(" ", "").replace('"', "'") for a in args] != \
                ["left['disparity_map'].data", "left['validity_mask'].data"]:
            raise Unsupported(f"{cls.name}.interpolated_disparity: {name} is not applied to the map and mask of `left`")
    return [name for (_l, name, _a) in calls]


def extract():
    mod = parse(SRC)
    data = {"dirs": {}, "ops": {}, "tested": {}, "ranges": {}, "order": {}, "guards": {}, "bounds": {}}
    for cls_name, fn_name in KERNELS:
        cls = find_class(mod, cls_name)
        fn = find_method(cls, fn_name)
        d = dirs_of(fn)
        if d is not None:
            data["dirs"][fn_name] = d
        data["ops"][fn_name] = flag_ops(fn)
        data["tested"][fn_name] = tested(fn)
        data["ranges"][fn_name] = path_ranges(fn)
        data["bounds"][fn_name] = path_bounds(fn)
        data["guards"][fn_name] = guards(fn)
        if fn_name == "interpolate_mismatch_mc_cnn":
            data["acc_init"] = acc_init(fn)
    raising = {op for ops in data["ops"].values() for (op, _n, _m) in ops if op != "-"}
    if len(raising) != 1:
        raise Unsupported(f"the kernels raise their bits with different operators: {sorted(raising)}")
    data["raise_op"] = raising.pop()
    for cls_name in ("McCnnInterpolation", "SgmInterpolation"):
        data["order"][cls_name] = pass_order(find_class(mod, cls_name))
    fvn = find_function(parse(SRC2), "find_valid_neighbors")
    data["tested"]["find_valid_neighbors"] = tested(fvn)
    data["ranges"]["find_valid_neighbors"] = path_ranges(fvn)
    data["bounds"]["find_valid_neighbors"] = path_bounds(fvn)
    return data


def lean_dirs(rows, doubled):
    items = []
    for a, b in rows:
        if doubled:
            a, b = a * 2, b * 2
        if a.denominator != 1 or b.denominator != 1:
            raise Unsupported("direction table: entries are not multiples of " + ("1/2" if doubled else "1"))
        items.append(f"({a.numerator}, {b.numerator})")
    return lean_list(items)


def render(data) -> str:
    lines = [
        "-- GENERATED by translator/gen_interp.py from pandora/validation/interpolated_disparity.py and",
        "-- pandora/img_tools.py. Do not edit.",
        "namespace Pandora.Generated.Interp",
        "",
        "/-- `dirs` of interpolate_mismatch_mc_cnn, every entry doubled -/",
        f"def dirsMismatchMcCnnDoubled : List (Int × Int) := {lean_dirs(data['dirs'].get('interpolate_mismatch_mc_cnn', []), True)}",
        f"def dirsMismatchSgm : List (Int × Int) := {lean_dirs(data['dirs'].get('interpolate_mismatch_sgm', []), False)}",
        f"def dirsOcclusionSgm : List (Int × Int) := {lean_dirs(data['dirs'].get('interpolate_occlusion_sgm', []), False)}",
        "",
        "/-- per kernel: the updates of `out_val[col, row]` in source order: (operator, constant, `* msk[arg_valid]`) -/",
        "def flagOps : List (String × List (String × String × Bool)) := [",
    ]
    rows = []
    for fn, ops in data["ops"].items():
        items = [f"({lean_str(op)}, {lean_str(name)}, {'true' if masked else 'false'})" for op, name, masked in ops]
        rows.append(f"  ({lean_str(fn)}, {lean_list(items)})")
    lines.append(",\n".join(rows))
    lines.append("]")
    lines.append("")
    lines.append("/-- per function: the constants and-ed with the validity mask, in source order -/")
    lines.append("def tested : List (String × List String) := [")
    lines.append(",\n".join(f"  ({lean_str(fn)}, {lean_list([lean_str(n) for n in names])})" for fn, names in data["tested"].items()))
    lines.append("]")
    lines.append("")
    lines.append("/-- per function: the arguments of the `for i in range(...)` path loops -/")
    lines.append("def pathRanges : List (String × List (List String)) := [")
    lines.append(",\n".join(
        f"  ({lean_str(fn)}, {lean_list([lean_list([lean_str(a) for a in args]) for args in rngs])})"
        for fn, rngs in data["ranges"].items()))
    lines.append("]")
    lines.append("")
    lines.append("/-- per function: every assignment to `max_path_length`, the bound of the path loops -/")
    lines.append("def pathBounds : List (String × List String) := [")
    lines.append(",\n".join(f"  ({lean_str(fn)}, {lean_list([lean_str(n) for n in b])})" for fn, b in data["bounds"].items()))
    lines.append("]")
    lines.append("")
    lines.append("/-- the operator with which a kernel raises the new bit: \"+\" (`+=`) or \"|\" (`|=`) -/")
    lines.append(f"def raiseOp : String := {lean_str(data['raise_op'])}")
    lines.append("")
    lines.append("/-- `interp_mismatched = np.zeros(16, …)` (\"zeros\") or `np.full(16, np.nan, …)` (\"nan\") -/")
    lines.append(f"def accInit : String := {lean_str(data['acc_init'])}")
    lines.append("")
    lines.append("/-- per kernel: the conditions under which a flagged pixel is filled (beyond the flag tests) -/")
    lines.append("def guards : List (String × List String) := [")
    lines.append(",\n".join(f"  ({lean_str(fn)}, {lean_list([lean_str(t) for t in ts])})" for fn, ts in data["guards"].items()))
    lines.append("]")
    lines.append("")
    lines.append("/-- per method: what `interpolated_disparity` calls, in order -/")
    lines.append("def passOrder : List (String × List String) := [")
    lines.append(",\n".join(f"  ({lean_str(c)}, {lean_list([lean_str(n) for n in names])})" for c, names in data["order"].items()))
    lines.append("]")
    lines.append("")
    lines.append("end Pandora.Generated.Interp")
    return "\n".join(lines) + "\n"


def generate():
    data = extract()
    write_if_changed("Interp.lean", render(data))
    return {"T2b": {"source": [SRC, SRC2], "digest": digest(SRC, SRC2), "kernels": len(data["ops"]),
                    "raise_op": data["raise_op"], "variant": variant_of(data)}}


EXPECTED_GUARDS = {
    "interpolate_occlusion_mc_cnn": [],
    "interpolate_mismatch_mc_cnn": ["np.isfinite(interp_mismatched).any()"],
    "interpolate_mismatch_sgm": ["np.isfinite(valid_neighbors).any()"],
    "interpolate_occlusion_sgm": ["np.sum(np.isfinite(valid_neighbors)) >= 2"],
}


def variant_of(data) -> str:
    """the variant of the Lean model that reads like this source: "guard+or", "guard+add", "noguard+or", "noguard+add";
    "unknown" when the guards are neither all there nor all absent (the proof obligation `source_variant` then fails)"""
    op = {"+": "add", "|": "or"}[data["raise_op"]]
    if data["acc_init"] == "nan" and data["guards"] == EXPECTED_GUARDS:
        return "guard+" + op
    if data["acc_init"] == "zeros" and all(not g for g in data["guards"].values()):
        return "noguard+" + op
    return "unknown"
