"""T15 (multiscale, round 2): what happens to the maps `disparity_range` returns, the pyramid sizes and the multiscale
parameters -> Generated/KernelsMultiscaleGlue.lean  (strict structural readers + translator/pyexpr.py).

  state_machine.py   run_multiscale      `self.dmin_user = self.dmin_user * self.scale_factor` (pyexpr), the call
                                         `self.disp_min, self.disp_max = multiscale_.disparity_range(self.left_disparity, self.dmin_user,
                                         self.dmax_user)` (which attribute receives which returned map, which arguments are passed),
                                         the constructor call of the multiscale object
                     matching_cost_prepare  `self.disp_min = self.disp_min * self.scale_factor` applied to a GRID: the scalar kernel of
                                         gen_kernels_multiscale, element by element (numpy broadcasting of a scalar)
  matching_cost.py   cv_masked           `if disp_min.shape[0] > ny_: disp_min = disp_min[lo:ny_, :]; disp_max = …` and the axis-1
                                         analogue -> shape and offsets of the cropped grids (`cvMaskedCrop`)
  img_tools.py       prepare_pyramid     the keyword arguments of the two `pyramid_gaussian` calls (pinned), `max_layer`, `downscale`,
                                         the final `[::-1]`;  `pyramid_gaussian` itself is an UNINTERPRETED library function
                     convert_pyramid_to_dataset  per level: level 0 IS the original dataset, the others hold fresh arrays
                                         (`image.astype(np.float32)`, `np.full(shape, masks[index].astype(np.int16))`), `attrs` shared;
                                         no statement stores into the original dataset -> a program over the store of Model/PyArr.lean
  check_configuration.py  read_multiscale_params   whole body with pyexpr (record atoms), the constructor call pinned
"""
from __future__ import annotations

import ast
from fractions import Fraction

from . import gen_blocks, gen_kernels, pyexpr
from .common import Unsupported, digest, find_class, find_function, find_method, lean_str, parse, read_source, write_if_changed
from .pyexpr import Param

NAME = "KernelsMultiscaleGlue"
SM_REL = "pandora/state_machine.py"
MC_REL = "pandora/matching_cost/matching_cost.py"
IT_REL = "pandora/img_tools.py"
CC_REL = "pandora/check_configuration.py"
RAT, INT, BOOL = pyexpr.RAT, pyexpr.INT, pyexpr.BOOL


def _d(node):
    return gen_blocks._dotted(node)  # pylint: disable=protected-access


def _u(node):
    return ast.unparse(node)


# ---------------------------------------------------------------------------------------------
# run_multiscale
# ---------------------------------------------------------------------------------------------
def read_run_multiscale():
    where = f"{SM_REL}: PandoraMachine.run_multiscale"
    fn = find_method(find_class(parse(SM_REL), "PandoraMachine"), "run_multiscale")
    src = read_source(SM_REL)
    ks, wiring, ctor = {}, {}, None
    for n in ast.walk(fn):
        if isinstance(n, ast.Assign) and len(n.targets) == 1:
            t, v = n.targets[0], n.value
            if isinstance(t, ast.Name) and isinstance(v, ast.Call) and _d(v.func).endswith("AbstractMultiscale"):
                if ctor is not None:
                    raise Unsupported(f"{where}: two multiscale objects are built")
                kw = [k for k in v.keywords if k.arg is None]
                ctor = {"name": t.id, "args": [_u(a) for a in v.args], "kwargs": [_u(k.value) for k in kw],
                        "other": [k.arg for k in v.keywords if k.arg is not None]}
            elif isinstance(t, ast.Tuple) and isinstance(v, ast.Call) and isinstance(v.func, ast.Attribute) and v.func.attr == "disparity_range":
                side = "right" if "right" in _u(t) else "left"
                if side in wiring or v.keywords or not all(_d(e).startswith("self.") for e in t.elts):
                    raise Unsupported(f"{where}: unsupported disparity_range call {_u(n)[:80]}")
                wiring[side] = {"object": _d(v.func.value), "targets": [_d(e)[5:] for e in t.elts], "args": [_d(a)[5:] if _d(a).startswith("self.") else _u(a) for a in v.args]}
            elif _d(t) in ("self.dmin_user", "self.dmax_user", "self.dmin_user_right", "self.dmax_user_right"):
                attr = _d(t)[5:]
                lean = {"dmin_user": "msUserMin", "dmax_user": "msUserMax", "dmin_user_right": "msUserRightMin", "dmax_user_right": "msUserRightMax"}[attr]
                if lean in ks:
                    raise Unsupported(f"{where}: self.{attr} assigned twice")
                k = pyexpr.translate_expression(v, lean, [(f"self.{attr}", "bound", RAT), ("self.scale_factor", "scale_factor", INT)],
                                                source_text=src, py_name=f"run_multiscale: `{_u(n)}`")
                k.origin = f"{where}, `{_u(n)}`"
                ks[lean] = k
    if ctor is None or "left" not in wiring or set(ks) < {"msUserMin", "msUserMax"}:
        raise Unsupported(f"{where}: the multiscale object, the disparity_range call or the user-bound updates were not found")
    for w in wiring.values():
        if w["object"] != ctor["name"]:
            raise Unsupported(f"{where}: disparity_range is not called on the object built in this method")
    # order: the user bounds are multiplied BEFORE the call that receives them
    lines = {}
    for n in ast.walk(fn):
        if isinstance(n, ast.Assign) and len(n.targets) == 1:
            lines.setdefault(_u(n.targets[0]), n.lineno)
    if not (lines.get("self.dmin_user", 10**9) < lines.get("(self.disp_min, self.disp_max)", lines.get("self.disp_min, self.disp_max", -1))):
        call_line = min(n.lineno for n in ast.walk(fn) if isinstance(n, ast.Assign) and isinstance(n.value, ast.Call)
                        and isinstance(n.value.func, ast.Attribute) and n.value.func.attr == "disparity_range")
        if not lines.get("self.dmin_user", 10**9) < call_line or not lines.get("self.dmax_user", 10**9) < call_line:
            raise Unsupported(f"{where}: the user bounds are not updated before disparity_range is called")
    return {"kernels": ks, "wiring": wiring, "ctor": ctor}


# ---------------------------------------------------------------------------------------------
# cv_masked: the crop of the two grids
# ---------------------------------------------------------------------------------------------
def read_cv_crop():
    where = f"{MC_REL}: AbstractMatchingCost.cv_masked"
    fn = find_method(find_class(parse(MC_REL), "AbstractMatchingCost"), "cv_masked")
    dims = None
    for n in ast.walk(fn):
        if (isinstance(n, ast.Assign) and isinstance(n.targets[0], ast.Tuple) and _d(n.value) == 'cost_volume["cost_volume"].shape'
                and len(n.targets[0].elts) == 3 and all(isinstance(e, ast.Name) for e in n.targets[0].elts)):
            dims = [e.id for e in n.targets[0].elts]
    if dims is None:
        raise Unsupported(f"{where}: `ny_, nx_, nd_ = cost_volume[\"cost_volume\"].shape` not found")
    steps = []  # (tested var, axis, bound dim index, [(var, axis, lo, hi dim index)])
    grids = ("disp_min", "disp_max")
    for st in fn.body:
        touches = any(isinstance(x, (ast.Assign, ast.AugAssign)) and any(isinstance(t, ast.Name) and t.id in grids for t in (
            x.targets if isinstance(x, ast.Assign) else [x.target])) for x in ast.walk(st))
        if not touches:
            continue
        if not (isinstance(st, ast.If) and not st.orelse):
            raise Unsupported(f"{where}: disp_min / disp_max rebound outside the crop ifs: {_u(st)[:60]}")
        t = st.test
        ok = (isinstance(t, ast.Compare) and len(t.ops) == 1 and isinstance(t.ops[0], ast.Gt) and isinstance(t.left, ast.Subscript)
              and isinstance(t.left.value, ast.Attribute) and t.left.value.attr == "shape" and isinstance(t.left.value.value, ast.Name)
              and t.left.value.value.id in grids and isinstance(t.left.slice, ast.Constant) and t.left.slice.value in (0, 1)
              and isinstance(t.comparators[0], ast.Name) and t.comparators[0].id in dims[:2])
        if not ok:
            raise Unsupported(f"{where}: unsupported crop test {_u(t)[:60]}")
        body = []
        for b in st.body:
            okb = (isinstance(b, ast.Assign) and len(b.targets) == 1 and isinstance(b.targets[0], ast.Name) and b.targets[0].id in grids
                   and isinstance(b.value, ast.Subscript) and isinstance(b.value.value, ast.Name) and b.value.value.id == b.targets[0].id
                   and isinstance(b.value.slice, ast.Tuple) and len(b.value.slice.elts) == 2 and all(isinstance(e, ast.Slice) for e in b.value.slice.elts))
            if not okb:
                raise Unsupported(f"{where}: unsupported crop statement {_u(b)[:60]}")
            for axis, sl in enumerate(b.value.slice.elts):
                if sl.step is not None:
                    raise Unsupported(f"{where}: slice with a step")
                if sl.lower is None and sl.upper is None:
                    continue
                lo = 0 if sl.lower is None else (sl.lower.value if isinstance(sl.lower, ast.Constant) and type(sl.lower.value) is int and sl.lower.value >= 0 else None)  # noqa: E721
                if lo is None or not (isinstance(sl.upper, ast.Name) and sl.upper.id in dims[:2]):
                    raise Unsupported(f"{where}: unsupported slice bounds in {_u(b)[:60]}")
                body.append((b.targets[0].id, axis, lo, dims.index(sl.upper.id)))
        steps.append((t.left.value.value.id, t.left.slice.value, dims.index(t.comparators[0].id), body))
    if not steps:
        raise Unsupported(f"{where}: no crop of disp_min / disp_max found")
    return {"steps": steps, "dims": dims}


def render_cv_crop(cc):
    out = ["/-- shapes and first-sample offsets of `disp_min`, `disp_max` after the crop ifs of `cv_masked` (`ny nx`: the first two",
           "    dimensions of the cost volume); Python slice `a[lo:hi]` of length `L` has `min hi L - min lo L` samples from `min lo L` -/",
           "def cvMaskedCrop (ny nx : Nat) (shMin shMax : Nat × Nat) : ((Nat × Nat) × (Nat × Nat)) × ((Nat × Nat) × (Nat × Nat)) :=",
           "  let smin0 := shMin", "  let omin0 : Nat × Nat := (0, 0)", "  let smax0 := shMax", "  let omax0 : Nat × Nat := (0, 0)"]
    k = {"disp_min": 0, "disp_max": 0}
    nm = {"disp_min": "min", "disp_max": "max"}
    dim = ["ny", "nx"]
    for i, (tv, tax, tdim, body) in enumerate(cc["steps"]):
        out.append(f"  let c{i} : Bool := decide (s{nm[tv]}{k[tv]}.{tax + 1} > {dim[tdim]})   -- if {tv}.shape[{tax}] > {cc['dims'][tdim]}:")
        for (v, axis, lo, hidim) in body:
            s, o, j = f"s{nm[v]}{k[v]}", f"o{nm[v]}{k[v]}", k[v] + 1
            length = f"(min {dim[hidim]} {s}.{axis + 1} - min {lo} {s}.{axis + 1})"
            off = f"(min {lo} {s}.{axis + 1})"
            if axis == 0:
                out.append(f"  let s{nm[v]}{j} := if c{i} then ({length}, {s}.2) else {s}")
                out.append(f"  let o{nm[v]}{j} := if c{i} then ({o}.1 + {off}, {o}.2) else {o}")
            else:
                out.append(f"  let s{nm[v]}{j} := if c{i} then ({s}.1, {length}) else {s}")
                out.append(f"  let o{nm[v]}{j} := if c{i} then ({o}.1, {o}.2 + {off}) else {o}")
            k[v] = j
    out.append(f"  ((smin{k['disp_min']}, omin{k['disp_min']}), (smax{k['disp_max']}, omax{k['disp_max']}))")
    return "\n".join(out)


def eval_cv_crop(cc, ny, nx, sh_min, sh_max):
    s = {"disp_min": list(sh_min), "disp_max": list(sh_max)}
    o = {"disp_min": [0, 0], "disp_max": [0, 0]}
    dim = [ny, nx]
    for (tv, tax, tdim, body) in cc["steps"]:
        if s[tv][tax] > dim[tdim]:
            for (v, axis, lo, hidim) in body:
                L = s[v][axis]
                o[v][axis] += min(lo, L)
                s[v][axis] = max(min(dim[hidim], L) - min(lo, L), 0)
    return (tuple(s["disp_min"]), tuple(o["disp_min"])), (tuple(s["disp_max"]), tuple(o["disp_max"]))


# ---------------------------------------------------------------------------------------------
# prepare_pyramid / convert_pyramid_to_dataset
# ---------------------------------------------------------------------------------------------
def _nat_expr(node, names, where):
    if isinstance(node, ast.Name) and node.id in names:
        return node.id
    if isinstance(node, ast.Constant) and type(node.value) is int and node.value >= 0:  # noqa: E721
        return str(node.value)
    if isinstance(node, ast.BinOp) and isinstance(node.op, (ast.Add, ast.Sub)):
        op = "+" if isinstance(node.op, ast.Add) else "-"
        return f"({_nat_expr(node.left, names, where)} {op} {_nat_expr(node.right, names, where)})"
    raise Unsupported(f"{where}: unsupported size expression {_u(node)[:40]}")


def read_prepare_pyramid():
    where = f"{IT_REL}: prepare_pyramid"
    mod = parse(IT_REL)
    fn = find_function(mod, "prepare_pyramid")
    if not any(isinstance(n, ast.ImportFrom) and n.module == "skimage.transform.pyramids" and any(a.name == "pyramid_gaussian" and a.asname is None for a in n.names)
               for n in mod.body) and not any(isinstance(n, ast.ImportFrom) and (n.module or "").startswith("skimage") and any(a.name == "pyramid_gaussian" for a in n.names) for n in mod.body):
        raise Unsupported(f"{IT_REL}: pyramid_gaussian is not skimage's")
    calls = [n for n in ast.walk(fn) if isinstance(n, ast.Call) and isinstance(n.func, ast.Name) and n.func.id == "pyramid_gaussian"]
    if len(calls) != 2:
        raise Unsupported(f"{where}: expected two pyramid_gaussian calls, found {len(calls)}")
    descs = []
    for c in calls:
        kws = {k.arg: k.value for k in c.keywords}
        if len(c.args) != 1 or None in kws or set(kws) - {"max_layer", "downscale", "sigma", "order", "mode", "cval", "channel_axis", "preserve_range"}:
            raise Unsupported(f"{where}: unsupported arguments of pyramid_gaussian: {_u(c)[:80]}")
        d = {"max_layer": _nat_expr(kws["max_layer"], ("num_scales", "scale_factor"), where) if "max_layer" in kws else None,
             "downscale": _nat_expr(kws["downscale"], ("num_scales", "scale_factor"), where) if "downscale" in kws else "2"}
        if d["max_layer"] is None:
            raise Unsupported(f"{where}: pyramid_gaussian without max_layer")
        for name, default in (("sigma", "None"), ("order", "1"), ("mode", "'reflect'"), ("cval", "0"), ("channel_axis", "None"), ("preserve_range", "False")):
            d[name] = _u(kws[name]) if name in kws else default
        descs.append(d)
    if descs[0] != descs[1]:
        raise Unsupported(f"{where}: the two pyramids are built with different arguments")
    rets = [n for n in ast.walk(fn) if isinstance(n, ast.Return)]
    if len(rets) != 1 or not isinstance(rets[0].value, ast.Tuple) or len(rets[0].value.elts) != 2:
        raise Unsupported(f"{where}: unsupported return")
    rev = []
    for e in rets[0].value.elts:
        if isinstance(e, ast.Name):
            rev.append(False)
        elif (isinstance(e, ast.Subscript) and isinstance(e.value, ast.Name) and isinstance(e.slice, ast.Slice) and e.slice.lower is None
              and e.slice.upper is None and isinstance(e.slice.step, ast.UnaryOp) and isinstance(e.slice.step.op, ast.USub)
              and getattr(e.slice.step.operand, "value", None) == 1):
            rev.append(True)
        else:
            raise Unsupported(f"{where}: unsupported returned value {_u(e)[:40]}")
    if rev[0] != rev[1]:
        raise Unsupported(f"{where}: the two pyramids are returned in different orders")
    # the returned lists are what convert_pyramid_to_dataset builds from the library's lists
    conv = [n for n in ast.walk(fn) if isinstance(n, ast.Assign) and isinstance(n.value, ast.Call) and _d(n.value.func) == "convert_pyramid_to_dataset"]
    if len(conv) != 2:
        raise Unsupported(f"{where}: expected two convert_pyramid_to_dataset calls")
    return {"args": descs[0], "reversed": rev[0], "source": _u(fn)}


def read_convert_pyramid():
    """per level: what the dataset of that level holds. Level 0 (`index == 0`): the original dataset itself; otherwise fresh
    arrays.  Any store rooted at the parameters is refused."""
    where = f"{IT_REL}: convert_pyramid_to_dataset"
    fn = find_function(parse(IT_REL), "convert_pyramid_to_dataset")
    params = [a.arg for a in fn.args.args]
    if params != ["img_orig", "images", "masks"]:
        raise Unsupported(f"{where}: unexpected parameters {params}")

    def root(n):
        while isinstance(n, (ast.Attribute, ast.Subscript, ast.Call)):
            n = n.func if isinstance(n, ast.Call) else n.value
        return n.id if isinstance(n, ast.Name) else None

    allowed_attr_store = set()
    for n in ast.walk(fn):
        tgts = []
        if isinstance(n, ast.Assign):
            tgts = n.targets
        elif isinstance(n, (ast.AugAssign, ast.AnnAssign)):
            tgts = [n.target]
        elif isinstance(n, ast.Delete):
            tgts = n.targets
        for t in tgts:
            for e in (t.elts if isinstance(t, ast.Tuple) else [t]):
                if not isinstance(e, ast.Name) and root(e) in params + ["image"]:
                    raise Unsupported(f"{where}: a statement stores into its input: {_u(n)[:70]}")
        if isinstance(n, ast.Call) and isinstance(n.func, ast.Attribute) and root(n.func.value) in params + ["image"]:
            if n.func.attr not in ("astype", "copy", "data") and not (n.func.attr in ("arange",)):
                raise Unsupported(f"{where}: method call on an input: {_u(n)[:70]}")
            if n.func.attr == "astype" and any(k.arg == "copy" for k in n.keywords):
                raise Unsupported(f"{where}: astype with a copy argument")
    loops = [s for s in fn.body if isinstance(s, ast.For)]
    if len(loops) != 1 or _u(loops[0].iter) != "enumerate(images)" or _u(loops[0].target) != "(index, image)":
        raise Unsupported(f"{where}: expected `for index, image in enumerate(images):`")
    body = loops[0].body
    first = body[0]
    ok0 = (isinstance(first, ast.If) and _u(first.test) == "index == 0" and not first.orelse and len(first.body) == 2
           and _u(first.body[0]) == "pyramid.append(img_orig)" and isinstance(first.body[1], ast.Continue))
    if not ok0:
        raise Unsupported(f"{where}: level 0 is not `if index == 0: pyramid.append(img_orig); continue`")
    rest = body[1:]
    if not (len(rest) == 3 and isinstance(rest[0], ast.If) and _u(rest[1]) == "dataset.attrs = img_orig.attrs" and _u(rest[2]) == "pyramid.append(dataset)"):
        raise Unsupported(f"{where}: unsupported loop body")
    fields = {}
    for branch, tag in ((rest[0].body, "mono"), (rest[0].orelse, "multi")):
        im = msk = None
        for st in branch:
            if isinstance(st, ast.Assign) and _u(st.targets[0]) == "dataset" and isinstance(st.value, ast.Call) and _d(st.value.func) == "xr.Dataset":
                dct = st.value.args[0]
                if not (isinstance(dct, ast.Dict) and len(dct.keys) == 1 and dct.keys[0].value == "im"):
                    raise Unsupported(f"{where}: unsupported dataset construction")
                data = dct.values[0].elts[1]
                im = "fresh" if _u(data) == "image.astype(np.float32)" else ("alias" if _u(data) == "image" else None)
            elif isinstance(st, ast.Assign) and _u(st.targets[0]) == "dataset['msk']":
                v = st.value
                arg = v.args[0] if isinstance(v, ast.Call) and _d(v.func) == "xr.DataArray" and v.args else None
                if isinstance(arg, ast.Call) and gen_blocks._is_np(arg.func, "full") and len(arg.args) == 2:  # pylint: disable=protected-access
                    msk = "fresh"
                elif arg is not None and _u(arg) in ("masks[index].astype(np.int16)",):
                    msk = "fresh"
                elif arg is not None and _u(arg) == "masks[index]":
                    msk = "alias"
            else:
                raise Unsupported(f"{where}: unsupported statement {_u(st)[:60]}")
        if im is None or msk is None:
            raise Unsupported(f"{where}: the image or the mask of a level is built in an unsupported way ({tag})")
        fields[tag] = (im, msk)
    if fields["mono"] != fields["multi"]:
        raise Unsupported(f"{where}: mono- and multiband levels are built differently")
    return {"im": fields["mono"][0], "msk": fields["mono"][1], "source": _u(fn)}


def render_pyramid(pp, cp):
    a = pp["args"]
    out = [
        "/-- the keyword arguments of the two `pyramid_gaussian` calls as they are written in prepare_pyramid -/",
        "structure PyramidArgs where",
        "  sigma : String", "  order : String", "  padMode : String", "  cval : String", "  channelAxis : String", "  preserveRange : String",
        "  deriving DecidableEq, Repr",
        f"def pyramidArgs : PyramidArgs := {{ sigma := {lean_str(a['sigma'])}, order := {lean_str(a['order'])}, padMode := {lean_str(a['mode'].strip(chr(39)))}, " +
        f"cval := {lean_str(a['cval'])}, channelAxis := {lean_str(a['channel_axis'])}, preserveRange := {lean_str(a['preserve_range'])} }}",
        "/-- `pyramid_gaussian` as an uninterpreted library function, for what matters here: keyword arguments, size `n` of a spatial",
        "    axis, `max_layer`, `downscale` ↦ the size of that axis in every layer it yields, finest first -/",
        "abbrev PyramidLib := PyramidArgs → Nat → Nat → Nat → List Nat",
        "/-- sizes of the levels `prepare_pyramid` returns, in the order it returns them -/",
        "def pyramidSizes (lib : PyramidLib) (n num_scales scale_factor : Nat) : List Nat :=",
        f"  let layers := lib pyramidArgs n {a['max_layer']} {a['downscale']}",
        "  -- convert_pyramid_to_dataset builds one dataset per layer, in order (level 0 is the original dataset)",
        f"  {'layers.reverse' if pp['reversed'] else 'layers'}",
        "",
        "/-- `convert_pyramid_to_dataset` over the store: `orig` = (image, mask) of the original dataset, `layers` = (image, mask) of every",
        "    layer the library built; result: (image, mask) identities of every level's dataset -/",
        "def convertLevel (s : Store Val) (layer : Nat × Nat) : Store Val × (Nat × Nat) :=",
    ]
    if cp["im"] == "fresh":
        out += ["  let p1 := s.copy layer.1   -- image.astype(np.float32): a new array"]
    else:
        out += ["  let p1 := (s, layer.1)   -- the layer itself"]
    if cp["msk"] == "fresh":
        out += ["  let p2 := p1.1.copy layer.2   -- np.full(shape, masks[index].astype(np.int16)): a new array"]
    else:
        out += ["  let p2 := (p1.1, layer.2)"]
    out += ["  (p2.1, (p1.2, p2.2))",
            "def convertPyramidFrom (orig : Nat × Nat) : Nat → List (Nat × Nat) → Store Val → Store Val × List (Nat × Nat)",
            "  | _, [], s => (s, [])",
            "  | index, layer :: rest, s =>",
            "    if index = 0 then",
            "      let r := convertPyramidFrom orig (index + 1) rest s",
            "      (r.1, orig :: r.2)   -- pyramid.append(img_orig): the original dataset itself",
            "    else",
            "      let p := convertLevel s layer",
            "      let r := convertPyramidFrom orig (index + 1) rest p.1",
            "      (r.1, p.2 :: r.2)",
            "def convertPyramid (orig : Nat × Nat) (layers : List (Nat × Nat)) (s : Store Val) : Store Val × List (Nat × Nat) :=",
            "  convertPyramidFrom orig 0 layers s"]
    return "\n".join(out)


# ---------------------------------------------------------------------------------------------
# read_multiscale_params
# ---------------------------------------------------------------------------------------------
def read_params_kernel():
    where = f"{CC_REL}: read_multiscale_params"
    fn = find_function(parse(CC_REL), "read_multiscale_params")
    if [a.arg for a in fn.args.args] != ["left_img", "right_img", "cfg"]:
        raise Unsupported(f"{where}: unexpected parameters")
    ctors = [n for n in ast.walk(fn) if isinstance(n, ast.Assign) and isinstance(n.value, ast.Call) and _d(n.value.func).endswith("AbstractMultiscale")]
    if len(ctors) != 1 or not isinstance(ctors[0].targets[0], ast.Name):
        raise Unsupported(f"{where}: expected one multiscale object")
    c = ctors[0]
    obj = c.targets[0].id
    ctor = {"name": obj, "args": [_u(a) for a in c.value.args], "kwargs": [_u(k.value) for k in c.value.keywords if k.arg is None],
            "other": [k.arg for k in c.value.keywords if k.arg is not None]}

    class Drop(ast.NodeTransformer):
        def visit_Assign(self, node):  # pylint: disable=invalid-name
            return None if node is c else node

    fn2 = Drop().visit(ast.parse(_u(fn)).body[0].__class__(**{f: getattr(fn, f) for f in fn._fields}))  # shallow copy of the def
    fn2 = ast.fix_missing_locations(fn2)
    fn2.args = ast.arguments(posonlyargs=[], args=fn.args.args + [ast.arg(arg=obj)], kwonlyargs=[], kw_defaults=[], defaults=[])
    fn2.returns = None
    params = [Param("left_img", "opaque"), Param("right_img", "opaque"),
              Param("cfg", "record", (('"multiscale" in cfg["pipeline"]', "hasMultiscale", BOOL),)),
              Param(obj, "record", ((f'{obj}.cfg["num_scales"]', "cfgNumScales", INT), (f'{obj}.cfg["scale_factor"]', "cfgScaleFactor", INT)))]
    k = pyexpr.translate_function(fn2, "readMultiscaleParams", params, source_text=read_source(CC_REL))
    k.origin = f"{where} (the object `{obj}` built by the pinned constructor call is a parameter)"
    k.source = _u(fn)
    return k, ctor


# ---------------------------------------------------------------------------------------------
# printing
# ---------------------------------------------------------------------------------------------
def comment(text):
    return text.replace("-/", "- /").replace("/-", "/ -")


def _strs(xs):
    return "[" + ", ".join(lean_str(x) for x in xs) + "]"


def parts():
    rm = read_run_multiscale()
    cc = read_cv_crop()
    pp = read_prepare_pyramid()
    cp = read_convert_pyramid()
    rk, rctor = read_params_kernel()
    return {"run_multiscale": rm, "cv_crop": cc, "prepare_pyramid": pp, "convert_pyramid": cp, "read_params": rk, "read_params_ctor": rctor}


GOLD_USER = [(Fraction(-15), 2), (Fraction(7, 2), 3)]
GOLD_PARAMS = [(None, None, [True], [3, 2]), (None, None, [False], [3, 2]), (None, None, [True], [2, 4])]


def render(p) -> str:
    rm, cc, pp, cp, rk = p["run_multiscale"], p["cv_crop"], p["prepare_pyramid"], p["convert_pyramid"], p["read_params"]
    lines = [
        "-- GENERATED by translator/gen_kernels_multiscale_glue.py from",
        f"-- {SM_REL}, {MC_REL}, {IT_REL}, {CC_REL}. Do not edit.",
        "import PandoraModel.Generated.KernelsMultiscale",
        "set_option linter.unusedVariables false",
        "namespace Pandora.Generated.KernelsMultiscaleGlue",
        "open Pandora Pandora.PyArr Pandora.Generated.KernelsMultiscale",
        "",
        "/-! ### run_multiscale -/", "",
    ]
    for k in rm["kernels"].values():
        k.always_partial = False
        lines += [f"/- {k.origin}", comment(k.source), "-/", pyexpr.render_lean(k, always_partial=False)]
        lines += gen_kernels.golden_examples(k, GOLD_USER)
        lines.append("")
    w = rm["wiring"]
    lines += ["/-- `<targets> = multiscale_.disparity_range(<args>)`: attributes receiving the (min, max) maps, then the arguments -/",
              f"def rangeCallLeft : List String × List String := ({_strs(w['left']['targets'])}, {_strs(w['left']['args'])})"]
    r = w.get("right", {"targets": [], "args": []})
    lines += [f"def rangeCallRight : List String × List String := ({_strs(r['targets'])}, {_strs(r['args'])})",
              "/-- how the multiscale object of run_multiscale is built: positional arguments, `**` arguments, other keywords -/",
              f"def rangeObject : List String × List String × List String := ({_strs(rm['ctor']['args'])}, {_strs(rm['ctor']['kwargs'])}, {_strs(rm['ctor']['other'])})",
              "", "/-! ### matching_cost_prepare on a grid, cv_masked's crop -/", "",
              render_cv_crop(cc), "",
              "/-- the grids of the next level: `self.disp_min * self.scale_factor` element by element (numpy broadcasting of the scalar",
              "    kernels `mcPrepareMin` / `mcPrepareMax`, NaN stays NaN), cropped by cv_masked to the `ny × nx` cost volume -/",
              "def nextGrids (scale_factor ny nx : Nat) (sh : Nat × Nat) (amin amax : Arr Val) : List (List Val) × List (List Val) :=",
              "  let bmin : Arr Val := fun i j => (amin i j).map (fun x => mcPrepareMin x (scale_factor : Int))",
              "  let bmax : Arr Val := fun i j => (amax i j).map (fun x => mcPrepareMax x (scale_factor : Int))",
              "  let c := cvMaskedCrop ny nx sh sh",
              "  (Blocks.tabulate c.1.1.1 c.1.1.2 (fun i j => bmin (i + c.1.2.1) (j + c.1.2.2)),",
              "   Blocks.tabulate c.2.1.1 c.2.1.2 (fun i j => bmax (i + c.2.2.1) (j + c.2.2.2)))", ""]
    for (ny, nx, sh) in ((7, 9, (8, 10)), (8, 10, (8, 10)), (7, 10, (8, 10)), (9, 12, (8, 10))):
        e = eval_cv_crop(cc, ny, nx, sh, sh)
        fmt = lambda t: f"(({t[0][0]}, {t[0][1]}), ({t[1][0]}, {t[1][1]}))"  # noqa: E731
        lines.append(f"example : cvMaskedCrop {ny} {nx} ({sh[0]}, {sh[1]}) ({sh[0]}, {sh[1]}) = ({fmt(e[0])}, {fmt(e[1])}) := by decide")
    lines += ["", "/-! ### prepare_pyramid, convert_pyramid_to_dataset -/", "", f"/- {IT_REL}: prepare_pyramid", comment(pp["source"]), "-/",
              render_pyramid(pp, cp), "", "/-! ### read_multiscale_params -/", "", f"/- {rk.origin}", comment(rk.source), "-/",
              pyexpr.render_lean(rk, always_partial=False)]
    rk.always_partial = False
    from . import gen_kernels_glue

    lines += gen_kernels_glue.golden_examples(rk, GOLD_PARAMS)
    c = p["read_params_ctor"]
    lines += ["/-- how the multiscale object of read_multiscale_params is built -/",
              f"def paramsObject : List String × List String × List String := ({_strs(c['args'])}, {_strs(c['kwargs'])}, {_strs(c['other'])})",
              "", "end Pandora.Generated.KernelsMultiscaleGlue"]
    return "\n".join(lines) + "\n"


def generate():
    p = parts()
    write_if_changed("KernelsMultiscaleGlue.lean", render(p))
    srcs = [SM_REL, MC_REL, IT_REL, CC_REL]
    return {"T15-multiscale-glue": {"source": srcs, "digest": digest(*srcs), "pyramid_args": p["prepare_pyramid"]["args"],
                                    "wiring": p["run_multiscale"]["wiring"], "convert": {k: p["convert_pyramid"][k] for k in ("im", "msk")}}}
