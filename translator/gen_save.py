"""C19 (T10): what pandora/common.py, pandora/output_tree_design.py and pandora/__init__.py say today
-> Generated/SaveTable.lean

  * save_results: the ordered table of `write_data_array(...)` calls — dataset, variable, file key, dtype, whether
    band names are passed, the `if "<var>" in <ds>` / `if len(right.sizes) != 0` guards, whose crs/transform are used;
  * write_data_array: must be, textually after `ast.unparse` (docstring removed), the function the Lean model
    `writeDataArray` / `bandLoop` mirrors; its default dtype;
  * OTD: the output tree;
  * main: whether the derived right interval is assigned into the configuration that is saved, whether
    `cfg["margins"]` is set before `save_config(output, cfg)`;
  * run / PandoraMachine.<step>_run: the writes into `cfg` (the dictionary `main` saves afterwards): none, or exactly the
    `indicator` of the confidence step being run (`runWritesIndicator`).
`ast` only; anything unrecognised raises `Unsupported`.
"""
from __future__ import annotations

import ast

from .common import Unsupported, digest, find_function, lean_str, parse, write_if_changed

NAME = "SaveTable"
SRC_COMMON = "pandora/common.py"
SRC_OTD = "pandora/output_tree_design.py"
SRC_MAIN = "pandora/__init__.py"
SRC_MACHINE = "pandora/state_machine.py"

# the only writes into the configuration `pandora.run` is known to make (it is the dictionary `main` saves afterwards)
RUN_INDICATOR = """cfg['pipeline'][input_step]['indicator'] = ''
if len(input_step.split('.', 1)) == 2:
    cfg['pipeline'][input_step]['indicator'] = '.' + input_step.split('.', 1)[1]"""

WRITE_DATA_ARRAY = """def write_data_array(data_array: xr.DataArray, filename: str, dtype: rasterio.dtypes=rasterio.dtypes.float32, band_names: List[str]=None, crs: Union[rasterio.crs.CRS, None]=None, transform: Union[rasterio.Affine, None]=None) -> None:
    if len(data_array.shape) == 2:
        row, col = data_array.shape
        with rasterio_open(filename, mode='w+', driver='GTiff', width=col, height=row, count=1, dtype=dtype, crs=crs, transform=transform) as source_ds:
            source_ds.write(data_array.data, 1)
    else:
        row, col, depth = data_array.shape
        with rasterio_open(filename, mode='w+', driver='GTiff', width=col, height=row, count=depth, dtype=dtype, crs=crs, transform=transform) as source_ds:
            for dsp in range(1, depth + 1):
                source_ds.write(data_array.data[:, :, dsp - 1], dsp)
            if band_names is not None:
                source_ds.descriptions = band_names"""

VARS = {"disparity_map": "disparityMap", "confidence_measure": "confidenceMeasure", "validity_mask": "validityMask"}


def _strip_doc(fn: ast.FunctionDef) -> ast.FunctionDef:
    body = list(fn.body)
    if body and isinstance(body[0], ast.Expr) and isinstance(body[0].value, ast.Constant) and isinstance(body[0].value.value, str):
        body = body[1:]
    new = ast.FunctionDef(name=fn.name, args=fn.args, body=body, decorator_list=[], returns=fn.returns, type_comment=None,
                          **({"type_params": []} if hasattr(fn, "type_params") else {}))
    return ast.fix_missing_locations(new)


def _row(call: ast.Call, guard_var, guard_right) -> dict:
    if not (isinstance(call.func, ast.Name) and call.func.id == "write_data_array"):
        raise Unsupported(f"save_results: unexpected call {ast.unparse(call)[:80]}")
    if len(call.args) != 2:
        raise Unsupported("save_results: write_data_array must take (data_array, filename) positionally")
    arr, fname = call.args
    if not (isinstance(arr, ast.Subscript) and isinstance(arr.value, ast.Name) and arr.value.id in ("left", "right")
            and isinstance(arr.slice, ast.Constant) and arr.slice.value in VARS):
        raise Unsupported(f"save_results: unsupported data array {ast.unparse(arr)}")
    side, var = arr.value.id, arr.slice.value
    fsrc = ast.unparse(fname)
    prefix, suffix = "os.path.join(output, get_out_file_path('", "'))"
    if not (fsrc.startswith(prefix) and fsrc.endswith(suffix)):
        raise Unsupported(f"save_results: unsupported file name {fsrc}")
    file_key = fsrc[len(prefix):-len(suffix)]
    row = {"side": side, "var": VARS[var], "file": file_key, "dtype": "float32", "bandNames": False,
           "guardedByVar": False, "guardedByRight": guard_right, "geoSide": None}
    geo = {}
    for kw in call.keywords:
        src = ast.unparse(kw.value)
        if kw.arg == "dtype":
            if not src.startswith("rasterio.dtypes."):
                raise Unsupported(f"save_results: unsupported dtype {src}")
            row["dtype"] = src[len("rasterio.dtypes."):]
        elif kw.arg in ("crs", "transform"):
            for s in ("left", "right"):
                if src == f"{s}.attrs['{kw.arg}']":
                    geo[kw.arg] = s
            if kw.arg not in geo:
                raise Unsupported(f"save_results: unsupported {kw.arg} {src}")
        elif kw.arg == "band_names":
            if src != f"{side}['{var}']['indicator'].data":
                raise Unsupported(f"save_results: unsupported band_names {src}")
            row["bandNames"] = True
        else:
            raise Unsupported(f"save_results: unsupported keyword {kw.arg}")
    if set(geo) != {"crs", "transform"} or geo["crs"] != geo["transform"]:
        raise Unsupported("save_results: crs and transform must be passed from one dataset")
    row["geoSide"] = geo["crs"]
    if guard_var is not None:
        if guard_var != (var, side):
            raise Unsupported(f"save_results: guard on {guard_var} around a write of {side}[{var}]")
        row["guardedByVar"] = True
    return row


def _walk(stmts, guard_var, guard_right, rows):
    for st in stmts:
        if isinstance(st, ast.Expr) and isinstance(st.value, ast.Call):
            if ast.unparse(st.value) == "mkdir_p(output)":
                continue
            rows.append(_row(st.value, guard_var, guard_right))
        elif isinstance(st, ast.If) and not st.orelse:
            test = ast.unparse(st.test)
            if test == "len(right.sizes) != 0" and not guard_right and guard_var is None:
                _walk(st.body, None, True, rows)
            elif guard_var is None and test in ("'confidence_measure' in left", "'confidence_measure' in right"):
                _walk(st.body, ("confidence_measure", test.rsplit(" ", 1)[1]), guard_right, rows)
            else:
                raise Unsupported(f"save_results: unsupported guard {test}")
        else:
            raise Unsupported(f"save_results: unsupported statement {ast.unparse(st)[:80]}")


def extract_table(mod: ast.Module):
    fn = _strip_doc(find_function(mod, "save_results"))
    rows = []
    _walk(fn.body, None, False, rows)
    if not rows:
        raise Unsupported("save_results: no write_data_array call found")
    return rows


def extract_write(mod: ast.Module):
    got = ast.unparse(_strip_doc(find_function(mod, "write_data_array")))
    if got != WRITE_DATA_ARRAY:
        # point at the first differing line
        for a, b in zip(got.splitlines(), WRITE_DATA_ARRAY.splitlines()):
            if a != b:
                raise Unsupported(f"write_data_array: statement not recognised: {a.strip()!r} (model mirrors {b.strip()!r})")
        raise Unsupported("write_data_array: body differs from the one the model mirrors")
    return True


def extract_otd():
    mod = parse(SRC_OTD)
    for node in mod.body:
        if isinstance(node, ast.Assign) and len(node.targets) == 1 and isinstance(node.targets[0], ast.Name) and node.targets[0].id == "OTD":
            if not isinstance(node.value, ast.Dict):
                raise Unsupported("OTD is not a dict literal")
            out = []
            for k, v in zip(node.value.keys, node.value.values):
                if not (isinstance(k, ast.Constant) and isinstance(k.value, str) and isinstance(v, ast.Constant) and isinstance(v.value, str)):
                    raise Unsupported("OTD: non-literal entry")
                out.append([k.value, v.value])
            fp = ast.unparse(_strip_doc(find_function(mod, "get_out_file_path")))
            if "return os.path.join(get_out_dir(key), key)" not in fp:
                raise Unsupported("get_out_file_path: body not recognised")
            gd = ast.unparse(_strip_doc(find_function(mod, "get_out_dir")))
            if "return OTD[key]" not in gd:
                raise Unsupported("get_out_dir: body not recognised")
            return out
    raise Unsupported("OTD not found")


def extract_main():
    mod = parse(SRC_MAIN)
    fn = _strip_doc(find_function(mod, "main"))
    src = ast.unparse(fn)
    needed = [
        "cfg = check_conf(user_cfg, pandora_machine)",
        "img_left = create_dataset_from_inputs(input_config=cfg['input']['left'])",
        "if cfg['input']['right']['disp'] is None and (not isinstance(cfg['input']['left']['disp'], str)):",
        "[-cfg['input']['left']['disp'][1], -cfg['input']['left']['disp'][0]]",
        "left, right = run(pandora_machine, img_left, img_right, cfg)",
        "common.save_results(left, right, output)",
        "common.save_config(output, cfg)",
    ]
    for piece in needed:
        if piece not in src:
            raise Unsupported(f"main: statement not recognised (model mirrors {piece!r})")
    writes = False
    margins_at = None
    save_at = None
    for i, st in enumerate(fn.body):
        for node in ast.walk(st):
            if isinstance(node, (ast.Assign, ast.AugAssign)):
                targets = node.targets if isinstance(node, ast.Assign) else [node.target]
                for t in targets:
                    ts = ast.unparse(t)
                    if ts == "cfg['input']['right']['disp']":
                        writes = True
                    elif ts.startswith("cfg[") and ts != "cfg['margins']":
                        raise Unsupported(f"main: unexpected write into the configuration: {ts}")
                    elif ts == "cfg['margins']":
                        if isinstance(node, ast.Assign) and ast.unparse(node.value) == "pandora_machine.margins.to_dict()":
                            margins_at = i
                        else:
                            raise Unsupported("main: cfg['margins'] is not pandora_machine.margins.to_dict()")
        if ast.unparse(st) == "common.save_config(output, cfg)":
            save_at = i
    adds = margins_at is not None and save_at is not None and margins_at < save_at
    # save_config itself: json.dump of the dict it is given into OTD["config.json"]
    cmod = parse(SRC_COMMON)
    sc = ast.unparse(_strip_doc(find_function(cmod, "save_config")))
    for piece in ("mkdir_p(os.path.join(output, get_out_dir('config.json')))",
                  "os.path.join(output, get_out_file_path('config.json'))", "json.dump(user_cfg, file_, indent=2)"):
        if piece not in sc:
            raise Unsupported(f"save_config: statement not recognised (model mirrors {piece!r})")
    return {"writesRightDisp": writes, "addsMargins": adds}


def _cfg_writes(fn: ast.FunctionDef):
    out = []
    for node in ast.walk(fn):
        if isinstance(node, (ast.Assign, ast.AugAssign)):
            targets = node.targets if isinstance(node, ast.Assign) else [node.target]
            if any(ast.unparse(t).startswith("cfg[") for t in targets):
                out.append(ast.unparse(node))
        elif isinstance(node, ast.Call) and isinstance(node.func, ast.Attribute) and node.func.attr in (
                "update", "pop", "setdefault", "clear", "popitem", "__setitem__", "__delitem__"):
            if ast.unparse(node.func.value).startswith("cfg"):
                out.append(ast.unparse(node))
        elif isinstance(node, ast.Delete) and any(ast.unparse(t).startswith("cfg[") for t in node.targets):
            out.append(ast.unparse(node))
    return out


def extract_run_writes() -> bool:
    """what `pandora.run` and the `<step>_run` callbacks of the machine write into `cfg` (the dictionary `main` saves
    afterwards): nothing (False), or exactly the `indicator` of the confidence step being run (True)"""
    found = {}
    run_fn = find_function(parse(SRC_MAIN), "run")
    if _cfg_writes(run_fn):
        raise Unsupported(f"run: unexpected write into the configuration: {_cfg_writes(run_fn)[0]}")
    mod = parse(SRC_MACHINE)
    for node in mod.body:
        if isinstance(node, ast.ClassDef) and node.name == "PandoraMachine":
            for fn in node.body:
                if isinstance(fn, ast.FunctionDef) and (fn.name.endswith("_run") or fn.name.startswith("run")):
                    w = _cfg_writes(fn)
                    if w:
                        found[fn.name] = (w, fn)
    if not found:
        return False
    if set(found) != {"cost_volume_confidence_run"}:
        name = sorted(set(found) - {"cost_volume_confidence_run"})[0]
        raise Unsupported(f"{name}: unexpected write into the configuration: {found[name][0][0]}")
    w, fn = found["cost_volume_confidence_run"]
    body = "\n".join(line.strip() for line in ast.unparse(_strip_doc(fn)).splitlines())
    want = "\n".join(line.strip() for line in RUN_INDICATOR.splitlines())
    if want not in body or len(w) != 2:
        raise Unsupported(f"cost_volume_confidence_run: writes into the configuration not recognised: {w} "
                          f"(model mirrors {RUN_INDICATOR!r})")
    return True


def extract() -> dict:
    cmod = parse(SRC_COMMON)
    extract_write(cmod)
    main = extract_main()
    main["runWritesIndicator"] = extract_run_writes()
    return {"table": extract_table(cmod), "otd": extract_otd(), "main": main}


def _b(x: bool) -> str:
    return "true" if x else "false"


def render(d: dict) -> str:
    lines = [
        "-- GENERATED by translator/gen_save.py from pandora/common.py, output_tree_design.py, __init__.py. Do not edit.",
        "import PandoraModel.Model.Save",
        "",
        "namespace Pandora.Generated",
        "open Pandora.Save",
        "",
        "/-- the `write_data_array` calls of `save_results`, in order -/",
        "def saveTable : List SaveRow := [",
    ]
    rows = []
    for r in d["table"]:
        rows.append(
            f"  {{ side := .{r['side']}, var := .{r['var']}, file := {lean_str(r['file'])}, dtype := {lean_str(r['dtype'])},\n"
            f"    bandNames := {_b(r['bandNames'])}, guardedByVar := {_b(r['guardedByVar'])}, "
            f"guardedByRight := {_b(r['guardedByRight'])}, geoSide := .{r['geoSide']} }}"
        )
    lines.append(",\n".join(rows))
    lines.append("]")
    lines.append("")
    lines.append("/-- `OTD` of output_tree_design.py -/")
    lines.append("def otd : List (String × String) := [")
    lines.append(",\n".join(f"  ({lean_str(k)}, {lean_str(v)})" for k, v in d["otd"]))
    lines.append("]")
    lines.append("")
    lines.append("/-- what `main` does to the configuration it saves -/")
    lines.append(
        f"def mainFacts : MainFacts := {{ writesRightDisp := {_b(d['main']['writesRightDisp'])}, "
        f"addsMargins := {_b(d['main']['addsMargins'])} }}"
    )
    lines.append("")
    lines.append("/-- `pandora.run` overwrites `cfg[\"pipeline\"][step][\"indicator\"]` of every confidence step it runs, in the")
    lines.append("    dictionary `main` saves afterwards (`cost_volume_confidence_run`), and writes nothing else into it -/")
    lines.append(f"def runWritesIndicator : Bool := {_b(d['main']['runWritesIndicator'])}")
    lines.append("")
    lines.append("end Pandora.Generated")
    return "\n".join(lines) + "\n"


def generate():
    d = extract()
    write_if_changed("SaveTable.lean", render(d))
    return {"T10": {"sources": [SRC_COMMON, SRC_OTD, SRC_MAIN, SRC_MACHINE], "digest": digest(SRC_COMMON, SRC_OTD, SRC_MAIN, SRC_MACHINE),
                    "rows": len(d["table"]), "main": d["main"]}}
