"""Discovery of the extractors: every module translator/gen_*.py exposes NAME and generate() -> dict.
No pandora import happens here: the generated files say what the source text says."""
import importlib
import pkgutil

import translator


def modules():
    out = []
    for m in sorted(pkgutil.iter_modules(translator.__path__), key=lambda x: x.name):
        if m.name.startswith("gen_"):
            out.append(importlib.import_module(f"translator.{m.name}"))
    return out


def generate(*names):
    """Run the named extractors (all when no name is given); returns the merged digest dict.
    Raises translator.common.Unsupported when the source cannot be translated."""
    out = {}
    for mod in modules():
        if not names or mod.NAME in names:
            out.update(mod.generate())
    return out
