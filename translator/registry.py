"""Which generated files exist and how to produce them (no pandora import)."""
from . import common, t1_transitions


def gen_transitions():
    tables = t1_transitions.extract()
    common.write_if_changed("Transitions.lean", t1_transitions.render(tables))
    return {"T1": {"source": t1_transitions.SRC, "digest": common.digest(t1_transitions.SRC),
                   "run_rows": len(tables["run"]), "check_rows": len(tables["check"])}}


ALL = [("Transitions", gen_transitions)]
