"""Expression-level translator: a restricted subset of Python (small scalar numeric kernels) -> Lean 4 source text.

The other extractors pin literals and statement shapes; this one *translates the arithmetic*: the Lean definition
is regenerated from the Python function on every run, and a theorem (`Properties/C06Kernels.lean`) proves it equal
to the hand-written model, so an edit of the kernel is a broken proof obligation and a harmless rewrite is not.

Pipeline:   ast.FunctionDef  --translate_function-->  Kernel (typed intermediate representation)
            Kernel --render_lean--> Lean text            Kernel --evaluate--> value (exact, `fractions.Fraction`)
The evaluator is an independent reading of the same IR; the harness compares it with the real function
(translator cross-check), which validates the translator's reading of Python.

THE SUBSET  (anything else raises `translator.common.Unsupported` — nothing is guessed)

  function      positional parameters only, declared by the caller of the translator (`Param`): a float that may
                be NaN (`val`), a float that is not NaN (`rat`), an `int`, a `bool`, a `str` (only compared with
                literals), or an array of fixed length read through integer-literal subscripts (`cost[0]`).
  statements    docstring, `pass`; `x = e`, `x: T = e`, `x op= e` on local names; `if / elif / else`;
                `return e` or `return e1, …, en` (same arity everywhere, every path must end in a return).
  expressions   int / float / bool literals; local names; `param[<int literal>]`; `+ - * /`, unary `-` `+`,
                `e ** <int literal >= 1>`; comparisons `< <= > >= == !=` (also chained) of numbers;
                `param == "literal"` / `!=` on a `str` parameter; `and` / `or` / `not` on booleans only (no
                truthiness of numbers); `abs(e)`, `min(a, b, …)`, `max(a, b, …)`; `np.nan`, `np.isnan(e)`;
                dotted constants supplied by the caller (e.g. `cst.PANDORA_MSK_PIXEL_STOPPED_INTERPOLATION`,
                read from constants.py by the generator).

SEMANTICS

  * Numbers.  A Python float is an exact rational or NaN (the project's convention, header of
    Model/Refinement.lean): rounding is not modelled, there is no infinity.  A float literal is the exact decimal
    written in the source (`1.0e-15` is 1/10^15, never the nearest double).  `int` is unbounded.
    Types of the IR: `int` (Lean `Int`), `rat` (Lean `Rat`: a float that cannot be NaN), `val` (`Pandora.Val =
    nan | num Rat`: a float that may be NaN), `bool`, `str`.  `int ⊔ rat ⊔ val` is the join used for mixed
    arithmetic, for the components of `return` and for merged locals; the casts are explicit in the IR.
  * NaN is absorbed by `+ - * / ** abs` and unary minus; every comparison with NaN is False except `!=`;
    `max(a, b)` is `b if b > a else a` and `min(a, b)` is `b if b < a else a` (CPython's and numba's: with a NaN
    operand the first argument wins); more arguments fold from the left.
  * `np.isnan(x)` in the test of an `if` that returns: the translation splits on `x` (`match x with | .nan | .num`),
    so that below the guard `x` is a plain `Rat`.  This is a typing refinement only — no value is invented: each
    arm is the translation of the same statements with `x` known to be NaN, resp. a number.
  * Division.  `a / b` is true division and is PARTIAL: a zero divisor raises ZeroDivisionError (Python floats;
    numba's default `error_model="python"`, which the generator checks).  It is never totalised silently: the
    divisor is bound to a fresh local, tested (`PyRes.zeroDivision`), and only then used — unless a dominating guard
    of the source makes it non-zero *syntactically*.  The guards recognised (all sound for rationals and NaN):
    on the path to the division the test `x == 0` was false / `x != 0` true / `abs(x) < c`, `abs(x) <= c` false /
    `abs(x) > c`, `abs(x) >= c` true (c a literal of the right sign), for a local `x` not reassigned since, through
    `or` (false) / `and` (true); the divisor is then `x`, `-d`, `abs(d)`, `d ** n`, a non-zero literal or a product of
    such.  The evaluator below ignores this analysis and tests every divisor, so a wrong elision shows up in the
    cross-check as `TranslatorBug`.
    The same facts flow from the earlier operands of an `and` / `or` into the later ones (`y != 0 and x / y > 1`).
    A division that would still have to be tested inside the right operand of `and` / `or` is refused.
  * Locals.  Re-assignment is Lean `let` shadowing.  An `if` whose branches neither return nor divide (unchecked)
    becomes a `let` of the merged values of the locals it assigns (`let x := if c then … else x`); a local
    defined on one side only is refused.  Any other `if` is translated by continuing each branch with the
    statements that follow (code duplication, no merge).
  * Not modelled: float rounding, overflow to infinity, `int` width, aliasing, exceptions other than
    ZeroDivisionError.

GLUE EXTENSION  (scalar index arithmetic between the kernels: translator/gen_kernels_glue.py; every item is off unless
the generator asks for it, so the kernels of gen_kernels.py are translated exactly as before)

  * parameters  `record`: an object (dict, Dataset) read only through *atoms* the generator declares — (source text,
                Lean parameter, type), e.g. `roi["col"]["first"]`, `roi["margins"][0]`, `int(img_left.sizes["col"])`:
                every occurrence of that text (after `ast.unparse`) is the parameter, any other use of the object is
                refused; `opaque`: a parameter that is never read (`self`).
  * statements  `raise E("message")` for a declared exception name `E`: the function returns
                `PyExpr.PyOut.raised "E"` (the result type is then `PyOut`, a tested zero divisor being
                `raised "ZeroDivisionError"`); `p = (e0, …, ek)` for a local that is *always* assigned a tuple display of
                that length: all elements are evaluated with the old bindings, then bound to the components `p0 … pk`;
                they are read as `p[<int literal>]` and may be reassigned under `if` (merged component-wise).
  * return      nested tuple displays, tuple locals and a declared constructor call (`Window(a, b, c, d)`) are
                flattened into one Lean tuple; the shape (`((_, _), (_, _))`, `Window(_, _, _, _)`) is recorded in the
                kernel and must be the same on every return.  A constructor is declared with what it validates itself
                (rasterio's `Window`: width and height must not be negative, else ValueError — read in the library's
                source, cross-checked against the real function on every run): that test is part of the translation and
                raises `"Window: ValueError"`, told apart from a `raise ValueError` of the function itself.
  * expressions `ceil(e)` / `floor(e)` (names bound by `from math import …`, checked by the generator) and `int(e)`
                on an `int` (identity) or a not-NaN float (`Rat.ceil` / `Rat.floor` / truncation towards zero; the
                result is an `int`, as in Python 3); refused on a float that may be NaN (it would raise).

BIT-OPERATION EXTENSION  (translator/gen_kernels_census.py, gen_kernels_mc.py; off unless the generator passes
`bitops=True` / `pymod=True`)

  * `nat`       a parameter the generator declares to be a non-negative Python int (Lean `Nat`; both unbounded).
                `& | ^ >> <<`, `+`, `*` of nats and of non-negative int literals (decimal or hex — the `ast` holds
                the value) are nats.  `a - b` is accepted only when `b <= a` follows from the SHAPE of the operands
                (`b` is `a`, or `x & y` / `x >> k` with `x <= a`, or `a` is a sum / `|` containing such a term): Python's
                difference is then never negative and is Lean's truncated subtraction; any other difference is
                refused.  The evaluator tests `b <= a` on every evaluation (`TranslatorBug`).  Nothing else is
                defined on a `nat` (no comparison, no mixing with int / float, no `abs/min/max`).
                The width of a machine integer is NOT modelled: that no intermediate value of `popcount32b`
                reaches 2^32 is a theorem about the generated definition (Properties/C02Census.lean).
  * `%`         `e % <positive literal>` on an int or a not-NaN float: `e - floor(e / m) * m` (the sign of the
                divisor, as in Python and numpy; exact).  Any other `%` is refused.
"""
from __future__ import annotations

import ast
from dataclasses import dataclass, field
from fractions import Fraction
from typing import Dict, List, Optional, Sequence, Tuple

from .common import Unsupported, lean_str

INT, RAT, VAL, BOOL, STR = "int", "rat", "val", "bool", "str"
NAT = "nat"  # bit-operation extension: a Python int known to be non-negative (Lean `Nat`); not in NUMERIC on purpose
NUMERIC = (INT, RAT, VAL)
LEAN_TYPE = {INT: "Int", RAT: "Rat", VAL: "Val", BOOL: "Bool", STR: "String", NAT: "Nat"}
NAT_BITOPS = {ast.BitAnd: "band", ast.BitOr: "bor", ast.BitXor: "bxor", ast.RShift: "shr", ast.LShift: "shl"}
NAT_SYM = {"band": "&&&", "bor": "|||", "bxor": "^^^", "shr": ">>>", "shl": "<<<", "nsub": "-"}
LEAN_KEYWORDS = {
    "at", "by", "do", "else", "end", "from", "fun", "have", "if", "in", "let", "match", "open", "show", "then",
    "with", "where", "def", "theorem", "example", "namespace", "section", "instance", "structure", "class",
    "import", "private", "local", "using", "then", "Type", "Prop", "Sort", "forall", "exists", "calc", "nomatch",
    "return", "mut", "for", "unless", "try", "catch", "finally", "macro", "syntax", "deriving", "extends", "set_option",
}
BUILTINS = {"abs", "min", "max"}


class TranslatorBug(Exception):
    """The evaluator met a situation the translator claimed impossible (e.g. a zero divisor behind an elided test)."""


# ------------------------------------------------------------------------------------------------
# intermediate representation
# ------------------------------------------------------------------------------------------------
@dataclass(frozen=True)
class Ex:
    """typed expression.  op / args:
    lit(value) var(name) nan  cast(e)  neg(e) abs(e) add sub mul (a,b)  div(a,b; aux='checked'|'guarded')
    pow(e; aux=n)  min max (a,b)  cmp(a,b; aux=lt|le|gt|ge|eq|ne)  and or (a,b) not(e)  isnan(e)
    streq(var; aux=literal)  const(aux=True|False)
    ext(args…; aux=(Lean function name, Python function)): an operation supplied by a generator (never by `Translator`)"""
    op: str
    ty: str
    args: Tuple = ()
    aux: object = None


@dataclass
class Ret:
    values: List[Ex]


@dataclass
class Yield:
    """end of a branch of a merged `if`: the values of the merged locals"""
    values: List[Ex]


@dataclass
class Let:
    name: str
    value: Ex
    body: object


@dataclass
class If:
    cond: Ex
    then: object
    orelse: object


@dataclass
class Merge:
    """`names := if cond then <then ... Yield> else <orelse ... Yield>` followed by body"""
    names: List[Tuple[str, str]]  # (lean name, type)
    cond: Ex
    then: object
    orelse: object
    body: object


@dataclass
class MatchNan:
    """split on a `val` variable: `nan_tree` when it is NaN, `num_tree` (where `name` is a `rat`) otherwise"""
    name: str
    nan_tree: object
    num_tree: object


@dataclass
class CheckDiv:
    """raise ZeroDivisionError when the local `name` (type ty) is zero"""
    name: str
    ty: str
    body: object


@dataclass
class Raise:
    """`raise <exc>(...)`: the function ends with this exception (glue extension, see GLUE EXTENSION below)"""
    exc: str


@dataclass(frozen=True)
class Param:
    """a parameter as the generator declares it: kind in {val, rat, int, bool, str} or 'array' with the element
    types of its (fixed) cells; glue extension: 'record' (an object read only through the declared atoms: cells =
    ((source text, Lean parameter, type), …), e.g. `roi["col"]["first"]`, `int(img_left.sizes["col"])`) and 'opaque'
    (a parameter that is never read, e.g. `self`)"""
    name: str
    kind: str
    cells: Tuple[str, ...] = ()


@dataclass
class Kernel:
    py_name: str
    lean_name: str
    params: List[Param]
    lean_params: List[Tuple[str, str]]  # flattened (lean name, type)
    tree: object
    ret_types: List[str]
    partial: bool  # a tested division exists
    source: str = ""
    notes: List[str] = field(default_factory=list)
    raises: bool = False  # a `raise` statement exists: the result is a `PyExpr.PyOut`
    ret_shape: str = "_"  # nesting of the returned value, e.g. `((_, _), (_, _))` or `Window(_, _, _, _)` (flattened in Lean)


@dataclass
class Binding:
    lean: str
    ty: str  # a type, or "nanconst": the atom is known to be NaN


class _NeedsDuplication(Exception):
    """internal: a merged `if` cannot hold this construct; translate by duplicating the continuation"""


def join(a: str, b: str, what: str) -> str:
    if a == b:
        return a
    if a in NUMERIC and b in NUMERIC:
        return NUMERIC[max(NUMERIC.index(a), NUMERIC.index(b))]
    raise Unsupported(f"{what}: cannot unify the types {a} and {b}")


def cast(e: Ex, ty: str) -> Ex:
    if e.ty == ty:
        return e
    if e.ty in NUMERIC and ty in NUMERIC and NUMERIC.index(e.ty) < NUMERIC.index(ty):
        if e.op == "lit" and e.ty == INT:
            e = Ex("lit", RAT, (), Fraction(e.aux))  # an integer literal used as a float
            if ty == RAT:
                return e
        return Ex("cast", ty, (e,))
    raise Unsupported(f"cannot convert {e.ty} to {ty}")


def lean_ident(name: str) -> str:
    if name in LEAN_KEYWORDS:
        return "«" + name + "»"
    if not (name.isidentifier() and name.isascii()):
        raise Unsupported(f"identifier `{name}` cannot be used in Lean")
    return name


def src(node: ast.AST) -> str:
    try:
        return ast.unparse(node)
    except Exception:  # pylint: disable=broad-except
        return ast.dump(node)[:80]


# ------------------------------------------------------------------------------------------------
# translation
# ------------------------------------------------------------------------------------------------
class Translator:
    """One instance per function.  `consts`: dotted name -> int | Fraction (resolved by the generator from the
    source tree); `numpy_names`: the local names bound to the numpy module."""

    def __init__(self, fn: ast.FunctionDef, lean_name: str, params: Sequence[Param], consts=None,
                 numpy_names=("np",), source_text: Optional[str] = None, exceptions=(), constructors=None,
                 math_names=None, bitops=False, pymod=False, modulo=False):
        # bit-operation extension (`bitops`): `& | ^ >> << + * -` on non-negative ints (`nat`); `pymod`: `e % <positive
        # literal>` on an int / a float that is not NaN — both off unless the generator asks
        self.bitops = bool(bitops)
        self.pymod = bool(pymod)
        # `modulo` (glue extension, off by default): `e % n` with a positive integer literal `n` on an int / a float that
        # is not NaN (Python's and numpy's floor modulo, op "modlit"), and `a & b` on two booleans (both operands are pure)
        self.modulo = bool(modulo)
        # glue extension: `exceptions` = names that may be raised (`raise ValueError("…")`), `constructors` = {local name:
        # arity} of calls accepted as the returned value (`Window(a, b, c, d)`, returned as the tuple of its arguments),
        # `math_names` = {local name: "ceil" | "floor"} bound by `from math import …` (all checked by the generator)
        self.exceptions = set(exceptions)
        self.constructors = dict(constructors or {})
        self.math_names = dict(math_names or {})
        self.tuple_locals: Dict[str, int] = {}
        self.raises = False
        self.ctor_checks: List[Tuple[Ex, str]] = []
        self.ret_shapes: List[str] = []
        self.fn = fn
        self.lean_name = lean_name
        self.params = list(params)
        self.consts = dict(consts or {})
        self.numpy_names = set(numpy_names)
        self.source_text = source_text
        self.pending: List[Tuple[str, Ex]] = []  # divisor tests to hoist before the current statement
        self.short_circuit = 0
        self.pure_mode = 0  # inside a merged `if`: no return, no tested division
        self.n_div = 0
        self.partial = False
        self.notes: List[str] = []
        self.rets: List[Ret] = []
        self.reserved = set()
        self.atoms: Dict[str, Binding] = {}  # source text of a sub-expression -> the variable that stands for it

    # ---- entry
    def translate(self) -> Kernel:
        fn = self.fn
        a = fn.args
        if a.vararg or a.kwarg or a.kwonlyargs or a.posonlyargs or a.defaults or a.kw_defaults:
            raise Unsupported(f"{fn.name}: only plain positional parameters are supported")
        names = [x.arg for x in a.args]
        if names != [p.name for p in self.params]:
            raise Unsupported(f"{fn.name}: parameters {names} are not the declared {[p.name for p in self.params]}")
        env: Dict[str, Binding] = {}
        lean_params = []
        for p in self.params:
            if p.kind == "array":
                for i, ty in enumerate(p.cells):
                    ln = lean_ident(f"{p.name}{i}")
                    env[f"{p.name}[{i}]"] = Binding(ln, ty)
                    lean_params.append((ln, ty))
                    self.reserved.add(f"{p.name}{i}")
            elif p.kind in (VAL, RAT, INT, BOOL, STR) or (p.kind == NAT and self.bitops):
                env[p.name] = Binding(lean_ident(p.name), p.kind)
                lean_params.append((lean_ident(p.name), p.kind))
            elif p.kind == "record":
                for text, lean, ty in p.cells:
                    if ty not in (VAL, RAT, INT, BOOL):
                        raise Unsupported(f"{fn.name}: atom `{text}` of unknown type {ty}")
                    node = ast.parse(text, mode="eval").body
                    if not any(isinstance(x, ast.Name) and x.id == p.name for x in ast.walk(node)):
                        raise Unsupported(f"{fn.name}: atom `{text}` does not read the parameter `{p.name}`")
                    self.atoms[src(node)] = Binding(lean_ident(lean), ty)
                    lean_params.append((lean_ident(lean), ty))
                    self.reserved.add(lean)
            elif p.kind == "opaque":
                pass  # never read: any use is an unknown name
            else:
                raise Unsupported(f"{fn.name}: unknown parameter kind {p.kind}")
        if len({n for n, _ in lean_params}) != len(lean_params):
            raise Unsupported(f"{fn.name}: parameter names collide once flattened")
        assigned = self.assigned_names(fn.body)
        self.tuple_locals = self.scan_tuple_locals(fn, assigned, {n for n, _ in lean_params})
        for n in assigned:
            if n == "int" or n in self.math_names or n in self.constructors or n in self.exceptions:
                raise Unsupported(f"{fn.name}: the local `{n}` shadows a name the translator gives a meaning to")
            if n in BUILTINS or n in self.numpy_names or n.split(".")[0] in {c.split(".")[0] for c in self.consts}:
                raise Unsupported(f"{fn.name}: the local `{n}` shadows a name the translator gives a meaning to")
            if n in self.reserved or n.startswith("pyDiv"):
                raise Unsupported(f"{fn.name}: the local `{n}` collides with a generated name")
            if any(p.name == n and not (self.bitops and p.kind == NAT) for p in self.params):
                # (a `nat` parameter may be rebound — `row -= …`: a scalar passed by value, shadowed in Lean)
                raise Unsupported(f"{fn.name}: the parameter `{n}` is reassigned")
        for node in ast.walk(fn):
            if isinstance(node, (ast.Global, ast.Nonlocal, ast.Lambda, ast.FunctionDef, ast.ClassDef)) and node is not fn:
                raise Unsupported(f"{fn.name}: nested definitions / global are not supported")
        tree = self.stmts(list(fn.body), env, frozenset(), [])
        if not self.rets:
            raise Unsupported(f"{fn.name}: no return statement")
        arity = {len(r.values) for r in self.rets}
        if len(arity) != 1:
            raise Unsupported(f"{fn.name}: return statements of different arities {sorted(arity)}")
        if len(set(self.ret_shapes)) != 1:
            raise Unsupported(f"{fn.name}: return statements of different shapes {sorted(set(self.ret_shapes))}")
        n = arity.pop()
        ret_types = []
        for i in range(n):
            ty = self.rets[0].values[i].ty
            for r in self.rets[1:]:
                ty = join(ty, r.values[i].ty, f"{fn.name}: component {i} of the result")
            ret_types.append(ty)
        for r in self.rets:
            r.values = [cast(v, ty) for v, ty in zip(r.values, ret_types)]
        return Kernel(fn.name, self.lean_name, self.params, lean_params, tree, ret_types, self.partial,
                      notes=self.notes, raises=self.raises, ret_shape=self.ret_shapes[0])

    # ---- glue extension: tuple-valued locals, `raise`, constructor / nested-tuple returns
    def scan_tuple_locals(self, fn, assigned, taken) -> Dict[str, int]:
        """locals that are always assigned a tuple display of one fixed length: `p = (a, b)`.  They live as their
        components (`p[0]` -> Lean `p0`, …) and are read through literal subscripts or returned whole."""
        arity: Dict[str, set] = {}
        for node in ast.walk(fn):
            if isinstance(node, ast.Assign) and len(node.targets) == 1 and isinstance(node.targets[0], ast.Name):
                k = len(node.value.elts) if isinstance(node.value, ast.Tuple) else None
                arity.setdefault(node.targets[0].id, set()).add(k)
            elif isinstance(node, (ast.AnnAssign, ast.AugAssign)) and isinstance(node.target, ast.Name):
                arity.setdefault(node.target.id, set()).add(None)
        out = {}
        for n, ks in arity.items():
            if ks == {None}:
                continue
            if len(ks) != 1 or None in ks:
                raise Unsupported(f"{fn.name}: the local `{n}` is a tuple on some assignments only / of varying length")
            k = ks.pop()
            if k == 0:
                raise Unsupported(f"{fn.name}: the local `{n}` is an empty tuple")
            for i in range(k):
                if f"{n}{i}" in assigned or f"{n}{i}" in taken or any(p.name == f"{n}{i}" for p in self.params):
                    raise Unsupported(f"{fn.name}: component name `{n}{i}` of the tuple local `{n}` collides")
            out[n] = k
        return out

    def local_ident(self, key: str) -> str:
        """Lean name of a local: `x` -> x, component `p[1]` of a tuple local -> p1"""
        if key.endswith("]") and "[" in key:
            n, i = key[:-1].split("[")
            return lean_ident(f"{n}{i}")
        return lean_ident(key)

    def expand_names(self, names: List[str]) -> List[str]:
        out = []
        for n in names:
            if n in self.tuple_locals:
                out += [f"{n}[{i}]" for i in range(self.tuple_locals[n])]
            else:
                out.append(n)
        return out

    def mentions(self, e: Ex, lean: str) -> bool:
        return (e.op == "var" and e.aux == lean) or any(self.mentions(x, lean) for x in e.args)

    def tuple_assign(self, name, value, rest, env, facts, cont, merge_names):
        """`p = (e0, …)`: every element is evaluated with the old bindings, then the components are bound"""
        if not isinstance(value, ast.Tuple) or len(value.elts) != self.tuple_locals[name]:
            raise TranslatorBug("tuple local without a tuple display")
        mark = len(self.pending)
        es = [self.expr(v, env, facts) for v in value.elts]
        for e in es:
            if e.ty not in NUMERIC + (BOOL,):
                raise Unsupported(f"{self.fn.name}: a {e.ty} in the tuple local `{name}`")
        keys = [f"{name}[{i}]" for i in range(len(es))]
        leans = [self.local_ident(k) for k in keys]
        direct = not any(self.mentions(es[j], leans[i]) for j in range(len(es)) for i in range(j))
        env2 = dict(env)
        for k, ln, e in zip(keys, leans, es):
            env2[k] = Binding(ln, e.ty)
        facts2 = frozenset(f for f in facts if f not in keys)
        body = self.stmts(rest, env2, facts2, cont, merge_names)
        if direct:
            for ln, e in reversed(list(zip(leans, es))):
                body = Let(ln, e, body)
        else:  # an element reads a component bound before it: go through temporaries
            tmps = [f"pyTup{i}" for i in range(len(es))]
            for ln, t, e in reversed(list(zip(leans, tmps, es))):
                body = Let(ln, Ex("var", e.ty, (), t), body)
            for t, e in reversed(list(zip(tmps, es))):
                body = Let(t, e, body)
        return self.wrap_pending(body, mark)

    def return_values(self, node, env, facts) -> Tuple[List[Ex], str]:
        """the returned value flattened, and its shape: nested tuple displays, tuple locals and an accepted
        constructor call are opened, anything else is one expression"""
        if isinstance(node, ast.Tuple):
            parts = [self.return_values(x, env, facts) for x in node.elts]
            return [v for vs, _ in parts for v in vs], "(" + ", ".join(sh for _, sh in parts) + ")"
        if isinstance(node, ast.Name) and node.id in self.tuple_locals:
            keys = [f"{node.id}[{i}]" for i in range(self.tuple_locals[node.id])]
            for k in keys:
                if k not in env:
                    raise Unsupported(f"{self.fn.name}: the tuple local `{node.id}` is returned before it is assigned")
            return [self.var(env[k]) for k in keys], "(" + ", ".join("_" for _ in keys) + ")"
        if isinstance(node, ast.Call) and isinstance(node.func, ast.Name) and node.func.id in self.constructors:
            spec = self.constructors[node.func.id]
            arity, nonneg, exc = spec if isinstance(spec, tuple) else (spec, (), None)
            if node.keywords or any(isinstance(a, ast.Starred) for a in node.args) or len(node.args) != arity:
                raise Unsupported(f"{self.fn.name}: `{src(node)}`: the constructor takes {arity} positional arguments")
            args = [self.expr(a, env, facts) for a in node.args]
            # what the constructor itself checks (declared by the generator from the library's source): the listed
            # arguments must not be negative, or it raises `exc` — recorded as "<constructor>: <exception>"
            for i in nonneg:
                if args[i].ty not in NUMERIC:
                    raise Unsupported(f"{self.fn.name}: `{src(node)}`: argument {i} is a {args[i].ty}")
                zero = cast(Ex("lit", INT, (), Fraction(0)), args[i].ty)
                self.ctor_checks.append((self.mk_cmp("lt", args[i], zero), f"{node.func.id}: {exc}"))
            return args, node.func.id + "(" + ", ".join("_" for _ in node.args) + ")"
        return [self.expr(node, env, facts)], "_"

    def raise_name(self, st: ast.Raise) -> str:
        if st.cause is not None or st.exc is None:
            raise Unsupported(f"{self.fn.name}: `{src(st)}` (only `raise Name(\"message\")`)")
        exc = st.exc
        if isinstance(exc, ast.Call):
            if exc.keywords or not all(isinstance(a, ast.Constant) and isinstance(a.value, str) for a in exc.args):
                raise Unsupported(f"{self.fn.name}: `{src(st)}`: the arguments of the exception are not string literals")
            exc = exc.func
        if not (isinstance(exc, ast.Name) and exc.id in self.exceptions):
            raise Unsupported(f"{self.fn.name}: `{src(st)}`: exception outside the declared ones {sorted(self.exceptions)}")
        return exc.id

    @staticmethod
    def assigned_names(stmts) -> List[str]:
        out = []
        for st in stmts:
            for node in ast.walk(st):
                tgt = None
                if isinstance(node, ast.Assign):
                    tgt = node.targets
                elif isinstance(node, (ast.AnnAssign, ast.AugAssign)):
                    tgt = [node.target]
                elif isinstance(node, ast.NamedExpr):
                    raise Unsupported("assignment expressions (`:=`) are not supported")
                for t in tgt or []:
                    if isinstance(t, ast.Name):
                        if t.id not in out:
                            out.append(t.id)
                    else:
                        raise Unsupported(f"assignment target `{src(t)}` is not a local name")
        return out

    @staticmethod
    def contains_return(stmts) -> bool:
        return any(isinstance(n, (ast.Return, ast.Raise)) for st in stmts for n in ast.walk(st))

    # ---- statements
    def wrap_pending(self, tree, mark: int):
        """hoist the divisor tests recorded since `mark` in front of `tree` (first recorded = outermost)"""
        mine = self.pending[mark:]
        del self.pending[mark:]
        for name, divisor in reversed(mine):
            tree = Let(name, divisor, CheckDiv(name, divisor.ty, tree))
        return tree

    def stmts(self, ss, env, facts, cont, merge_names=None):
        """translate the statement list `ss`, then the continuation blocks `cont` (a stack of statement lists).
        With `merge_names` (inside a merged `if`) the end of the block yields those locals."""
        if not ss:
            if cont:
                return self.stmts(cont[0], env, facts, cont[1:], merge_names)
            if merge_names is not None:
                vals = []
                for n in merge_names:
                    if n not in env:
                        raise Unsupported(f"{self.fn.name}: the local `{n}` is defined on one side of an `if` only")
                    vals.append(self.var(env[n]))
                return Yield(vals)
            raise Unsupported(f"{self.fn.name}: a path reaches the end of the function without `return`")
        st, rest = ss[0], ss[1:]
        if isinstance(st, ast.Pass):
            return self.stmts(rest, env, facts, cont, merge_names)
        if isinstance(st, ast.Expr):
            if isinstance(st.value, ast.Constant) and isinstance(st.value.value, str):
                return self.stmts(rest, env, facts, cont, merge_names)  # docstring
            raise Unsupported(f"{self.fn.name}: expression statement `{src(st)}`")
        if isinstance(st, (ast.Assign, ast.AnnAssign, ast.AugAssign)):
            if isinstance(st, ast.Assign):
                if len(st.targets) != 1:
                    raise Unsupported(f"{self.fn.name}: chained assignment `{src(st)}`")
                target, value = st.targets[0], st.value
            elif isinstance(st, ast.AnnAssign):
                if st.value is None:
                    raise Unsupported(f"{self.fn.name}: annotation without value `{src(st)}`")
                target, value = st.target, st.value
            else:
                target = st.target
                if not isinstance(target, ast.Name):
                    raise Unsupported(f"{self.fn.name}: assignment target `{src(target)}` is not a local name")
                value = ast.BinOp(left=ast.Name(id=target.id, ctx=ast.Load()), op=st.op, right=st.value)
            if not isinstance(target, ast.Name):
                raise Unsupported(f"{self.fn.name}: assignment target `{src(target)}` is not a local name")
            if target.id in self.tuple_locals:
                return self.tuple_assign(target.id, value, rest, env, facts, cont, merge_names)
            mark = len(self.pending)
            e = self.expr(value, env, facts)
            if e.ty == STR:
                raise Unsupported(f"{self.fn.name}: string-valued local `{target.id}`")
            if e.ty == "nanconst":
                raise TranslatorBug("nanconst escaped")
            env2 = dict(env)
            env2[target.id] = Binding(lean_ident(target.id), e.ty)
            facts2 = frozenset(f for f in facts if f != target.id)
            if self.is_nonzero(e, env, facts) and e.ty in NUMERIC:
                facts2 = facts2 | {target.id}
            body = self.stmts(rest, env2, facts2, cont, merge_names)
            return self.wrap_pending(Let(lean_ident(target.id), e, body), mark)
        if isinstance(st, ast.Return):
            if self.pure_mode:
                raise _NeedsDuplication()
            if rest:
                raise Unsupported(f"{self.fn.name}: statement after `return`")
            if st.value is None:
                raise Unsupported(f"{self.fn.name}: `return` without a value")
            mark = len(self.pending)
            self.ctor_checks = []
            vals, shape = self.return_values(st.value, env, facts)
            self.ret_shapes.append(shape)
            for v in vals:
                if v.ty not in NUMERIC + (BOOL,) + ((NAT,) if self.bitops else ()):
                    raise Unsupported(f"{self.fn.name}: a {v.ty} is returned")
            r = Ret(vals)
            self.rets.append(r)
            tree = r
            for cond, exc in reversed(self.ctor_checks):  # the constructor's own validation, first argument first
                self.raises = True
                tree = If(cond, Raise(exc), tree)
            return self.wrap_pending(tree, mark)
        if isinstance(st, ast.If):
            return self.if_stmt(st, rest, env, facts, cont, merge_names)
        if isinstance(st, ast.Raise) and self.exceptions:
            if self.pure_mode:
                raise _NeedsDuplication()
            if rest:
                raise Unsupported(f"{self.fn.name}: statement after `raise`")
            self.raises = True
            return Raise(self.raise_name(st))
        raise Unsupported(f"{self.fn.name}: statement `{type(st).__name__}` is outside the subset")

    def if_stmt(self, st, rest, env, facts, cont, merge_names):
        has_return = self.contains_return([st])
        if not has_return:
            # try the merged form: `let xs := if c then … else …`
            saved = (len(self.pending), self.n_div, self.partial, len(self.rets))
            try:
                return self.merged_if(st, rest, env, facts, cont, merge_names)
            except _NeedsDuplication:
                del self.pending[saved[0]:]
                self.n_div, self.partial = saved[1], saved[2]
                del self.rets[saved[3]:]
                if self.pure_mode:
                    raise
        elif self.pure_mode:
            raise _NeedsDuplication()
        # duplication: each branch is continued by the statements that follow
        saved = (len(self.pending), self.n_div, self.partial, len(self.notes))
        probe = self.expr(st.test, env, facts)
        del self.pending[saved[0]:]
        del self.notes[saved[3]:]
        self.n_div, self.partial = saved[1], saved[2]
        atom = self.nan_split_atom(st.test, env) if probe.op != "const" else None
        if atom is not None:
            b = env[atom]
            env_nan = dict(env)
            env_nan[atom] = Binding(b.lean, "nanconst")
            env_num = dict(env)
            env_num[atom] = Binding(b.lean, RAT)
            nan_tree = self.if_stmt(st, rest, env_nan, facts, cont, merge_names)
            num_tree = self.if_stmt(st, rest, env_num, facts, cont, merge_names)
            return MatchNan(b.lean, nan_tree, num_tree)
        mark = len(self.pending)
        c = self.expr(st.test, env, facts)
        if c.ty != BOOL:
            raise Unsupported(f"{self.fn.name}: the test `{src(st.test)}` is not a boolean (no truthiness of numbers)")
        new_cont = [rest] + list(cont)
        if c.op == "const":
            branch = st.body if c.aux else st.orelse
            fs = facts | self.facts_of(st.test, env, c.aux)
            return self.wrap_pending(self.stmts(list(branch), env, fs, new_cont, merge_names), mark)
        t = self.stmts(list(st.body), env, facts | self.facts_of(st.test, env, True), new_cont, merge_names)
        e = self.stmts(list(st.orelse), env, facts | self.facts_of(st.test, env, False), new_cont, merge_names)
        return self.wrap_pending(If(c, t, e), mark)

    def merged_if(self, st, rest, env, facts, cont, merge_names):
        mark = len(self.pending)
        c = self.expr(st.test, env, facts)  # evaluated unconditionally: its divisor tests are hoisted before the `if`
        if c.ty != BOOL:
            raise Unsupported(f"{self.fn.name}: the test `{src(st.test)}` is not a boolean (no truthiness of numbers)")
        names = self.expand_names(self.assigned_names(list(st.body) + list(st.orelse)))
        for n in names:
            if n in env and env[n].ty == "nanconst":
                raise _NeedsDuplication()
        inner_mark = len(self.pending)
        self.pure_mode += 1
        try:
            t = self.stmts(list(st.body), env, facts | self.facts_of(st.test, env, True), [], names)
            e = self.stmts(list(st.orelse), env, facts | self.facts_of(st.test, env, False), [], names)
        finally:
            self.pure_mode -= 1
        if len(self.pending) != inner_mark:
            raise TranslatorBug("a divisor test escaped a merged branch")
        ty, ey = self.final_yield(t), self.final_yield(e)
        types = [join(a.ty, b.ty, f"{self.fn.name}: local `{n}` after the `if`") for n, a, b in zip(names, ty.values, ey.values)]
        for y in (ty, ey):
            y.values = [cast(v, tt) for v, tt in zip(y.values, types)]
        env2 = dict(env)
        for n, tt in zip(names, types):
            env2[n] = Binding(self.local_ident(n), tt)
        facts2 = frozenset(f for f in facts if f not in names)
        body = self.stmts(rest, env2, facts2, cont, merge_names)
        if not names:
            return self.wrap_pending(body, mark)
        node = Merge([(self.local_ident(n), tt) for n, tt in zip(names, types)], c, t, e, body)
        return self.wrap_pending(node, mark)

    @staticmethod
    def final_yields(tree, out):
        if isinstance(tree, Yield):
            out.append(tree)
        elif isinstance(tree, Let):
            Translator.final_yields(tree.body, out)
        elif isinstance(tree, Merge):
            Translator.final_yields(tree.body, out)
        else:
            raise _NeedsDuplication()

    def final_yield(self, tree) -> Yield:
        out: List[Yield] = []
        self.final_yields(tree, out)
        if len(out) != 1:
            raise _NeedsDuplication()
        return out[0]

    # ---- NaN split and guard facts
    def atom_key(self, node, env) -> Optional[str]:
        if isinstance(node, ast.Name) and node.id in env:
            return node.id
        if isinstance(node, ast.Subscript) and isinstance(node.value, ast.Name):
            k = self.subscript_key(node)
            if k in env:
                return k
        return None

    def subscript_key(self, node: ast.Subscript) -> Optional[str]:
        p = next((p for p in self.params if p.kind == "array" and p.name == node.value.id), None)
        if p is None and node.value.id not in self.tuple_locals:
            return None
        idx = node.slice
        if isinstance(idx, ast.UnaryOp) and isinstance(idx.op, ast.USub) and isinstance(idx.operand, ast.Constant):
            i = idx.operand.value
            if not isinstance(i, int) or isinstance(i, bool):
                return None
            i = -i
        elif isinstance(idx, ast.Constant) and isinstance(idx.value, int) and not isinstance(idx.value, bool):
            i = idx.value
        else:
            return None
        n = len(p.cells) if p is not None else self.tuple_locals[node.value.id]
        if i < -n or i >= n:
            raise Unsupported(f"{self.fn.name}: `{src(node)}` is outside the {n} cells of `{node.value.id}`")
        return f"{node.value.id}[{i % n}]"

    def is_isnan_call(self, node) -> bool:
        return (isinstance(node, ast.Call) and isinstance(node.func, ast.Attribute) and node.func.attr == "isnan"
                and isinstance(node.func.value, ast.Name) and node.func.value.id in self.numpy_names
                and len(node.args) == 1 and not node.keywords)

    def nan_split_atom(self, test, env) -> Optional[str]:
        """first `np.isnan(atom)` of the test whose atom may be NaN"""
        for node in ast.walk(test):
            if self.is_isnan_call(node):
                k = self.atom_key(node.args[0], env)
                if k is not None and env[k].ty == VAL:
                    return k
        return None

    @staticmethod
    def zero_literal(node) -> bool:
        return isinstance(node, ast.Constant) and not isinstance(node.value, bool) and isinstance(node.value, (int, float)) \
            and node.value == 0

    def literal_value(self, node) -> Optional[Fraction]:
        if isinstance(node, ast.Constant) and not isinstance(node.value, bool) and isinstance(node.value, (int, float)):
            return self.literal(node).aux
        if isinstance(node, ast.UnaryOp) and isinstance(node.op, ast.USub):
            v = self.literal_value(node.operand)
            return None if v is None else -v
        return None

    def facts_of(self, test, env, truth: bool) -> frozenset:
        """local names / cells known to be non-zero when `test` evaluated to `truth`"""
        out = set()
        if isinstance(test, ast.BoolOp):
            if (isinstance(test.op, ast.And) and truth) or (isinstance(test.op, ast.Or) and not truth):
                for v in test.values:
                    out |= self.facts_of(v, env, truth)
            return frozenset(out)
        if isinstance(test, ast.UnaryOp) and isinstance(test.op, ast.Not):
            return self.facts_of(test.operand, env, not truth)
        if isinstance(test, ast.Compare) and len(test.ops) == 1:
            op, a, b = test.ops[0], test.left, test.comparators[0]
            # x == 0 false / x != 0 true
            for x, z in ((a, b), (b, a)):
                k = self.atom_key(x, env)
                if k is not None and env[k].ty in NUMERIC and self.zero_literal(z):
                    if (isinstance(op, ast.Eq) and not truth) or (isinstance(op, ast.NotEq) and truth):
                        out.add(k)
            # abs(x) < c false (c > 0), abs(x) <= c false (c >= 0), abs(x) > c true (c >= 0), abs(x) >= c true (c > 0)
            flip = {ast.Lt: ast.Gt, ast.LtE: ast.GtE, ast.Gt: ast.Lt, ast.GtE: ast.LtE}
            for x, c, o in ((a, b, type(op)), (b, a, flip.get(type(op)))):
                if o is None:
                    continue
                if isinstance(x, ast.Call) and isinstance(x.func, ast.Name) and x.func.id == "abs" and len(x.args) == 1 \
                        and not x.keywords:
                    k = self.atom_key(x.args[0], env)
                    cv = self.literal_value(c)
                    if k is None or cv is None or env[k].ty not in NUMERIC:
                        continue
                    if (o is ast.Lt and not truth and cv > 0) or (o is ast.LtE and not truth and cv >= 0) \
                            or (o is ast.Gt and truth and cv >= 0) or (o is ast.GtE and truth and cv > 0):
                        out.add(k)
        return frozenset(out)

    def is_nonzero(self, e: Ex, env, facts) -> bool:
        """the IR expression cannot be zero (NaN counts as non-zero: it does not raise)"""
        if e.op == "lit":
            return e.aux != 0
        if e.op == "nan":
            return True
        if e.op == "var":
            return any(k in facts and b.lean == e.aux for k, b in env.items())
        if e.op in ("cast", "neg", "abs", "pow"):
            return self.is_nonzero(e.args[0], env, facts)
        if e.op == "mul":
            return self.is_nonzero(e.args[0], env, facts) and self.is_nonzero(e.args[1], env, facts)
        return False

    # ---- expressions
    def var(self, b: Binding) -> Ex:
        if b.ty == "nanconst":
            return Ex("nan", VAL)
        return Ex("var", b.ty, (), b.lean)

    def literal(self, node: ast.Constant) -> Ex:
        v = node.value
        if isinstance(v, bool):
            return Ex("const", BOOL, (), v)
        if isinstance(v, int):
            return Ex("lit", INT, (), Fraction(v))
        if isinstance(v, float):
            text = None
            if self.source_text is not None:
                text = ast.get_source_segment(self.source_text, node)
            if text is None:
                text = repr(v)
            try:
                q = Fraction(text.replace("_", ""))
            except (ValueError, ZeroDivisionError) as exc:
                raise Unsupported(f"float literal `{text}` has no exact decimal reading") from exc
            if float(q) != v:
                raise Unsupported(f"float literal `{text}` read as {q} which is not the value {v!r}")
            return Ex("lit", RAT, (), q)
        raise Unsupported(f"literal `{v!r}` is outside the subset")

    def num_pair(self, a: Ex, b: Ex, what: str) -> Tuple[Ex, Ex, str]:
        if a.ty not in NUMERIC or b.ty not in NUMERIC:
            raise Unsupported(f"{self.fn.name}: `{what}` on {a.ty} and {b.ty}")
        ty = join(a.ty, b.ty, what)
        return cast(a, ty), cast(b, ty), ty

    def expr(self, node, env, facts) -> Ex:
        fn = self.fn.name
        if self.atoms and not isinstance(node, ast.Constant):
            key = src(node)
            if key in self.atoms:
                return self.var(self.atoms[key])
        if isinstance(node, ast.Constant):
            if isinstance(node.value, str):
                raise Unsupported(f"{fn}: a string literal outside a comparison with a parameter")
            return self.literal(node)
        if isinstance(node, ast.Name):
            if node.id in env:
                if env[node.id].ty == "array":
                    raise Unsupported(f"{fn}: the array `{node.id}` is used without a literal subscript")
                return self.var(env[node.id])
            if any(p.kind == "array" and p.name == node.id for p in self.params):
                raise Unsupported(f"{fn}: the array `{node.id}` is used without a literal subscript")
            raise Unsupported(f"{fn}: unknown name `{node.id}`")
        if isinstance(node, ast.Subscript):
            if isinstance(node.value, ast.Name):
                k = self.subscript_key(node)
                if k is not None and k in env:
                    return self.var(env[k])
            raise Unsupported(f"{fn}: subscript `{src(node)}` (only `param[<int literal>]`)")
        if isinstance(node, ast.Attribute):
            dotted = src(node)
            if isinstance(node.value, ast.Name) and node.value.id in self.numpy_names and node.attr in ("nan", "NaN", "NAN"):
                return Ex("nan", VAL)
            if dotted in self.consts:
                v = self.consts[dotted]
                if isinstance(v, bool) or not isinstance(v, (int, Fraction)):
                    raise Unsupported(f"{fn}: constant `{dotted}` is not a number")
                return Ex("lit", INT if isinstance(v, int) else RAT, (), Fraction(v))
            raise Unsupported(f"{fn}: attribute `{dotted}` is not a known constant")
        if isinstance(node, ast.UnaryOp):
            if isinstance(node.op, ast.Not):
                e = self.expr(node.operand, env, facts)
                if e.ty != BOOL:
                    raise Unsupported(f"{fn}: `not` on a {e.ty} (no truthiness of numbers)")
                return self.mk_not(e)
            e = self.expr(node.operand, env, facts)
            if e.ty not in NUMERIC:
                raise Unsupported(f"{fn}: unary operator on a {e.ty}")
            if isinstance(node.op, ast.UAdd):
                return e
            if isinstance(node.op, ast.USub):
                if e.op == "lit":
                    return Ex("lit", e.ty, (), -e.aux)
                return Ex("neg", e.ty, (e,))
            raise Unsupported(f"{fn}: unary operator `{src(node)}`")
        if isinstance(node, ast.BinOp):
            if self.modulo and isinstance(node.op, ast.Mod):
                n = node.right
                if not (isinstance(n, ast.Constant) and isinstance(n.value, int) and not isinstance(n.value, bool) and n.value >= 1):
                    raise Unsupported(f"{fn}: `%` with a divisor that is not an integer literal >= 1: `{src(node)}`")
                base = self.expr(node.left, env, facts)
                if base.ty not in (INT, RAT):
                    raise Unsupported(f"{fn}: `%` on a {base.ty}")
                return Ex("modlit", base.ty, (base,), n.value)
            if self.modulo and isinstance(node.op, ast.BitAnd):
                a = self.expr(node.left, env, facts)
                b = self.expr(node.right, env, facts)
                if a.ty != BOOL or b.ty != BOOL:
                    raise Unsupported(f"{fn}: `&` on {a.ty} and {b.ty} (booleans only)")
                return self.mk_bool("and", a, b)
            if isinstance(node.op, ast.Pow):
                base = self.expr(node.left, env, facts)
                n = node.right
                if not (isinstance(n, ast.Constant) and isinstance(n.value, int) and not isinstance(n.value, bool) and n.value >= 1):
                    raise Unsupported(f"{fn}: `**` with an exponent that is not an integer literal >= 1: `{src(node)}`")
                if base.ty not in NUMERIC:
                    raise Unsupported(f"{fn}: `**` on a {base.ty}")
                return Ex("pow", base.ty, (base,), n.value)
            a = self.expr(node.left, env, facts)
            b = self.expr(node.right, env, facts)
            if self.bitops and (type(node.op) in NAT_BITOPS or NAT in (a.ty, b.ty)):
                return self.nat_binop(node, a, b)
            if self.pymod and isinstance(node.op, ast.Mod):
                return self.py_mod(node, a, b)
            ops = {ast.Add: "add", ast.Sub: "sub", ast.Mult: "mul"}
            if type(node.op) in ops:
                a, b, ty = self.num_pair(a, b, src(node))
                return Ex(ops[type(node.op)], ty, (a, b))
            if isinstance(node.op, ast.Div):
                return self.division(a, b, node, env, facts)
            raise Unsupported(f"{fn}: operator in `{src(node)}` is outside the subset")
        if isinstance(node, ast.BoolOp):
            first = self.expr(node.values[0], env, facts)
            others = []
            self.short_circuit += 1
            try:
                # an operand is evaluated only when the previous ones were all true (`and`) / all false (`or`): what
                # they say about non-zero locals holds there (`y != 0 and x / y > 1`)
                known = facts
                for prev, v in zip(node.values, node.values[1:]):
                    known = known | self.facts_of(prev, env, isinstance(node.op, ast.And))
                    others.append(self.expr(v, env, known))
            finally:
                self.short_circuit -= 1
            out = first
            for e in [first] + others:
                if e.ty != BOOL:
                    raise Unsupported(f"{fn}: `{src(node)}`: and/or on a {e.ty} (no truthiness of numbers)")
            for e in others:
                out = self.mk_bool("and" if isinstance(node.op, ast.And) else "or", out, e)
            return out
        if isinstance(node, ast.Compare):
            return self.compare(node, env, facts)
        if isinstance(node, ast.Call):
            return self.call(node, env, facts)
        raise Unsupported(f"{fn}: expression `{src(node)}` ({type(node).__name__}) is outside the subset")

    # ---- bit-operation extension: non-negative ints
    def to_nat(self, e: Ex, node) -> Ex:
        if e.ty == NAT:
            return e
        if e.op == "lit" and e.ty == INT and e.aux >= 0:
            return Ex("lit", NAT, (), e.aux)
        raise Unsupported(f"{self.fn.name}: `{src(node)}`: an operand is a {e.ty}, not a non-negative int")

    @staticmethod
    def nat_le(b: Ex, a: Ex) -> bool:
        """`b <= a` for every value of the variables, by the shape of the two expressions only"""
        if b == a:
            return True
        if b.op == "lit" and a.op == "lit":
            return b.aux <= a.aux
        if b.op == "lit" and b.aux == 0:
            return True
        if b.op == "band" and (Translator.nat_le(b.args[0], a) or Translator.nat_le(b.args[1], a)):
            return True
        if b.op == "shr" and Translator.nat_le(b.args[0], a):
            return True
        if a.op == "add" and (Translator.nat_le(b, a.args[0]) or Translator.nat_le(b, a.args[1])):
            return True
        if a.op == "bor" and (Translator.nat_le(b, a.args[0]) or Translator.nat_le(b, a.args[1])):
            return True
        return False

    def nat_binop(self, node, a: Ex, b: Ex) -> Ex:
        """`& | ^ >> << + * -` on non-negative ints.  Python ints are unbounded and so is `Nat`; `a - b` is accepted only
        when `b <= a` follows from the shape of the operands (`x - ((x >> 1) & m)`), so that Python's difference is never
        negative and equals Lean's truncated subtraction (the evaluator tests it on every evaluation)."""
        a, b = self.to_nat(a, node), self.to_nat(b, node)
        op = type(node.op)
        if op in NAT_BITOPS:
            return Ex(NAT_BITOPS[op], NAT, (a, b))
        if op is ast.Add:
            return Ex("add", NAT, (a, b))
        if op is ast.Mult:
            return Ex("mul", NAT, (a, b))
        if op is ast.Sub:
            if not self.nat_le(b, a):
                raise Unsupported(f"{self.fn.name}: `{src(node)}`: the difference of two non-negative ints is not seen to "
                                  "be non-negative")
            self.notes.append(f"`{src(node)}`: the subtrahend is at most the minuend by the shape of the operands")
            return Ex("nsub", NAT, (a, b))
        raise Unsupported(f"{self.fn.name}: operator in `{src(node)}` is outside the subset (non-negative ints)")

    def py_mod(self, node, a: Ex, b: Ex) -> Ex:
        """`a % b` for a positive literal `b`: Python's result has the sign of the divisor, `a - floor(a / b) * b`
        (int and float alike; no rounding in this model)"""
        if a.ty not in (INT, RAT) or not (b.op == "lit" and b.ty in (INT, RAT) and b.aux > 0):
            raise Unsupported(f"{self.fn.name}: `{src(node)}`: `%` only of an int / a not-NaN float by a positive literal")
        ty = RAT if RAT in (a.ty, b.ty) else INT
        return Ex("mod", ty, (cast(a, ty), cast(b, ty)))

    def division(self, a: Ex, b: Ex, node, env, facts) -> Ex:
        if a.ty not in NUMERIC or b.ty not in NUMERIC:
            raise Unsupported(f"{self.fn.name}: `/` on {a.ty} and {b.ty}")
        ty = VAL if VAL in (a.ty, b.ty) else RAT  # true division: never an int
        a, b = cast(a, ty), cast(b, ty)
        if self.is_nonzero(b, env, facts):
            if self.has_var(b):
                self.notes.append(f"`{src(node)}`: divisor non-zero by a dominating guard, not tested")
            return Ex("div", ty, (a, b), "guarded")
        if self.pure_mode:
            raise _NeedsDuplication()
        if self.short_circuit:
            raise Unsupported(f"{self.fn.name}: `{src(node)}`: a division that may raise inside the right operand of and/or")
        self.n_div += 1
        self.partial = True
        name = f"pyDiv{self.n_div}"
        self.pending.append((name, b))
        return Ex("div", ty, (a, Ex("var", ty, (), name)), "checked")

    def has_var(self, e: Ex) -> bool:
        return e.op == "var" or any(self.has_var(x) for x in e.args)

    def mk_not(self, e: Ex) -> Ex:
        if e.op == "const":
            return Ex("const", BOOL, (), not e.aux)
        return Ex("not", BOOL, (e,))

    def mk_bool(self, op: str, a: Ex, b: Ex) -> Ex:
        """short-circuit folding (sound because operands are pure once their divisor tests are hoisted)"""
        if a.op == "const":
            if op == "and":
                return b if a.aux else a
            return a if a.aux else b
        if b.op == "const":
            if op == "and" and b.aux:
                return a
            if op == "or" and not b.aux:
                return a
        return Ex(op, BOOL, (a, b))

    def compare(self, node: ast.Compare, env, facts) -> Ex:
        fn = self.fn.name
        operands = [node.left] + list(node.comparators)
        names = {ast.Lt: "lt", ast.LtE: "le", ast.Gt: "gt", ast.GtE: "ge", ast.Eq: "eq", ast.NotEq: "ne"}
        out = None
        exprs = {}

        def operand(i):
            if i not in exprs:
                exprs[i] = self.expr(operands[i], env, facts)
            return exprs[i]

        for i, op in enumerate(node.ops):
            if type(op) not in names:
                raise Unsupported(f"{fn}: comparison `{src(node)}` is outside the subset")
            l, r = operands[i], operands[i + 1]
            # string parameter against a literal
            s = None
            for x, y in ((l, r), (r, l)):
                if isinstance(y, ast.Constant) and isinstance(y.value, str):
                    if isinstance(x, ast.Name) and x.id in env and env[x.id].ty == STR and names[type(op)] in ("eq", "ne"):
                        s = Ex("streq", BOOL, (self.var(env[x.id]),), y.value)
                        if names[type(op)] == "ne":
                            s = Ex("not", BOOL, (s,))
                    else:
                        raise Unsupported(f"{fn}: `{src(node)}`: a string literal is only compared (==, !=) with a str parameter")
            if s is None:
                if i > 0:
                    self.short_circuit += 1  # `a < b < c` evaluates `b < c` only when `a < b`
                try:
                    a, b = operand(i), operand(i + 1)
                finally:
                    if i > 0:
                        self.short_circuit -= 1
                if a.ty == BOOL or b.ty == BOOL or a.ty == STR or b.ty == STR:
                    raise Unsupported(f"{fn}: `{src(node)}`: comparison of {a.ty} and {b.ty}")
                a, b, _ = self.num_pair(a, b, src(node))
                s = self.mk_cmp(names[type(op)], a, b)
            out = s if out is None else self.mk_bool("and", out, s)
        return out

    @staticmethod
    def mk_cmp(op: str, a: Ex, b: Ex) -> Ex:
        if a.op == "nan" or b.op == "nan":
            return Ex("const", BOOL, (), op == "ne")
        return Ex("cmp", BOOL, (a, b), op)

    def call(self, node: ast.Call, env, facts) -> Ex:
        fn = self.fn.name
        if node.keywords:
            raise Unsupported(f"{fn}: keyword arguments in `{src(node)}`")
        if self.is_isnan_call(node):
            e = self.expr(node.args[0], env, facts)
            if e.ty not in NUMERIC:
                raise Unsupported(f"{fn}: np.isnan on a {e.ty}")
            if e.op == "nan":
                return Ex("const", BOOL, (), True)
            if e.ty in (INT, RAT):
                return Ex("const", BOOL, (), False)
            return Ex("isnan", BOOL, (e,))
        if isinstance(node.func, ast.Name) and node.func.id in BUILTINS:
            name = node.func.id
            if any(isinstance(a, ast.Starred) for a in node.args):
                raise Unsupported(f"{fn}: starred argument in `{src(node)}`")
            args = [self.expr(a, env, facts) for a in node.args]
            for a in args:
                if a.ty not in NUMERIC:
                    raise Unsupported(f"{fn}: `{name}` on a {a.ty}")
            if name == "abs":
                if len(args) != 1:
                    raise Unsupported(f"{fn}: `{src(node)}`: abs takes one argument")
                return Ex("abs", args[0].ty, (args[0],))
            if len(args) < 2:
                raise Unsupported(f"{fn}: `{src(node)}`: {name} of an iterable is outside the subset")
            ty = args[0].ty
            for a in args[1:]:
                ty = join(ty, a.ty, src(node))
            out = cast(args[0], ty)
            for a in args[1:]:
                out = Ex(name, ty, (out, cast(a, ty)))
            return out
        # glue extension: `int(e)`, and `ceil` / `floor` bound by `from math import …` (checked by the generator)
        if isinstance(node.func, ast.Name) and (node.func.id == "int" or node.func.id in self.math_names):
            what = "trunc" if node.func.id == "int" else self.math_names[node.func.id]
            if what not in ("trunc", "ceil", "floor"):
                raise Unsupported(f"{fn}: `{src(node)}`: math function outside the subset")
            if len(node.args) != 1 or isinstance(node.args[0], ast.Starred):
                raise Unsupported(f"{fn}: `{src(node)}` takes one argument")
            e = self.expr(node.args[0], env, facts)
            if e.ty == INT:
                return e  # int / math.ceil / math.floor of an int is that int
            if e.ty == RAT:
                return Ex(what, INT, (e,))  # int() truncates towards zero; math.ceil / math.floor return an int
            raise Unsupported(f"{fn}: `{src(node)}` on a {e.ty} (a NaN would raise ValueError; a bool / str is not a number)")
        raise Unsupported(f"{fn}: call `{src(node)}` is outside the subset")


def translate_function(fn: ast.FunctionDef, lean_name: str, params: Sequence[Param], consts=None, numpy_names=("np",),
                       source_text: Optional[str] = None, **glue) -> Kernel:
    k = Translator(fn, lean_name, params, consts, numpy_names, source_text, **glue).translate()
    try:
        k.source = ast.unparse(fn)
    except Exception:  # pylint: disable=broad-except
        k.source = ""
    return k


def translate_expression(node: ast.expr, lean_name: str, atoms: Sequence[Tuple[str, str, str]], consts=None,
                         numpy_names=("np",), source_text: Optional[str] = None, py_name: str = "<expression>",
                         **glue) -> Kernel:
    """One expression (e.g. the test of an `if` inside a loop that is not itself in the subset) as a kernel.
    `atoms`: (source text of a sub-expression, Lean parameter name, type) — every occurrence of that text (compared
    after `ast.unparse`) is the parameter; all of them become parameters of the definition, in this order, used or not
    (so that the statement of the theorem about it does not depend on which ones the source uses today).
    Any other name is refused."""
    dummy = ast.FunctionDef(name=py_name, args=ast.arguments(posonlyargs=[], args=[], kwonlyargs=[], kw_defaults=[], defaults=[]),
                            body=[], decorator_list=[])
    t = Translator(dummy, lean_name, [], consts, numpy_names, source_text, **glue)
    params, lean_params = [], []
    for text, lean, ty in atoms:
        if ty not in (VAL, RAT, INT, BOOL, STR) and not (ty == NAT and glue.get("bitops")):
            raise Unsupported(f"{py_name}: atom `{text}` of unknown type {ty}")
        key = src(ast.parse(text, mode="eval").body)
        t.atoms[key] = Binding(lean_ident(lean), ty)
        params.append(Param(lean, ty))
        lean_params.append((lean_ident(lean), ty))
    if len({n for n, _ in lean_params}) != len(lean_params):
        raise Unsupported(f"{py_name}: atom names collide")
    for n in ast.walk(node):
        if isinstance(n, (ast.Lambda, ast.NamedExpr, ast.Await, ast.Yield, ast.YieldFrom)):
            raise Unsupported(f"{py_name}: `{src(n)}` is outside the subset")
    e = t.expr(node, {}, frozenset())
    if e.ty not in NUMERIC + (BOOL,) + ((NAT,) if glue.get("bitops") else ()):
        raise Unsupported(f"{py_name}: the expression is a {e.ty}")
    r = Ret([e])
    tree = t.wrap_pending(r, 0)
    k = Kernel(py_name, lean_name, params, lean_params, tree, [e.ty], t.partial, notes=t.notes)
    k.source = src(node)
    return k


# ------------------------------------------------------------------------------------------------
# Lean rendering
# ------------------------------------------------------------------------------------------------
def lean_lit(q: Fraction, ty: str) -> str:
    if ty == NAT:
        return f"({int(q)} : Nat)"
    if ty == INT:
        return f"({int(q)} : Int)"
    if q.denominator == 1:
        return f"({q.numerator} : Rat)"
    return f"(({q.numerator} : Rat) / {q.denominator})"


CMP_SYM = {"lt": "<", "le": "≤", "gt": ">", "ge": "≥"}


def lean_expr(e: Ex) -> str:
    a = [lean_expr(x) for x in e.args]
    t = e.args[0].ty if e.args else e.ty
    if e.op == "lit":
        return lean_lit(e.aux, e.ty)
    if e.op == "var":
        return e.aux
    if e.op == "nan":
        return "Val.nan"
    if e.op == "const":
        return "true" if e.aux else "false"
    if e.op == "cast":
        src_ty = e.args[0].ty
        if src_ty == INT and e.ty == RAT:
            return f"(({a[0]} : Int) : Rat)"
        if src_ty == INT and e.ty == VAL:
            return f"(Val.num (({a[0]} : Int) : Rat))"
        if src_ty == RAT and e.ty == VAL:
            return f"(Val.num {a[0]})"
    if e.op == "neg":
        return f"(PyExpr.vneg {a[0]})" if e.ty == VAL else f"(-{a[0]})"
    if e.op == "abs":
        return f"(PyExpr.{e.ty[0]}abs {a[0]})"
    if e.op in ("add", "sub", "mul"):
        if e.ty == VAL:
            return f"(PyExpr.v{e.op} {a[0]} {a[1]})"
        return f"({a[0]} {dict(add='+', sub='-', mul='*')[e.op]} {a[1]})"
    if e.op == "div":
        return f"(PyExpr.vdiv {a[0]} {a[1]})" if e.ty == VAL else f"({a[0]} / {a[1]})"
    if e.op == "pow":
        return f"(PyExpr.{e.ty[0]}pow {a[0]} {e.aux})"
    if e.op in ("min", "max"):
        return f"(PyExpr.{e.ty[0]}{e.op} {a[0]} {a[1]})"
    if e.op == "cmp":
        op = e.aux
        if t == VAL:
            if op == "gt":
                return f"(PyExpr.vlt {a[1]} {a[0]})"
            if op == "ge":
                return f"(PyExpr.vle {a[1]} {a[0]})"
            return f"(PyExpr.v{op} {a[0]} {a[1]})"
        if op == "eq":
            return f"(decide ({a[0]} = {a[1]}))"
        if op == "ne":
            return f"(!decide ({a[0]} = {a[1]}))"
        return f"(decide ({a[0]} {CMP_SYM[op]} {a[1]}))"
    if e.op == "and":
        return f"({a[0]} && {a[1]})"
    if e.op == "or":
        return f"({a[0]} || {a[1]})"
    if e.op == "not":
        return f"(!{a[0]})"
    if e.op == "isnan":
        return f"(Val.isNan {a[0]})"
    if e.op == "streq":
        return f"({a[0]} == {lean_str(e.aux)})"
    if e.op in ("ceil", "floor", "trunc"):
        return f"(PyExpr.r{e.op} {a[0]})"
    if e.op == "ext":  # an operation a generator supplies itself: aux = (Lean function, exact Python function)
        return "(" + " ".join([e.aux[0]] + a) + ")"
    if e.op in NAT_SYM:
        return f"({a[0]} {NAT_SYM[e.op]} {a[1]})"
    if e.op == "mod":
        if e.ty == INT:
            return f"({a[0]} % {a[1]})"  # Int.emod: for a positive divisor, Python's `%`
        return f"({a[0]} - (((PyExpr.rfloor ({a[0]} / {a[1]})) : Int) : Rat) * {a[1]})"
    if e.op == "modlit":  # floor modulo by a positive literal: x - floor(x / n) * n (glue extension)
        if e.ty == INT:
            return f"({a[0]} % ({e.aux} : Int))"
        return f"({a[0]} - (((PyExpr.rfloor ({a[0]} / ({e.aux} : Rat))) : Int) : Rat) * ({e.aux} : Rat))"
    raise TranslatorBug(f"cannot render {e.op}")


def lean_tuple(values: List[Ex]) -> str:
    if len(values) == 1:
        return lean_expr(values[0])
    return "(" + ", ".join(lean_expr(v) for v in values) + ")"


def lean_tuple_type(types: List[str]) -> str:
    return " × ".join(LEAN_TYPE[t] for t in types)


def lean_tree(tree, ind: str, partial: bool) -> List[str]:
    """lines of the Lean term for `tree`; `partial`: the result is wrapped in `PyRes`"""
    if isinstance(tree, Ret):
        v = lean_tuple(tree.values)
        if partial == "out":
            return [ind + f"PyExpr.PyOut.ok {v}"]
        return [ind + (f"PyExpr.PyRes.ok {v}" if partial else v)]
    if isinstance(tree, Raise):
        if partial != "out":
            raise TranslatorBug("a raise in a kernel that is not rendered as PyOut")
        return [ind + f"PyExpr.PyOut.raised {lean_str(tree.exc)}"]
    if isinstance(tree, Yield):
        return [ind + lean_tuple(tree.values)]
    if isinstance(tree, Let):
        return [f"{ind}let {tree.name} : {LEAN_TYPE[tree.value.ty]} := {lean_expr(tree.value)}"] + lean_tree(tree.body, ind, partial)
    if isinstance(tree, CheckDiv):
        test = f"PyExpr.visZero {tree.name}" if tree.ty == VAL else f"{tree.name} = 0"
        if partial == "out":
            return [f'{ind}if {test} then PyExpr.PyOut.raised "ZeroDivisionError" else'] + lean_tree(tree.body, ind, partial)
        return [f"{ind}if {test} then PyExpr.PyRes.zeroDivision else"] + lean_tree(tree.body, ind, partial)
    if isinstance(tree, If):
        return ([f"{ind}if {lean_expr(tree.cond)} then"] + lean_tree(tree.then, ind + "  ", partial)
                + [f"{ind}else"] + lean_tree(tree.orelse, ind + "  ", partial))
    if isinstance(tree, MatchNan):
        lines = ([f"{ind}(match {tree.name} with", f"{ind}| Val.nan =>"] + lean_tree(tree.nan_tree, ind + "  ", partial)
                 + [f"{ind}| Val.num {tree.name} =>"] + lean_tree(tree.num_tree, ind + "  ", partial))
        lines[-1] += ")"
        return lines
    if isinstance(tree, Merge):
        names = tree.names
        lines = []
        if len(names) == 1:
            n, ty = names[0]
            lines.append(f"{ind}let {n} : {LEAN_TYPE[ty]} :=")
        else:
            lines.append(f"{ind}let pyMerged : {lean_tuple_type([t for _, t in names])} :=")
        lines.append(f"{ind}  if {lean_expr(tree.cond)} then")
        lines += lean_tree(tree.then, ind + "    ", False)
        lines.append(f"{ind}  else")
        lines += lean_tree(tree.orelse, ind + "    ", False)
        if len(names) > 1:
            for i, (n, ty) in enumerate(names):
                proj = ".2" * i + (".1" if i < len(names) - 1 else "")
                lines.append(f"{ind}let {n} : {LEAN_TYPE[ty]} := pyMerged{proj}")
        return lines + lean_tree(tree.body, ind, partial)
    raise TranslatorBug(f"cannot render {type(tree).__name__}")


def render_lean(k: Kernel, always_partial: bool = True) -> str:
    """the Lean definition of a kernel (text, no namespace).  `always_partial`: wrap the result in `PyRes` even
    when no division is tested, so that the statement of the equality theorem does not depend on it."""
    partial = k.partial or always_partial
    if k.raises:
        partial = "out"  # a function with a `raise`: value or the name of the exception (ZeroDivisionError included)
    params = " ".join(f"({n} : {LEAN_TYPE[t]})" for n, t in k.lean_params)
    rt = lean_tuple_type(k.ret_types)
    if partial == "out":
        rt = f"PyExpr.PyOut ({rt})"
    elif partial:
        rt = f"PyExpr.PyRes ({rt})"
    lines = [f"def {k.lean_name} {params} : {rt} :="]
    lines += lean_tree(k.tree, "  ", partial)
    return "\n".join(lines) + "\n"


# ------------------------------------------------------------------------------------------------
# evaluator (exact; an independent reading of the IR, compared with the real function by the harness)
# ------------------------------------------------------------------------------------------------
NAN = None  # a `val` is a Fraction or NAN


class PyZeroDivision(Exception):
    pass


class PyRaised(Exception):
    """a translated `raise`: args[0] is the name of the exception"""


def ev(e: Ex, env):
    a = [ev(x, env) for x in e.args] if e.op not in ("and", "or") else None
    t = e.args[0].ty if e.args else e.ty
    if e.op == "lit":
        return int(e.aux) if e.ty in (INT, NAT) else Fraction(e.aux)
    if e.op == "var":
        return env[e.aux]
    if e.op == "nan":
        return NAN
    if e.op == "const":
        return bool(e.aux)
    if e.op == "cast":
        return Fraction(a[0])
    if e.op == "neg":
        return NAN if a[0] is NAN else -a[0]
    if e.op == "abs":
        return NAN if a[0] is NAN else abs(a[0])
    if e.op in ("add", "sub", "mul", "div"):
        x, y = a
        if e.op == "div" and y is not NAN and y == 0:
            if e.aux == "guarded":
                raise TranslatorBug("a divisor declared non-zero by a dominating guard is zero")
            raise TranslatorBug("a tested divisor is zero at the division")
        if x is NAN or y is NAN:
            return NAN
        if e.op == "add":
            return x + y
        if e.op == "sub":
            return x - y
        if e.op == "mul":
            return x * y
        return Fraction(x) / Fraction(y)
    if e.op == "pow":
        return NAN if a[0] is NAN else a[0] ** e.aux
    if e.op == "max":
        x, y = a
        return y if (x is not NAN and y is not NAN and y > x) else x
    if e.op == "min":
        x, y = a
        return y if (x is not NAN and y is not NAN and y < x) else x
    if e.op == "cmp":
        x, y = a
        if x is NAN or y is NAN:
            return e.aux == "ne"
        return {"lt": x < y, "le": x <= y, "gt": x > y, "ge": x >= y, "eq": x == y, "ne": x != y}[e.aux]
    if e.op == "and":
        return ev(e.args[0], env) and ev(e.args[1], env)
    if e.op == "or":
        return ev(e.args[0], env) or ev(e.args[1], env)
    if e.op == "not":
        return not a[0]
    if e.op == "isnan":
        return a[0] is NAN
    if e.op == "streq":
        return a[0] == e.aux
    if e.op in NAT_SYM:
        x, y = a
        if x < 0 or y < 0:
            raise TranslatorBug("a negative value among the non-negative ints")
        if e.op == "nsub":
            if y > x:
                raise TranslatorBug("a difference declared non-negative by the shape of its operands is negative")
            return x - y
        return {"band": x & y, "bor": x | y, "bxor": x ^ y, "shr": x >> y, "shl": x << y}[e.op]
    if e.op == "mod":
        x, y = a
        q = Fraction(x) / Fraction(y)
        r = x - (q.numerator // q.denominator) * y
        return int(r) if e.ty == INT else Fraction(r)
    if e.op == "modlit":
        return a[0] % e.aux  # Python's floor modulo on int / Fraction (glue extension)
    if e.op in ("ceil", "floor", "trunc"):
        q = Fraction(a[0])
        fl = q.numerator // q.denominator  # floor (Python's // on ints)
        if e.op == "floor" or q.denominator == 1:
            return fl
        return fl + 1 if (e.op == "ceil" or q < 0) else fl  # trunc: towards zero
    if e.op == "ext":  # never produced by `Translator`; see translator/gen_kernels_criteria.py
        return e.aux[1](*a)
    raise TranslatorBug(f"cannot evaluate {e.op} ({t})")


def run_tree(tree, env):
    while True:
        if isinstance(tree, (Ret, Yield)):
            return tuple(ev(v, env) for v in tree.values)
        if isinstance(tree, Raise):
            raise PyRaised(tree.exc)
        if isinstance(tree, Let):
            env = dict(env)
            env[tree.name] = ev(tree.value, env)
            tree = tree.body
        elif isinstance(tree, CheckDiv):
            v = env[tree.name]
            if v is not NAN and v == 0:
                raise PyZeroDivision()
            tree = tree.body
        elif isinstance(tree, If):
            tree = tree.then if ev(tree.cond, env) else tree.orelse
        elif isinstance(tree, MatchNan):
            tree = tree.nan_tree if env[tree.name] is NAN else tree.num_tree
        elif isinstance(tree, Merge):
            vals = run_tree(tree.then if ev(tree.cond, env) else tree.orelse, env)
            env = dict(env)
            for (n, _), v in zip(tree.names, vals):
                env[n] = v
            tree = tree.body
        else:
            raise TranslatorBug(f"cannot run {type(tree).__name__}")


def evaluate(k: Kernel, *args):
    """Run the translated kernel on Python arguments (one per Python parameter; an array parameter takes a sequence;
    a float is a Fraction / int or None for NaN).  -> ("ok", values) | ("ZeroDivisionError", None)"""
    if len(args) != len(k.params):
        raise TypeError(f"{k.py_name} takes {len(k.params)} arguments")
    env = {}
    it = iter(k.lean_params)
    for p, v in zip(k.params, args):
        if p.kind == "opaque":
            continue
        if p.kind in ("array", "record"):  # a record takes the values of its atoms, in the declared order
            if len(v) != len(p.cells):
                raise TypeError(f"{p.name} must have {len(p.cells)} cells")
            for cell in v:
                n, ty = next(it)
                env[n] = conv(cell, ty)
        else:
            n, ty = next(it)
            env[n] = conv(v, ty)
    try:
        return "ok", run_tree(k.tree, env)
    except PyZeroDivision:
        return "ZeroDivisionError", None
    except PyRaised as exc:
        return exc.args[0], None


def conv(v, ty):
    if ty == VAL:
        return NAN if v is None else Fraction(v)
    if ty == RAT:
        if v is None:
            raise TypeError("NaN given for a parameter declared not-NaN")
        return Fraction(v)
    if ty == INT:
        return int(v)
    if ty == NAT:
        if int(v) < 0:
            raise TypeError("a negative value given for a parameter declared non-negative")
        return int(v)
    if ty == BOOL:
        return bool(v)
    return str(v)
