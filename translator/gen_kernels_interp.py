"""T14 for the occlusion / mismatch filling kernels (C14) -> Generated/KernelsInterp.lean.

    pandora/img_tools.py                           find_valid_neighbors          -> findValidNeighborsAt, findValidNeighbors
    pandora/validation/interpolated_disparity.py   interpolate_*                 -> (see PIXEL_KERNELS)

The Lean text is re-read from the Python source on every run (translator/pyloops.py + translator/pyloops_ext.py);
`Properties/C14Kernels.lean` proves each generated definition equal to the hand model `Model/Interp.lean` for every map.
"""
from __future__ import annotations

import ast
from fractions import Fraction

from . import gen_constants, pyexpr, pyloops, pyloops_ext
from .common import Unsupported, digest, find_class, find_function, find_method, parse, read_source, write_if_changed
from .gen_kernels import check_decorators, module_aliases, python_comment
from .gen_kernels_cbca import check_njit, lean_args
from .pyexpr import INT, VAL, Param
from .pyloops import AParam, Arr

NAME = "KernelsInterp"
SRC_FVN = "pandora/img_tools.py"
SRC = "pandora/validation/interpolated_disparity.py"

# find_valid_neighbors(dirs, disp, valid, row, col): dirs int64 (the sgm tables), disp float32 (NaN allowed, no infinities
# in a disparity map), valid uint16
FVN_PARAMS = [AParam("dirs", INT, 2), AParam("disp", VAL, 2), AParam("valid", INT, 2), Param("row", INT), Param("col", INT)]


def const_table(mod, rel):
    numpy_names, const_names = module_aliases(mod, rel)
    consts = gen_constants.extract()
    return numpy_names, {f"{alias}.{k}": int(v) for alias in const_names for k, v in consts.items()}


def fvn_kernel():
    mod = parse(SRC_FVN)
    fn = find_function(mod, "find_valid_neighbors")
    check_njit(fn, SRC_FVN)
    numpy_names, table = const_table(mod, SRC_FVN)
    k = pyloops_ext.translate_vec_kernel(fn, "findValidNeighbors", FVN_PARAMS, numpy_names=numpy_names,
                                         source_text=read_source(SRC_FVN), consts=table)
    k.origin = f"{SRC_FVN}: find_valid_neighbors"
    k.fn = fn
    k.numpy_names, k.consts, k.functions = numpy_names, table, {}
    return k


# (class, method, Lean name): pixel kernels `(disp, valid) -> (out_disp, out_val)` of interpolated_disparity.py
PIXEL_KERNELS = [
    ("McCnnInterpolation", "interpolate_occlusion_mc_cnn", "occlusionMcCnnPx"),
    ("McCnnInterpolation", "interpolate_mismatch_mc_cnn", "mismatchMcCnnPx"),
    ("SgmInterpolation", "interpolate_occlusion_sgm", "occlusionSgmPx"),
    ("SgmInterpolation", "interpolate_mismatch_sgm", "mismatchSgmPx"),
]
PX_PARAMS = [AParam("disp", VAL, 2), AParam("valid", INT, 2)]


def pixel_kernels(fvn):
    mod = parse(SRC)
    numpy_names, table = const_table(mod, SRC)
    # `find_valid_neighbors` must be the function of img_tools.py translated above
    imported = [a for node in mod.body if isinstance(node, ast.ImportFrom) and node.module == "pandora.img_tools" and node.level == 0
                for a in node.names if a.name == "find_valid_neighbors"]
    callees = [pyloops_ext.Callee(a.asname or a.name, fvn) for a in imported]
    for node in ast.walk(mod):
        if isinstance(node, (ast.FunctionDef, ast.ClassDef)) and node.name in {c.py_name for c in callees}:
            raise Unsupported(f"{SRC}: `{node.name}` is redefined in the module")
    out = {}
    for cls, meth, lean in PIXEL_KERNELS:
        fn = find_method(find_class(mod, cls), meth)
        check_decorators(fn, SRC)
        k = pyloops_ext.translate_copy_kernel(fn, lean, PX_PARAMS, numpy_names=numpy_names, source_text=read_source(SRC),
                                              consts=table, callees=callees)
        k.origin = f"{SRC}: {cls}.{meth}"
        k.fn = fn
        k.numpy_names, k.consts, k.functions = numpy_names, table, {c.py_name: fvn.fn for c in callees}
        out[lean] = k
    return out


NODATA_PARAMS = [AParam("img", VAL, 2), AParam("valid", INT, 2)]


def nodata_kernel(fvn):
    """`interpolate_nodata_sgm` of img_tools.py (the same module as its callee `find_valid_neighbors`)"""
    mod = parse(SRC_FVN)
    fn = find_function(mod, "interpolate_nodata_sgm")
    check_njit(fn, SRC_FVN)
    defs = [n for n in ast.walk(mod) if isinstance(n, (ast.FunctionDef, ast.ClassDef)) and n.name == "find_valid_neighbors"]
    if len(defs) != 1 or defs[0] not in mod.body or defs[0].lineno != fvn.fn.lineno:
        raise Unsupported(f"{SRC_FVN}: `find_valid_neighbors` is not defined exactly once at module level")
    numpy_names, table = const_table(mod, SRC_FVN)
    k = pyloops_ext.translate_copy_kernel(fn, "nodataSgmPx", NODATA_PARAMS, numpy_names=numpy_names, source_text=read_source(SRC_FVN),
                                          consts=table, callees=[pyloops_ext.Callee("find_valid_neighbors", fvn)])
    k.origin = f"{SRC_FVN}: interpolate_nodata_sgm"
    k.fn = fn
    k.numpy_names, k.consts, k.functions = numpy_names, table, {"find_valid_neighbors": fvn.fn}
    return k


def kernels():
    """-> {lean name: LoopKernel} read from the source tree now"""
    fvn = fvn_kernel()
    out = {"findValidNeighbors": fvn}
    out.update(pixel_kernels(fvn))
    out["nodataSgmPx"] = nodata_kernel(fvn)
    return out


def lean_px_result(k, res, vals) -> str:
    if res != "ok":
        return "PyLoops.Res.outOfBounds"
    cells = [lean_val(v) if ty == VAL else str(int(v)) for v, (_, ty) in zip(vals, k.cells)]
    return "PyLoops.Res.ok (" + ", ".join(cells) + ")"


GOLDEN_PX = [
    ([[3, None, 5]], [[0, 256, 0]]),
    ([[1, 2, 3], [4, None, 6], [-7, 8, None]], [[1, 0, 64], [0, 256 + 4, 1024], [4, 0, 256]]),
    ([[None, 2]], [[256, 0]]),
    ([[3, None, 5, None]], [[0, 512, 0, 256]]),
    ([[1, None], [None, 6], [None, None]], [[0, 512], [512 + 8, 0], [512, 2]]),
]


def golden_px(k) -> list:
    out = []
    for disp, flag in GOLDEN_PX:
        args = [val_arr(disp), int_arr(flag)]
        for c in range(len(flag)):
            for r in range(len(flag[0])):
                res, vals = pyloops_ext.evaluate_at(k, args, c, r)
                out.append(f"example : {k.lean_name} {lean_args(k, args)} {c} {r} = {lean_px_result(k, res, vals)} := by decide +kernel")
    return out


# ---- golden values: (disp rows (None = NaN), flag rows, row, col); the 8 sgm directions
DIRS8 = [[0, 1], [-1, 1], [-1, 0], [-1, -1], [0, -1], [1, -1], [1, 0], [1, 1]]
GOLDEN_FVN = [
    ([[3, None, 5]], [[0, 256, 0]], 1, 0),
    ([[3, None], [None, 7], [4, None]], [[0, 2], [512, 0], [0, 256]], 0, 1),
    ([[None]], [[512]], 0, 0),
    ([[1, 2, 3], [4, None, 6], [7, 8, None]], [[1, 0, 64], [0, 256, 1024], [4, 2, 512]], 1, 1),
    ([[1, 2, 3], [4, None, 6], [7, 8, None]], [[1, 0, 64], [0, 256, 1024], [4, 2, 512]], 2, 2),
]


def val_arr(rows) -> Arr:
    return Arr([[pyloops.FNAN if v is None else Fraction(v) for v in r] for r in rows], (len(rows), len(rows[0])))


def int_arr(rows) -> Arr:
    return Arr([[int(v) for v in r] for r in rows], (len(rows), len(rows[0])))


def lean_val(v) -> str:
    return "Val.nan" if v is None or v == pyloops.FNAN else f"Val.num {pyexpr.lean_lit(Fraction(v), 'rat')}"


def golden_fvn(k) -> list:
    out = []
    for disp, flag, row, col in GOLDEN_FVN:
        args = [int_arr(DIRS8), val_arr(disp), int_arr(flag), row, col]
        res, vals = pyloops_ext.evaluate_vec(k, args)
        rhs = "PyLoops.Res.outOfBounds" if res != "ok" else "PyLoops.Res.ok [" + ", ".join(lean_val(v) for v in vals) + "]"
        out.append(f"example : {k.whole_name} {lean_args(k, args)} = {rhs} := by decide +kernel")
    return out


def render(ks) -> str:
    lines = [
        "-- GENERATED by translator/gen_kernels_interp.py (translator/pyloops.py, translator/pyloops_ext.py) from the Python source.",
        "-- Do not edit.",
        "import PandoraModel.Model.PyLoops",
        "import PandoraModel.Model.PyInterp",
        "set_option linter.unusedVariables false",
        "namespace Pandora.Generated.KernelsInterp",
        "open Pandora",
        "",
    ]
    for name, k in ks.items():
        lines.append(f"/- {k.origin}")
        lines.append(python_comment(k))
        for note in sorted(set(k.notes)):
            lines.append(f"   note: {note.replace('-/', '- /')}")
        lines.append("-/")
        if name == "findValidNeighbors":
            lines.append(pyloops_ext.render_vec(k))
            lines.append("-- what the translator's own evaluator computes on a few inputs, checked here by evaluation")
            lines += golden_fvn(k)
        else:
            lines.append(pyloops_ext.render_px(k))
            lines.append("-- what the translator's own evaluator computes on a few inputs, checked here by evaluation")
            lines += golden_px(k)
        lines.append("")
    lines.append("end Pandora.Generated.KernelsInterp")
    return "\n".join(lines) + "\n"


def generate():
    ks = kernels()
    write_if_changed("KernelsInterp.lean", render(ks))
    return {"T14-interp": {"source": [SRC_FVN, SRC], "digest": digest(SRC_FVN, SRC), "kernels": sorted(ks)}}
