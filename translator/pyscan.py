"""T14, second kernel shape: ARRAY-STATE KERNELS ("scan / accumulate kernels") -> Lean 4 source text.

`translator/pyloops.py` translates map kernels (every output cell a function of its pixel).  This module translates numba
functions whose loops thread WHOLE ARRAYS as loop-carried state: a cell reads the cell written by the previous iteration
(`step1[col, row] = step1[col, row - 1] + cv[col, row]`), stores go to an indirect index (`step2[col, range_col[row]] = …`),
`+=` on a cell, `np.copy`, `np.sum` of a slice, a row assignment.  Expressions, `if`, `for … in range`, `break`, the
liveness rule for loop-carried locals and the bounds flag `pyOk` are pyloops' (the classes are subclassed, nothing is
rewritten); the Lean run-time support is lean/PandoraModel/Model/PyArrays.lean.

    ast.FunctionDef --translate_array_kernel--> ScanKernel (typed tree of the WHOLE function)
    ScanKernel --render_lean--> Lean text        ScanKernel --evaluate--> exact value (same tree, functional arrays)
    ast.FunctionDef --interpret--> exact value   (independent: imperative run of the AST on mutable arrays)

THE SUBSET (anything else raises `translator.common.Unsupported`)

  function     [docstring]; statements; `return A` or `return A, B` (local arrays).
  arrays       a LOCAL array is a local of type "2-D array of val / int": a total index function plus two extents.
               Created at the top level of the function only (not under `for` / `if`) by
                   A = np.zeros((e0, e1), dtype=np.<float or int type>)      extents tested >= 0 (Python raises otherwise)
                   A = np.copy(B)                                             a VALUE copy: later stores into A do not
                                                                              change B (plain aliasing `A = B` is refused)
               and changed by
                   A[i, j] = e      A[i, j] op= e   (+ - *)                   functional update at the WRAPPED index, tested
                   A[i, :] = B[k, :]                                          row assignment (row lengths tested equal)
               A store into a parameter is refused (the caller would see it).
  reads        pyloops' (`arr[i, j]` of parameters and local arrays, wrap-around, tested), plus
                   X.shape[<literal>]                                         extent of a parameter / local array
                   a, b = X.shape
                   np.sum(A[lo:hi, j])                                        exactly this slice-sum form (2-D float array,
                                                                              both bounds given, no step): Python slice
                                                                              bounds (negative from the end, clamped)
  everything else (scalars, `if`, loops, `break`) as in pyloops.

SEMANTICS   arrays are VALUES threaded through the loops (`PyLoops.forRange` state = (pyOk, carried scalars and arrays));
            a store `A[i, j] = v` is `let A := PyArrays.set2 A A_n0 A_n1 i j v`.  Python's reference semantics and this
            value semantics coincide because an array has exactly one name (no aliasing is accepted) and parameters are
            never written.  Float cells are exact (`Val`), integer width not modelled, as everywhere in T12/T14.
"""
from __future__ import annotations

import ast
from dataclasses import dataclass, field
from fractions import Fraction
from typing import Dict, List, Sequence, Tuple

from . import pyexpr, pyloops
from .common import Unsupported
from .pyexpr import BOOL, INT, RAT, VAL, Binding, Ex, Param, TranslatorBug, lean_ident, src
from .pyloops import EXT, FNAN, OK, AParam, ArrayInfo, TIf, TLet, TLoop, TMerge, TYield

NUM4 = pyloops.NUM4


def arr_ty(elem: str, ndim: int) -> str:
    return f"arr{ndim}{elem}"


LEAN_TYPE = dict(pyloops.LEAN_TYPE)
for _e in (INT, VAL, EXT):
    for _n in (1, 2, 3):
        LEAN_TYPE[arr_ty(_e, _n)] = "(" + " → ".join(["Int"] * _n + [pyloops.LEAN_TYPE[_e]]) + ")"
ZERO = {INT: "(0 : Int)", VAL: "(Val.num 0)"}


def is_arr(ty: str) -> bool:
    return ty.startswith("arr")


@dataclass
class ScanKernel:
    py_name: str
    lean_name: str
    params: list
    lean_params: List[Tuple[str, str]]
    arrays: Dict[str, ArrayInfo]  # parameters and local arrays
    returns: List[str]  # python names of the returned local arrays
    tree: object
    source: str = ""
    notes: List[str] = field(default_factory=list)


# ------------------------------------------------------------------------------------------------
# expressions
# ------------------------------------------------------------------------------------------------
class ScanExprTranslator(pyloops.ExprTranslator):
    """pyloops' expressions + `X.shape[k]` + `np.sum(A[lo:hi, j])`"""

    def shape_extent(self, node):
        """`X.shape[<literal>]` -> Ex, or None"""
        if not (isinstance(node, ast.Subscript) and isinstance(node.value, ast.Attribute) and node.value.attr == "shape"
                and isinstance(node.value.value, ast.Name)):
            return None
        name = node.value.value.id
        if name not in self.arrays:
            raise Unsupported(f"{self.fn.name}: `{src(node)}`: `{name}` is not an array")
        k = node.slice
        arr = self.arrays[name]
        if not (isinstance(k, ast.Constant) and isinstance(k.value, int) and not isinstance(k.value, bool) and 0 <= k.value < arr.ndim):
            raise Unsupported(f"{self.fn.name}: `{src(node)}`: the axis must be an integer literal in [0, {arr.ndim})")
        return Ex("var", INT, (), arr.dims[k.value])

    def expr(self, node, env, facts) -> Ex:
        fn = self.fn.name
        e = self.shape_extent(node)
        if e is not None:
            return e
        if isinstance(node, ast.Call) and isinstance(node.func, ast.Attribute) and node.func.attr == "sum" \
                and isinstance(node.func.value, ast.Name) and node.func.value.id in self.numpy_names:
            if len(node.args) != 1 or node.keywords:
                raise Unsupported(f"{fn}: `{src(node)}`: only np.sum(<array>[lo:hi, j])")
            if self.short_circuit:
                raise Unsupported(f"{fn}: array read `{src(node)}` inside the right operand of and/or")
            s = node.args[0]
            if not (isinstance(s, ast.Subscript) and isinstance(s.value, ast.Name) and s.value.id in self.arrays
                    and isinstance(s.slice, ast.Tuple) and len(s.slice.elts) == 2):
                raise Unsupported(f"{fn}: `{src(node)}`: only np.sum(<2-D array>[lo:hi, j])")
            arr = self.arrays[s.value.id]
            sl, j = s.slice.elts
            if arr.ndim != 2 or arr.elem != VAL:
                raise Unsupported(f"{fn}: `{src(node)}`: np.sum of a slice of a 2-D float array only")
            if not (isinstance(sl, ast.Slice) and sl.lower is not None and sl.upper is not None and sl.step is None) \
                    or isinstance(j, (ast.Slice, ast.Starred)):
                raise Unsupported(f"{fn}: `{src(node)}`: the slice must be `lo:hi` on the first axis, an index on the second")
            lo, hi, jx = (self.expr(x, env, facts) for x in (sl.lower, sl.upper, j))
            for x in (lo, hi, jx):
                if x.ty != INT:
                    raise Unsupported(f"{fn}: `{src(node)}`: a bound / index is a {x.ty}, not an int")
            self.reads.append(Ex("inbax", BOOL, (jx,), (arr.name, 1)))
            return Ex("slicesum", VAL, (lo, hi, jx), arr.name)
        return super().expr(node, env, facts)


# ------------------------------------------------------------------------------------------------
# statements
# ------------------------------------------------------------------------------------------------
class ArrayKernelTranslator(pyloops.MapKernelTranslator):
    def __init__(self, fn, lean_name, params, numpy_names=("np",), source_text=None):
        super().__init__(fn, lean_name, params, numpy_names, source_text)
        self.x = ScanExprTranslator(fn, lean_name, numpy_names, source_text)
        self.top: set = set()  # ids of the top-level statements
        self.locals_arr: List[str] = []

    # ---- names
    def lean_of(self, name: str) -> str:
        return lean_ident(name)

    def avar(self, name: str) -> Ex:
        a = self.x.arrays[name]
        return Ex("var", arr_ty(a.elem, a.ndim), (), a.lean)

    def assigned(self, stmts) -> List[str]:
        out = []

        def add(n):
            if n not in out:
                out.append(n)

        for st in stmts:
            for node in ast.walk(st):
                if isinstance(node, ast.NamedExpr):
                    self.bad("assignment expressions (`:=`) are not supported")
                tg = []
                if isinstance(node, ast.Assign):
                    tg = node.targets
                elif isinstance(node, (ast.AugAssign, ast.AnnAssign)):
                    tg = [node.target]
                elif isinstance(node, ast.For):
                    tg = [node.target]
                for t in tg:
                    if isinstance(t, ast.Name):
                        add(t.id)
                    elif isinstance(t, ast.Subscript) and isinstance(t.value, ast.Name):
                        add(t.value.id)
                        add(OK)
                    elif isinstance(t, ast.Tuple) and all(isinstance(e, ast.Name) for e in t.elts):
                        for e in t.elts:
                            add(e.id)
                    else:
                        self.bad(f"assignment target `{src(t)}`")
                if isinstance(node, ast.Subscript) and isinstance(node.ctx, ast.Load) and not isinstance(node.value, ast.Attribute):
                    add(OK)
        return out

    # ---- entry
    def translate(self) -> ScanKernel:  # noqa: C901
        fn = self.fn
        a = fn.args
        if a.vararg or a.kwarg or a.kwonlyargs or a.posonlyargs or a.defaults or a.kw_defaults:
            self.bad("only plain positional parameters are supported")
        if [x.arg for x in a.args] != [p.name for p in self.params]:
            self.bad(f"parameters {[x.arg for x in a.args]} are not the declared {[p.name for p in self.params]}")
        for node in ast.walk(fn):
            if isinstance(node, (ast.Global, ast.Nonlocal, ast.Lambda, ast.FunctionDef, ast.ClassDef, ast.While, ast.Continue,
                                 ast.Try, ast.With, ast.ListComp, ast.GeneratorExp, ast.IfExp, ast.AnnAssign, ast.Delete)) and node is not fn:
                self.bad(f"`{type(node).__name__}` is outside the subset")
        env: Dict[str, Binding] = {}
        lean_params: List[Tuple[str, str]] = []
        for p in self.params:
            if isinstance(p, AParam):
                if p.elem not in (INT, VAL) or not 1 <= p.ndim <= 3:
                    self.bad(f"array parameter `{p.name}`: element type {p.elem} / {p.ndim} dimensions")
                dims = [lean_ident(f"{p.name}_n{i}") for i in range(p.ndim)]
                self.x.arrays[p.name] = ArrayInfo(p.name, p.elem, p.ndim, lean_ident(p.name), dims)
                lean_params.append((lean_ident(p.name), LEAN_TYPE[arr_ty(p.elem, p.ndim)].strip("()")))
                lean_params += [(d, "Int") for d in dims]
            elif isinstance(p, Param) and p.kind in (VAL, RAT, INT, BOOL):
                env[p.name] = Binding(lean_ident(p.name), p.kind)
                lean_params.append((lean_ident(p.name), LEAN_TYPE[p.kind]))
            else:
                self.bad(f"parameter `{p.name}` of an unsupported kind")
        body = list(fn.body)
        if body and isinstance(body[0], ast.Expr) and isinstance(body[0].value, ast.Constant) and isinstance(body[0].value.value, str):
            body = body[1:]
        if not body or not isinstance(body[-1], ast.Return):
            self.bad("the function must end with `return <array>[, <array>]`")
        ret = body[-1].value
        stmts = body[:-1]
        for st in stmts:
            for node in ast.walk(st):
                if isinstance(node, ast.Return):
                    self.bad("`return` before the end of the function")
        self.top = {id(st) for st in stmts}
        self.param_names = {n for n, _ in lean_params}
        self.frozen = {p.name for p in self.params}
        for n in self.assigned(stmts):
            if n != OK and (n.startswith("py") or n in pyexpr.BUILTINS or n in self.numpy_names or n == "range"):
                self.bad(f"the local `{n}` collides with a name the translator uses")
        env[OK] = Binding(OK, BOOL)
        rets = [ret] if isinstance(ret, ast.Name) else list(ret.elts) if isinstance(ret, ast.Tuple) else None
        if not rets or not all(isinstance(r, ast.Name) for r in rets) or len(rets) > 2:
            self.bad(f"`return {src(ret)}`: one local array or a pair of local arrays")
        names = [r.id for r in rets]

        def leaf(e):
            vals = [self.var(e[OK])]
            for n in names:
                if n not in e or not is_arr(e[n].ty) or n not in self.locals_arr:
                    self.bad(f"`return {src(ret)}`: `{n}` is not a local array bound on every path")
                if self.x.arrays[n].ndim != 2:
                    self.bad(f"`{n}`: only 2-D arrays are returned")
                vals.append(self.avar(n))
            return TYield(vals)

        tree = TLet(OK, Ex("const", BOOL, (), True), self.block(stmts, env, [], leaf, None))
        taken = set(self.assigned(stmts)) | self.param_names
        for n in self.locals_arr:
            if set(self.x.arrays[n].dims) & (taken - {n}) and self.x.arrays[n].dims[0].startswith(n):
                self.bad(f"a local is named like an extent of `{n}` ({self.x.arrays[n].dims})")
        k = ScanKernel(fn.name, self.lean_name, self.params, lean_params, self.x.arrays, names, tree, notes=self.notes)
        try:
            k.source = ast.unparse(fn)
        except Exception:  # pylint: disable=broad-except
            k.source = ""
        return k

    # ---- the array statements
    def block(self, ss, env, cont, leaf, brk_leaf):
        if ss:
            out = self.array_stmt(ss[0], list(ss[1:]), env, cont, leaf, brk_leaf)
            if out is not None:
                return out
        return super().block(ss, env, cont, leaf, brk_leaf)

    def np_call(self, node, name):
        return (isinstance(node, ast.Call) and isinstance(node.func, ast.Attribute) and node.func.attr == name
                and isinstance(node.func.value, ast.Name) and node.func.value.id in self.numpy_names)

    def new_array(self, name, elem, ndim, dims, env):
        if name in env or name in self.x.arrays or name in self.frozen:
            self.bad(f"`{name}` is already bound (an array has one name and one allocation)")
        for d in dims:
            if d in env:
                self.bad(f"the local `{d}` collides with a generated name")
        self.x.arrays[name] = ArrayInfo(name, elem, ndim, lean_ident(name), list(dims))
        self.locals_arr.append(name)
        env2 = dict(env)
        env2[name] = Binding(lean_ident(name), arr_ty(elem, ndim))
        return env2

    def array_stmt(self, st, rest, env, cont, leaf, brk_leaf):  # noqa: C901
        """the statements pyloops does not have; None when `st` is not one of them"""
        top = id(st) in self.top
        go = lambda env2: self.block(rest, env2, cont, leaf, brk_leaf)  # noqa: E731
        if isinstance(st, ast.Assign) and len(st.targets) == 1:
            t, v = st.targets[0], st.value
            # a, b = X.shape
            if isinstance(t, ast.Tuple):
                if not (isinstance(v, ast.Attribute) and v.attr == "shape" and isinstance(v.value, ast.Name)
                        and v.value.id in self.x.arrays and all(isinstance(e, ast.Name) for e in t.elts)):
                    self.bad(f"tuple assignment `{src(st)}` (only `a, b = <array>.shape`)")
                arr = self.x.arrays[v.value.id]
                if len(t.elts) != arr.ndim:
                    self.bad(f"`{src(st)}`: `{arr.name}` has {arr.ndim} dimensions")
                if len({e.id for e in t.elts}) != len(t.elts):
                    self.bad(f"`{src(st)}`: repeated name")
                env2 = dict(env)
                lets = []
                for e, d in zip(t.elts, arr.dims):
                    if e.id in self.frozen or e.id in self.x.arrays:
                        self.bad(f"`{src(st)}` rebinds `{e.id}`")
                    env2[e.id] = Binding(lean_ident(e.id), INT)
                    lets.append((lean_ident(e.id), Ex("var", INT, (), d)))
                tree = go(env2)
                for n, e in reversed(lets):
                    tree = TLet(n, e, tree)
                return tree
            if isinstance(t, ast.Name) and self.np_call(v, "zeros"):
                if not top:
                    self.bad(f"`{src(st)}`: an array is allocated at the top level of the function only")
                if len(v.args) != 1 or not isinstance(v.args[0], ast.Tuple) or len(v.keywords) != 1 or v.keywords[0].arg != "dtype":
                    self.bad(f"allocation `{src(v)}`: expected np.zeros((…), dtype=np.<type>)")
                d = v.keywords[0].value
                if not (isinstance(d, ast.Attribute) and isinstance(d.value, ast.Name) and d.value.id in self.numpy_names):
                    self.bad(f"dtype `{src(d)}`")
                if d.attr in pyloops.INT_DTYPES:
                    elem = INT
                    self.notes.append(f"`{t.id}` is {d.attr}: the integer width is not modelled")
                elif d.attr in pyloops.FLOAT_DTYPES:
                    elem = VAL
                else:
                    self.bad(f"dtype `{src(d)}`")
                shape = list(v.args[0].elts)
                if len(shape) != 2:
                    self.bad(f"`{src(st)}`: a local array has 2 dimensions")
                ext = [self.expr(s, env) for s in shape]
                if self.x.take_checks() is not None or any(e.ty != INT for e in ext):
                    self.bad(f"`{src(st)}`: the extents must be integer expressions without array reads")
                dims = [lean_ident(f"{t.id}_n{i}") for i in range(2)]
                if set(dims) & self.param_names or lean_ident(t.id) in self.param_names:
                    self.bad("generated names collide")
                env2 = self.new_array(t.id, elem, 2, dims, env)
                zero = Ex("lit", INT, (), Fraction(0))
                ok = Ex("and", BOOL, (Ex("cmp", BOOL, (Ex("var", INT, (), dims[0]), zero), "ge"),
                                       Ex("cmp", BOOL, (Ex("var", INT, (), dims[1]), zero), "ge")))
                return TLet(dims[0], ext[0], TLet(dims[1], ext[1],
                            TLet(OK, Ex("and", BOOL, (Ex("var", BOOL, (), OK), ok)),
                                 TLet(lean_ident(t.id), Ex("zeros", arr_ty(elem, 2), (), elem), go(env2)))))
            if isinstance(t, ast.Name) and self.np_call(v, "copy"):
                if not top:
                    self.bad(f"`{src(st)}`: an array is allocated at the top level of the function only")
                if len(v.args) != 1 or v.keywords or not (isinstance(v.args[0], ast.Name) and v.args[0].id in self.x.arrays):
                    self.bad(f"`{src(st)}`: only np.copy(<array>)")
                b = self.x.arrays[v.args[0].id]
                if b.ndim != 2:
                    self.bad(f"`{src(st)}`: only 2-D arrays are copied")
                if b.name in self.locals_arr and b.name not in env:
                    self.bad(f"`{src(st)}`: `{b.name}` is not bound here")
                env2 = self.new_array(t.id, b.elem, 2, b.dims, env)
                return TLet(lean_ident(t.id), self.avar(b.name), go(env2))
            if isinstance(t, ast.Subscript):
                return self.store(st, t, v, None, go, env)
            return None
        if isinstance(st, ast.AugAssign) and isinstance(st.target, ast.Subscript):
            return self.store(st, st.target, st.value, st.op, go, env)
        return None

    def local_target(self, st, t) -> ArrayInfo:
        if not (isinstance(t.value, ast.Name) and t.value.id in self.x.arrays):
            self.bad(f"store into `{src(t)}`: not an array")
        name = t.value.id
        if name not in self.locals_arr:
            self.bad(f"`{src(st)}` stores into the parameter `{name}` (only local arrays are written)")
        return self.x.arrays[name]

    def store(self, st, t, value, op, go, env):  # noqa: C901
        arr = self.local_target(st, t)
        if arr.name not in env:
            self.bad(f"`{src(st)}`: `{arr.name}` is not bound here")
        idx = t.slice.elts if isinstance(t.slice, ast.Tuple) else [t.slice]
        if len(idx) != arr.ndim:
            self.bad(f"`{src(t)}`: {len(idx)} indices for a {arr.ndim}-D array")
        aty = arr_ty(arr.elem, arr.ndim)
        full = lambda s: isinstance(s, ast.Slice) and s.lower is None and s.upper is None and s.step is None  # noqa: E731
        if any(isinstance(i, ast.Slice) for i in idx):
            # A[i, :] = B[k, :]
            if op is not None or not (len(idx) == 2 and not isinstance(idx[0], ast.Slice) and full(idx[1])):
                self.bad(f"`{src(st)}`: the only slice store is `A[i, :] = B[k, :]`")
            if id(st) not in self.top:
                self.bad(f"`{src(st)}`: a row assignment is accepted at the top level of the function only")
            v = value
            if not (isinstance(v, ast.Subscript) and isinstance(v.value, ast.Name) and v.value.id in self.x.arrays
                    and isinstance(v.slice, ast.Tuple) and len(v.slice.elts) == 2 and not isinstance(v.slice.elts[0], ast.Slice)
                    and full(v.slice.elts[1])):
                self.bad(f"`{src(st)}`: the only slice store is `A[i, :] = B[k, :]`")
            b = self.x.arrays[v.value.id]
            if b.ndim != 2 or b.elem != arr.elem:
                self.bad(f"`{src(st)}`: the two arrays must be 2-D with the same element type")
            if b.name == arr.name:
                self.bad(f"`{src(st)}`: a row of `{arr.name}` assigned from itself")
            if b.name in self.locals_arr and b.name not in env:
                self.bad(f"`{src(st)}`: `{b.name}` is not bound here")
            i, k = self.expr(idx[0], env), self.expr(v.slice.elts[0], env)
            if i.ty != INT or k.ty != INT:
                self.bad(f"`{src(st)}`: non-integer row index")
            self.x.reads.append(Ex("inbax", BOOL, (i,), (arr.name, 0)))
            self.x.reads.append(Ex("inbax", BOOL, (k,), (b.name, 0)))
            self.x.reads.append(Ex("cmp", BOOL, (Ex("var", INT, (), arr.dims[1]), Ex("var", INT, (), b.dims[1])), "eq"))
            e = Ex("setrow", aty, (self.avar(arr.name), i, self.avar(b.name), k), (arr.name, b.name))
            return self.with_checks(lambda: TLet(arr.lean, e, go(env)))
        ix = self.x.index_exprs(t, env, frozenset())
        if op is None:
            e = self.expr(value, env)
        else:
            ops = {ast.Add: "add", ast.Sub: "sub", ast.Mult: "mul"}
            if type(op) not in ops:
                self.bad(f"operator of `{src(st)}`")
            self.x.reads.append(Ex("inb", BOOL, tuple(ix), arr.name))
            cur = Ex("aread", arr.elem, tuple(ix), arr.name)
            r = self.expr(value, env)
            a, b, ty = self.x.num_pair(cur, r, src(st))
            e = Ex(ops[type(op)], ty, (a, b))
        if arr.elem == INT and e.ty != INT:
            self.bad(f"`{src(st)}` stores a {e.ty} into an integer array (truncation is not modelled)")
        if arr.elem == VAL:
            if e.ty not in (INT, RAT, VAL):
                self.bad(f"`{src(st)}` stores a {e.ty} into a float array")
            e = pyexpr.cast(e, VAL)
        self.x.reads.append(Ex("inb", BOOL, tuple(ix), arr.name))
        s = Ex("aset", aty, (self.avar(arr.name),) + tuple(ix) + (e,), arr.name)
        return self.with_checks(lambda: TLet(arr.lean, s, go(env)))


def translate_array_kernel(fn: ast.FunctionDef, lean_name: str, params: Sequence, numpy_names=("np",), source_text=None) -> ScanKernel:
    return ArrayKernelTranslator(fn, lean_name, params, numpy_names, source_text).translate()


# ------------------------------------------------------------------------------------------------
# Lean rendering
# ------------------------------------------------------------------------------------------------
def lean_expr(e: Ex, arrays: Dict[str, ArrayInfo]) -> str:  # noqa: C901
    a = [lean_expr(x, arrays) for x in e.args]
    if e.op == "var":
        return e.aux
    if e.op == "zeros":
        return f"(PyArrays.zeros2 {ZERO[e.aux]})"
    if e.op == "aset":
        arr = arrays[e.aux]
        return f"(PyArrays.set{arr.ndim} {a[0]} {' '.join(arr.dims)} {' '.join(a[1:])})"
    if e.op == "setrow":
        A, B = arrays[e.aux[0]], arrays[e.aux[1]]
        return f"(PyArrays.setRow2 {a[0]} {' '.join(A.dims)} {a[1]} (PyArrays.row2 {a[2]} {B.dims[0]} {a[3]}))"
    if e.op == "slicesum":
        arr = arrays[e.aux]
        return f"(PyArrays.sumSlice0 {arr.lean} {' '.join(arr.dims)} {' '.join(a)})"
    if e.op == "inbax":
        arr = arrays[e.aux[0]]
        return f"(PyLoops.inb {arr.dims[e.aux[1]]} {a[0]})"
    opaque = tuple(Ex("var", x.ty, (), s) for x, s in zip(e.args, a))
    return pyloops.lean_expr(Ex(e.op, e.ty, opaque, e.aux), arrays)


def tuple_type(types: List[str]) -> str:
    return " × ".join(LEAN_TYPE[t] for t in types)


proj = pyloops.proj


def lean_tree(tree, ind: str, k: ScanKernel) -> List[str]:  # noqa: C901
    """pyloops.lean_tree with array-typed locals (the types come from this module's table)"""
    A = k.arrays
    if isinstance(tree, TYield):
        vals = [lean_expr(v, A) for v in tree.values]
        tup = vals[0] if len(vals) == 1 else "(" + ", ".join(vals) + ")"
        if tree.brk is None:
            return [ind + tup]
        return [f"{ind}({'true' if tree.brk else 'false'}, {tup})"]
    if isinstance(tree, TLet):
        return [f"{ind}let {tree.name} : {LEAN_TYPE[tree.value.ty]} := {lean_expr(tree.value, A)}"] + lean_tree(tree.body, ind, k)
    if isinstance(tree, TIf):
        return ([f"{ind}if {lean_expr(tree.cond, A)} then"] + lean_tree(tree.then, ind + "  ", k)
                + [f"{ind}else"] + lean_tree(tree.orelse, ind + "  ", k))
    if isinstance(tree, TMerge):
        n = len(tree.names)
        ty = tuple_type([t for _, t in tree.names])
        lines = [f"{ind}let pyMerged : {ty} :=", f"{ind}  if {lean_expr(tree.cond, A)} then"]
        lines += lean_tree(tree.then, ind + "    ", k) + [f"{ind}  else"] + lean_tree(tree.orelse, ind + "    ", k)
        for i, (nm, t) in enumerate(tree.names):
            lines.append(f"{ind}let {nm} : {LEAN_TYPE[t]} := pyMerged{proj(i, n)}")
        return lines + lean_tree(tree.body, ind, k)
    if isinstance(tree, TLoop):
        n = len(tree.names)
        ty = tuple_type([t for _, t in tree.names])
        lp = f"pyLoop{tree.uid}"
        lines = [f"{ind}let {lp} : {ty} := PyLoops.forRange {lean_expr(tree.start, A)} {lean_expr(tree.stop, A)} ({tree.step} : Int)",
                 f"{ind}  (fun (pyI : Int) (pySt : {ty}) =>"]
        for i, (nm, t) in enumerate(tree.names):
            lines.append(f"{ind}    let {nm} : {LEAN_TYPE[t]} := pySt{proj(i, n)}")
        body = lean_tree(tree.body, ind + "    ", k)
        body[-1] += ")"
        init = ["true"] + [nm for nm, _ in tree.names[1:]]
        lines += body + [f"{ind}  " + (init[0] if n == 1 else "(" + ", ".join(init) + ")")]
        lines.append(f"{ind}let {OK} : Bool := ({OK} && {lp}{proj(0, n)})")
        for i, (nm, t) in enumerate(tree.names):
            if i:
                lines.append(f"{ind}let {nm} : {LEAN_TYPE[t]} := {lp}{proj(i, n)}")
        return lines + lean_tree(tree.rest, ind, k)
    raise TranslatorBug(f"cannot render {type(tree).__name__}")


def result_type(k: ScanKernel) -> str:
    ts = [f"PyArrays.Arr2 {pyloops.LEAN_TYPE[k.arrays[n].elem]}" for n in k.returns]
    return "PyLoops.Res (" + " × ".join(ts) + ")"


def render_lean(k: ScanKernel) -> str:
    params = " ".join(f"({n} : {t})" for n, t in k.lean_params)
    lines = [f"def {k.lean_name} {params} : {result_type(k)} :="]
    body = lean_tree(k.tree, "  ", k)
    n = 1 + len(k.returns)
    last = body.pop()
    lines += body
    lines.append(f"  let pyOut : {tuple_type([BOOL] + [arr_ty(k.arrays[r].elem, 2) for r in k.returns])} := {last.strip()}")
    cells = []
    for i, r in enumerate(k.returns):
        a = k.arrays[r]
        cells.append(f"⟨pyOut{proj(i + 1, n)}, {a.dims[0]}, {a.dims[1]}⟩")
    out = cells[0] if len(cells) == 1 else "(" + ", ".join(cells) + ")"
    lines.append(f"  if pyOut.1 then PyLoops.Res.ok {out} else PyLoops.Res.outOfBounds")
    return "\n".join(lines) + "\n"


# ------------------------------------------------------------------------------------------------
# evaluator of the tree (what the Lean text says): functional arrays
# ------------------------------------------------------------------------------------------------
class FArr:
    """a total index function with finitely many explicit cells (what `Int → Int → α` is in the Lean text); the extents
    are NOT part of it — they are separate integers in the environment, exactly as in the Lean text"""

    def __init__(self, cells: dict, default):
        self.cells, self.default = cells, default

    def at(self, idx):
        return self.cells.get(tuple(idx), self.default)

    def set(self, idx, v):
        c = dict(self.cells)
        c[tuple(idx)] = v
        return FArr(c, self.default)


def farr_of(arr: pyloops.Arr, elem: str) -> FArr:
    """an exact argument (`pyloops.Arr`: nested lists) as the index function `PyLoops.tabN default table`"""
    cells = {}

    def walk(x, pre):
        if isinstance(x, list):
            for i, y in enumerate(x):
                walk(y, pre + (i,))
        else:
            cells[pre] = x
    walk(arr.data, ())
    return FArr(cells, 0 if elem == INT else FNAN)


def slice_bound(n, i):
    k = i + n if i < 0 else i
    return 0 if k < 0 else n if n < k else k


def val_of(v):
    """a cell of a float array (Fraction / "nan") as pyexpr's `val` (None = NaN)"""
    return None if v == FNAN else v


def ev(e: Ex, env, k: ScanKernel):  # noqa: C901
    A = k.arrays
    if e.op in ("and", "or"):
        x = ev(e.args[0], env, k)
        if e.op == "and":
            return x and ev(e.args[1], env, k)
        return x or ev(e.args[1], env, k)
    if e.op == "var":
        return env[e.aux]
    a = [ev(x, env, k) for x in e.args]
    if e.op in ("aread", "inb"):
        arr = A[e.aux]
        dims = [env[d] for d in arr.dims]
        w = [pyloops.wrap(n, i) for n, i in zip(dims, a)]
        if e.op == "inb":
            return all(0 <= x < n for x, n in zip(w, dims))
        v = env[arr.lean].at(w)
        return val_of(v) if e.ty == VAL else v
    if e.op == "inbax":
        n = env[A[e.aux[0]].dims[e.aux[1]]]
        return 0 <= pyloops.wrap(n, a[0]) < n
    if e.op == "zeros":
        return FArr({}, 0 if e.aux == INT else Fraction(0))
    if e.op == "aset":
        arr = A[e.aux]
        dims = [env[d] for d in arr.dims]
        w = [pyloops.wrap(n, i) for n, i in zip(dims, a[1:-1])]
        v = a[-1]
        return a[0].set(w, FNAN if v is None else v)
    if e.op == "setrow":
        dst, src_ = A[e.aux[0]], A[e.aux[1]]
        n0, n1 = env[dst.dims[0]], env[dst.dims[1]]
        i = pyloops.wrap(n0, a[1])
        kk = pyloops.wrap(env[src_.dims[0]], a[3])
        out = a[0]
        for j in range(max(0, n1)):
            out = out.set((i, j), a[2].at((kk, j)))
        return out
    if e.op == "slicesum":
        arr = A[e.aux]
        n0, n1 = env[arr.dims[0]], env[arr.dims[1]]
        lo, hi = slice_bound(n0, a[0]), slice_bound(n0, a[1])
        j = pyloops.wrap(n1, a[2])
        total = Fraction(0)
        for i in range(lo, hi):
            v = env[arr.lean].at((i, j))
            if v == FNAN or total is None:
                total = None
            else:
                total = total + v
        return total
    env2 = dict(env)
    names = []
    for i, v in enumerate(a):
        env2[f"#arg{i}"] = v
        names.append(Ex("var", e.args[i].ty, (), f"#arg{i}"))
    return pyloops.ev(Ex(e.op, e.ty, tuple(names), e.aux), env2, {})


def run_tree(tree, env, k):  # noqa: C901
    """pyloops.run_tree over this module's `ev` -> (brk, values)"""
    while True:
        if isinstance(tree, TYield):
            return tree.brk, tuple(ev(v, env, k) for v in tree.values)
        if isinstance(tree, TLet):
            env = dict(env)
            env[tree.name] = ev(tree.value, env, k)
            tree = tree.body
        elif isinstance(tree, TIf):
            tree = tree.then if ev(tree.cond, env, k) else tree.orelse
        elif isinstance(tree, TMerge):
            _, vals = run_tree(tree.then if ev(tree.cond, env, k) else tree.orelse, env, k)
            env = dict(env)
            for (n, _), v in zip(tree.names, vals):
                env[n] = v
            tree = tree.body
        elif isinstance(tree, TLoop):
            a, b = ev(tree.start, env, k), ev(tree.stop, env, k)
            s = tree.step
            count = max(0, (b - a + s - 1) // s) if s > 0 else max(0, (a - b - s - 1) // (-s))
            state = (True,) + tuple(env[n] for n, _ in tree.names[1:])
            i = a
            for _ in range(count):
                benv = dict(env)
                benv["pyI"] = i
                for (n, _), v in zip(tree.names, state):
                    benv[n] = v
                brk, state = run_tree(tree.body, benv, k)
                if brk:
                    break
                i += s
            env = dict(env)
            env[OK] = env[OK] and state[0]
            for (n, _), v in list(zip(tree.names, state))[1:]:
                env[n] = v
            tree = tree.rest
        else:
            raise TranslatorBug(f"cannot run {type(tree).__name__}")


def evaluate(k: ScanKernel, args):
    """the translated function on exact arguments (`pyloops.Arr` / scalars) ->
    ("ok", [(nested lists, shape) per returned array]) | ("outOfBounds", None)"""
    if len(args) != len(k.params):
        raise TypeError(f"{k.py_name} takes {len(k.params)} arguments")
    env = {}
    for p, v in zip(k.params, args):
        if isinstance(p, AParam):
            info = k.arrays[p.name]
            env[info.lean] = farr_of(v, p.elem)
            for d, n in zip(info.dims, v.shape):
                env[d] = int(n)
        else:
            env[lean_ident(p.name)] = pyexpr.conv(v, p.kind)
    out = []
    # the extents of the returned arrays are locals of the tree: evaluate with a leaf that also reads them
    shapes = {}
    tree = _with_shape_leaf(k.tree, k, shapes)
    _, vals = run_tree(tree, env, k)
    if not vals[0]:
        return "outOfBounds", None
    n = len(k.returns)
    for i, r in enumerate(k.returns):
        f = vals[1 + i]
        n0, n1 = vals[1 + n + 2 * i], vals[2 + n + 2 * i]
        out.append(([[f.at((y, x)) for x in range(n1)] for y in range(n0)], (n0, n1)))
    return "ok", out


def _with_shape_leaf(tree, k, _shapes):
    """the same tree whose final yield also returns the extents of the returned arrays"""
    import copy

    def rec(t):
        if isinstance(t, TYield) and t.brk is None:
            extra = []
            for r in k.returns:
                extra += [Ex("var", INT, (), d) for d in k.arrays[r].dims]
            return TYield(list(t.values) + extra, None)
        if isinstance(t, TLet):
            return TLet(t.name, t.value, rec(t.body))
        if isinstance(t, TMerge):
            return TMerge(t.names, t.cond, t.then, t.orelse, rec(t.body))
        if isinstance(t, TLoop):
            t2 = copy.copy(t)
            t2.rest = rec(t.rest)
            return t2
        if isinstance(t, TIf):
            return TIf(t.cond, rec(t.then), rec(t.orelse))
        raise TranslatorBug(f"unexpected node {type(t).__name__}")
    return rec(tree)


# ------------------------------------------------------------------------------------------------
# independent reading: pyloops' imperative interpreter + the array statements, on MUTABLE arrays
# ------------------------------------------------------------------------------------------------
class ScanInterp(pyloops.Interp):
    def stmt(self, st, env):
        if isinstance(st, ast.Assign) and isinstance(st.targets[0], ast.Subscript) \
                and isinstance(st.targets[0].slice, ast.Tuple) and any(isinstance(i, ast.Slice) for i in st.targets[0].slice.elts):
            t, v = st.targets[0], st.value
            dst, src_ = env[t.value.id], env[v.value.id]
            i, k = self.ex(t.slice.elts[0], env), self.ex(v.slice.elts[0], env)
            if not (-dst.shape[0] <= i < dst.shape[0] and -src_.shape[0] <= k < src_.shape[0]) or dst.shape[1] != src_.shape[1]:
                raise pyloops.OutOfBounds(src(st))
            dst.data[i][:] = list(src_.data[k])  # Python's own negative indexing
            return None
        return super().stmt(st, env)

    def ex(self, node, env):
        if isinstance(node, ast.Subscript) and isinstance(node.value, ast.Attribute) and node.value.attr == "shape":
            return int(env[node.value.value.id].shape[node.slice.value])
        if isinstance(node, ast.Call) and isinstance(node.func, ast.Attribute) and isinstance(node.func.value, ast.Name) \
                and node.func.value.id in self.np:
            if node.func.attr == "zeros":
                shape = self.ex(node.args[0], env)
                if any(n < 0 for n in shape):
                    raise pyloops.OutOfBounds(src(node))
            if node.func.attr == "copy":
                a = env[node.args[0].id]
                b = pyloops.Arr(pyloops._map_nested(a.data, lambda x: x), a.shape)  # pylint: disable=protected-access
                b.integer = getattr(a, "integer", False)
                return b
            if node.func.attr == "sum":
                s = node.args[0]
                a = env[s.value.id]
                sl, j = s.slice.elts
                jj = self.ex(j, env)
                if not -a.shape[1] <= jj < a.shape[1]:
                    raise pyloops.OutOfBounds(src(node))
                rows = a.data[slice(self.ex(sl.lower, env), self.ex(sl.upper, env))]  # Python's own slice semantics
                total = Fraction(0)
                for r in rows:
                    total = pyloops.f_add(total, self.num(r[jj]))
                return total
        return super().ex(node, env)


def interpret(fn: ast.FunctionDef, args, numpy_names=("np",)):
    """the whole function run imperatively on `pyloops.Arr` arguments (deep-copied: parameters are never written, this is
    checked by comparing them afterwards) -> `Arr` or tuple of `Arr`; raises pyloops.OutOfBounds"""
    import copy

    mine = [copy.deepcopy(a) for a in args]
    out = ScanInterp(numpy_names).call(fn, mine)
    for a, b in zip(args, mine):
        if isinstance(a, pyloops.Arr) and a.data != b.data:
            raise TranslatorBug("the interpreter changed a parameter")
    return out
