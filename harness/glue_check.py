"""Translator cross-check of the glue kernels (translator/gen_kernels_glue.py): the translator's own exact evaluation
of the functions it regenerated (`pyexpr.evaluate` on the IR the Lean text is rendered from) against the REAL
functions of the Pandora tree under test, on every run of the property that owns the kernel.

A mismatch means the translator misreads Python (or the generator's declaration of what an atom stands for is wrong):
`status.problem("translator", …)`.  A semantic edit of the Python function is NOT a mismatch here (both sides follow
the edit); it breaks the equality theorem with the hand model instead (Properties/C16Kernels.lean, C02Kernels.lean).
"""
from __future__ import annotations

import itertools
from fractions import Fraction


def _kernel(status, name):
    from translator import gen_kernels_glue
    from translator.common import Unsupported

    try:
        return gen_kernels_glue.kernel(name)
    except Unsupported:
        return None  # already reported by build_and_audit as a translator problem
    except Exception as exc:  # pylint: disable=broad-except
        status.problem("translator", f"gen_kernels_glue.{name} crashed: {type(exc).__name__}: {exc}")
        return None


def selftest(status):
    """the translator's own accepted / refused functions (cheap; C06 runs the same)"""
    from translator import pyexpr_selftest

    try:
        for what in pyexpr_selftest.refused_problems():
            status.problem("translator", f"pyexpr self-test: a construct outside the subset is not refused — {what}")
        for what in pyexpr_selftest.python_problems():
            status.problem("translator", f"pyexpr self-test: the evaluator differs from CPython — {what}")
    except Exception as exc:  # pylint: disable=broad-except
        status.problem("translator", f"pyexpr self-test crashed: {type(exc).__name__}: {exc}")


# ------------------------------------------------------------------------------------------------
# get_window (C16)
# ------------------------------------------------------------------------------------------------
def window_inputs(rng, count):
    """(roi fields cf cl rf rl, margins ml mu mr md, width, height): negative, zero, on the four edges, inverted
    (last < first), negative margins, empty images — no well-formedness is assumed (the theorem assumes none)"""
    out = []
    w, h = 6, 5
    # the four edges, one step before / on / after, with and without margins
    for d in (-1, 0, 1):
        for m in (0, 1):
            out += [
                ((w + d + m, w + d + m + 1, 1, 2), (m, 0, 0, 0), w, h), ((1, 2, h + d + m, h + d + m + 1), (0, m, 0, 0), w, h),
                ((-3, -1 + d - m, 1, 2), (0, 0, m, 0), w, h), ((1, 2, -3, -1 + d - m), (0, 0, 0, m), w, h),
                ((1, w - 1 + d - m, 1, h - 1 + d - m), (0, 0, m, m), w, h),
            ]
    out += [((0, 0, 0, 0), (0, 0, 0, 0), 0, 0), ((0, 0, 0, 0), (0, 0, 0, 0), 1, 1), ((2, 1, 3, 0), (0, 0, 0, 0), 6, 5),
            ((1, 2, 1, 2), (-1, -2, -3, -4), 6, 5), ((0, 5, 0, 4), (9, 9, 9, 9), 6, 5), ((1, 2, 1, 2), (0, 0, 0, 0), -3, -2)]
    while len(out) < count:
        w, h = rng.randint(0, 8), rng.randint(0, 8)
        if rng.random() < 0.1:
            w, h = rng.randint(-3, 0), rng.randint(-3, 0)
        cf, rf = rng.randint(-4, w + 4), rng.randint(-4, h + 4)
        cl, rl = cf + rng.randint(-2, 6), rf + rng.randint(-2, 6)
        lo = -2 if rng.random() < 0.15 else 0
        margins = tuple(rng.randint(lo, 3) for _ in range(4))
        out.append(((cf, cl, rf, rl), margins, w, h))
    return out


def check_get_window(ctx, report, status):
    from translator import pyexpr
    from .impl import imgtools_io as io

    k = _kernel(status, "getWindow")
    if k is None:
        return
    inputs = window_inputs(ctx.rng, ctx.n(400, 4000))
    refused = 0
    for (cf, cl, rf, rl), margins, width, height in inputs:
        roi = {"col": {"first": cf, "last": cl}, "row": {"first": rf, "last": rl}, "margins": list(margins)}
        real = io.real_get_window(roi, width, height)
        try:
            res, vals = pyexpr.evaluate(k, [cf, cl, rf, rl, *margins], width, height)
        except pyexpr.TranslatorBug as exc:
            status.problem("translator", f"translated get_window: {exc} on roi={roi} width={width} height={height}")
            return
        mine = list(vals) if res == "ok" else (None if res == "ValueError" else {"error": res})
        if res == "Window: ValueError":  # rasterio's own validation of the lengths handed to the constructor
            mine = {"error": "ValueError: Number of columns or rows must be non-negative"}
        report.translator_checks += 1
        refused += mine is None
        if mine != real:
            status.problem("translator", f"translated get_window evaluates to {mine} where the real function gives {real} "
                                         f"on roi={roi} width={width} height={height}")
            return
    report.notes.append(f"glue kernels: the real get_window compared with the translator's own evaluation of the function it "
                        f"regenerated (Generated/KernelsGlue.lean) on {len(inputs)} ROI / size tuples ({refused} refused; negative, "
                        f"zero, inverted, on the edges, negative margins)")


# ------------------------------------------------------------------------------------------------
# point_interval (C02)
# ------------------------------------------------------------------------------------------------
def check_point_interval(ctx, report, status):
    import numpy as np
    import xarray as xr
    from pandora.matching_cost.matching_cost import AbstractMatchingCost
    from translator import pyexpr

    k = _kernel(status, "pointInterval")
    if k is None:
        return
    imgs = {n: xr.Dataset({"im": (("row", "col"), np.zeros((1, n), dtype=np.float32))}) for n in range(1, 13)}
    pairs = [(a, b) for a in range(1, 13) for b in range(1, 13) if abs(a - b) <= 1]
    pairs += [(ctx.rng.randint(1, 12), ctx.rng.randint(1, 12)) for _ in range(ctx.n(12, 60))]
    quarters = list(range(-56, 57))  # integer, half and quarter disparities of both signs, up to +-14 (past every width)
    n = empty = 0
    for (nl, nr), q in itertools.product(pairs, quarters):
        disp = Fraction(q, 4)
        try:
            p, qq = AbstractMatchingCost.point_interval(None, imgs[nl], imgs[nr], float(disp))
            real = [p[0], p[1], qq[0], qq[1]]
            if not all(isinstance(v, int) and not isinstance(v, bool) for v in real):
                real = {"error": f"not python ints: {[type(v).__name__ for v in real]}"}
        except Exception as exc:  # pylint: disable=broad-except
            real = {"error": f"{type(exc).__name__}: {exc}"}
        try:
            res, vals = pyexpr.evaluate(k, None, [nl], [nr], disp)
        except pyexpr.TranslatorBug as exc:
            status.problem("translator", f"translated point_interval: {exc} on nx_left={nl} nx_right={nr} disp={disp}")
            return
        mine = list(vals) if res == "ok" else {"error": res}
        report.translator_checks += 1
        n += 1
        empty += mine == [0, 0, 0, 0]
        if mine != real:
            status.problem("translator", f"translated point_interval evaluates to {mine} where the real method gives {real} "
                                         f"on nx_left={nl} nx_right={nr} disp={disp}")
            return
    report.notes.append(f"glue kernels: the real AbstractMatchingCost.point_interval compared with the translator's own evaluation "
                        f"of the method it regenerated (Generated/KernelsGlue.lean) on {n} (width pair, disparity) inputs: widths "
                        f"1-12 (nx_left != nx_right included), disparities k/4 for |k| <= 56 ({empty} collapsed to empty intervals)")


def check_dsp_index(ctx, report, status):
    """`dsp = int((disp - dmin) * self._subpix)`: CPython's `eval` of the same source text against the evaluator"""
    from translator import pyexpr

    k = _kernel(status, "dspIndex")
    if k is None:
        return

    class _Self:  # pylint: disable=too-few-public-methods
        _subpix = 1

    n = 0
    for sp in (1, 2, 4):
        _Self._subpix = sp  # pylint: disable=protected-access
        for a, b in itertools.product(range(-12, 13), range(-12, 13)):
            disp, dmin = Fraction(a, sp), Fraction(b, sp)
            real = eval(k.source, {"int": int, "disp": float(disp), "dmin": float(dmin), "self": _Self})  # pylint: disable=eval-used
            res, vals = pyexpr.evaluate(k, disp, dmin, sp)
            report.translator_checks += 1
            n += 1
            if res != "ok" or vals[0] != real or not isinstance(real, int):
                status.problem("translator", f"translated `{k.source}` evaluates to {vals} where Python gives {real!r} on "
                                             f"disp={disp} dmin={dmin} subpix={sp}")
                return
    report.notes.append(f"glue kernels: `{k.source}` evaluated by CPython and by the translator on {n} (disp, dmin, subpix) triples")
