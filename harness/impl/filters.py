"""Adapter for C10: calls the real filter classes (through `AbstractFilter(cfg=…, image_shape=…, step=…)` exactly as
`PandoraMachine.filter_run` does, or through `filter_run` itself on a real machine object)."""
from __future__ import annotations

import warnings

import numpy as np
import xarray as xr


def make_disp(disp, flags, conf=None, indicators=None, row0=0, col0=0, dtype="float32"):
    """A disparity dataset as the disparity step leaves it."""
    rows, cols = np.shape(disp)
    ds = xr.Dataset(
        {
            # float32 in Pandora's own pipeline; an API caller may hand a float64 map
            "disparity_map": (["row", "col"], np.array(disp, dtype=np.dtype(dtype))),
            "validity_mask": (["row", "col"], np.array(flags, dtype=np.uint16)),
        },
        coords={"row": np.arange(row0, row0 + rows), "col": np.arange(col0, col0 + cols)},
    )
    if conf is not None:
        ds["confidence_measure"] = xr.DataArray(
            np.array(conf, dtype=np.float32), dims=["row", "col", "indicator"], coords={"indicator": list(indicators)}
        )
    ds.attrs = {"offset_row_col": 0, "measure": "sad", "type_measure": "min", "subpixel": 1, "window_size": 1}
    return ds


def observe(ds):
    out = {
        # values are observed at float32 precision (what Pandora's own maps carry): a float64 map handed by an API caller
        # shows last-bit rounding of the weighted mean, which the exact specification must not be asked to explain
        "disparity_map": np.array(ds["disparity_map"].data).astype(np.float32),
        "validity_mask": np.array(ds["validity_mask"].data),
        "mask_dtype": str(ds["validity_mask"].data.dtype),
    }
    if "confidence_measure" in ds.data_vars:
        out["confidence_measure"] = np.array(ds["confidence_measure"].data)
        out["indicator"] = [str(i) for i in ds.coords["indicator"].data]
    return out


def run_filter(ds, cfg, via_machine=False, right=None):
    """apply one filter step in place; returns the filter object"""
    from pandora import filter as flt

    warnings.filterwarnings("ignore", category=RuntimeWarning)  # 0/0 at invalid centres, all-NaN windows
    shape = (ds.sizes["row"], ds.sizes["col"])
    if via_machine:
        from pandora.state_machine import PandoraMachine

        m = PandoraMachine()
        m.left_img = xr.Dataset(
            {"im": (["row", "col"], np.zeros(shape, dtype=np.float32))},
            coords={"row": ds.coords["row"], "col": ds.coords["col"]},
        )
        m.step = 1
        m.left_disparity = ds
        if right is not None:
            m.right_disp_map = "cross_checking_accurate"
            m.right_disparity = right
        m.filter_run({"pipeline": {"filter": dict(cfg)}}, "filter")
        return None
    f = flt.AbstractFilter(cfg=dict(cfg), image_shape=shape, step=1)
    f.filter_disparity(ds)
    return f


def gaussian_tables(sigma_space, sigma_color, win, values):
    """The two factors of the bilateral weights computed by Pandora's own functions:
    spatial kernel (win x win, float64) and the range factor for every difference of two float32 disparities."""
    from pandora import filter as flt

    f = flt.AbstractFilter(
        cfg={"filter_method": "bilateral", "sigma_space": float(sigma_space), "sigma_color": float(sigma_color)},
        image_shape=(max(win, 1), max(win, 1)),
        step=1,
    )
    spatial = f.gauss_spatial_kernel(win, float(sigma_space))
    u = np.unique(np.array(values, dtype=np.float32))
    u = u[np.isfinite(u)]
    diffs = np.unique((u[:, None] - u[None, :]).astype(np.float32)) if u.size else np.zeros(1, dtype=np.float32)
    if diffs.size == 0:
        diffs = np.zeros(1, dtype=np.float32)
    rng = f.normalized_gaussian(diffs, float(sigma_color))
    return np.array(spatial, dtype=np.float64), diffs.astype(np.float64), np.array(rng, dtype=np.float64)


def regularization(inf_band, sup_band, amb, cfg):
    """Pandora's own interval_regularization (a primitive for C10) on the given bands"""
    from pandora.interval_tools import interval_regularization

    return interval_regularization(
        np.array(inf_band, dtype=np.float32).copy(),
        np.array(sup_band, dtype=np.float32).copy(),
        np.array(amb, dtype=np.float32),
        float(cfg["ambiguity_threshold"]),
        int(cfg["ambiguity_kernel_size"]),
        int(cfg["vertical_depth"]),
        float(cfg["quantile_regularization"]),
    )


def live_literals():
    """independent reading of the live sources: chunk sizes and the window formula"""
    import inspect
    import re

    from pandora.filter.bilateral import BilateralFilter
    from pandora.filter.median import MedianFilter

    out = {}
    for name, fn in (("median", MedianFilter.median_filter), ("bilateral", BilateralFilter.filter_bilateral)):
        src = inspect.getsource(fn)
        m = re.search(r"chunk_size\s*=\s*(\d+)", src)
        out[name] = int(m.group(1)) if m else None
    src = inspect.getsource(BilateralFilter.filter_bilateral)
    m = re.search(r"int\(\s*(\d+)\s*\*\s*sigma_space\s*\+\s*(\d+)\s*\)", src)
    out["window"] = (int(m.group(1)), int(m.group(2))) if m else None
    return out


def bilateral_reuse(disp, flags, sigma_first, sigma_space, sigma_color, invalid_mask):
    """one BilateralFilter object used for two `filter_bilateral` calls with different sigma_space (the second one is the
    one under test) against a fresh object: returns (reused result, fresh result)"""
    from pandora import filter as flt

    warnings.filterwarnings("ignore", category=RuntimeWarning)
    data = np.array(disp, dtype=np.float32)
    data[(np.array(flags) & invalid_mask) != 0] = np.nan
    shape = data.shape
    cfg = {"filter_method": "bilateral", "sigma_space": float(sigma_first), "sigma_color": float(sigma_color)}
    used = flt.AbstractFilter(cfg=dict(cfg), image_shape=shape, step=1)
    used.filter_bilateral(data.copy(), float(sigma_first), float(sigma_color))
    reused = used.filter_bilateral(data.copy(), float(sigma_space), float(sigma_color))
    fresh = flt.AbstractFilter(cfg=dict(cfg, sigma_space=float(sigma_space)), image_shape=shape, step=1)
    return np.array(reused), np.array(fresh.filter_bilateral(data.copy(), float(sigma_space), float(sigma_color)))
