"""Observation of the real PandoraMachine without changing Pandora (DESIGN.md §3, C01/C08/C20).

* `LoggedMachine` subclasses the real `PandoraMachine` and wraps every `<step>_check_conf`,
  `<step>_run`, `matching_cost_prepare` and `run_multiscale` callback to log
  (callback, step name, scale, round) before delegating to the real callback.  It can also inject an
  exception at a callback boundary (the model's abstract "callback outcome").
* `register_stubs()` registers step classes named "vstub" in every registry through the public
  `register_subclass` decorators.  Their methods only log which side (left/right data) they were
  called on, so the real callbacks' wiring and ordering are observed while pipelines run in
  microseconds.
"""
from __future__ import annotations

import contextlib
import logging

import numpy as np
import xarray as xr

import pandora
from pandora import (  # pylint: disable=redefined-builtin
    aggregation,
    cost_volume_confidence,
    disparity,
    filter,
    matching_cost,
    multiscale,
    optimization,
    refinement,
    semantic_segmentation,
    state_machine,
    validation,
)
from pandora.margins.descriptors import NullMargins
from pandora.state_machine import PandoraMachine

LOG = []  # class-level observations of the stub classes: (method, tag, side)

STUB = "vstub"
METHOD_KEY = {
    "matching_cost": "matching_cost_method",
    "aggregation": "aggregation_method",
    "optimization": "optimization_method",
    "semantic_segmentation": "segmentation_method",
    "cost_volume_confidence": "confidence_method",
    "disparity": "disparity_method",
    "filter": "filter_method",
    "refinement": "refinement_method",
    "validation": "validation_method",
    "multiscale": "multiscale_method",
}
KINDS = list(METHOD_KEY)


def side_of(obj) -> str:
    try:
        return obj.attrs.get("side", "?")
    except AttributeError:
        return "?"


def tagged(side: str) -> xr.Dataset:
    ds = xr.Dataset()
    ds.attrs["side"] = side
    return ds


def _log(method, cfg, side):
    LOG.append((method, cfg.get("tag"), side))


_registered = False


def register_stubs():
    """Register "vstub" step classes in all ten registries (idempotent)."""
    global _registered  # pylint: disable=global-statement
    if _registered:
        return
    _registered = True

    @matching_cost.AbstractMatchingCost.register_subclass(STUB)
    class VMatchingCost(matching_cost.AbstractMatchingCost):  # pylint: disable=unused-variable
        margins = NullMargins()

        def __init__(self, **cfg):  # pylint: disable=super-init-not-called
            self.cfg = dict(cfg)
            self.cfg.setdefault("step", 1)
            self.cfg.setdefault("band", None)
            self._step_col = self.cfg["step"]

        def desc(self):
            pass

        def allocate_cost_volume(self, image, disparity_grids, cfg=None):  # pylint: disable=arguments-differ
            _log("allocate_cost_volume", self.cfg, side_of(image))
            return tagged(side_of(image))

        def compute_cost_volume(self, img_left, img_right, cost_volume):  # pylint: disable=arguments-differ
            _log("compute_cost_volume", self.cfg, side_of(img_left))
            assert side_of(cost_volume) == side_of(img_left) != side_of(img_right)
            return cost_volume

        def cv_masked(self, img_left, img_right, cost_volume, disp_min, disp_max):  # pylint: disable=arguments-differ
            _log("cv_masked", self.cfg, side_of(img_left))
            assert side_of(cost_volume) == side_of(img_left) != side_of(img_right)

    @aggregation.AbstractAggregation.register_subclass(STUB)
    class VAggregation(aggregation.AbstractAggregation):  # pylint: disable=unused-variable
        def __init__(self, **cfg):
            self.cfg = dict(cfg)

        def desc(self):
            pass

        def cost_volume_aggregation(self, img_left, img_right, cv, **cfg):
            _log("cost_volume_aggregation", self.cfg, side_of(img_left))
            assert side_of(cv) == side_of(img_left) != side_of(img_right)

    @optimization.AbstractOptimization.register_subclass(STUB)
    class VOptimization(optimization.AbstractOptimization):  # pylint: disable=unused-variable
        def __init__(self, _img, **cfg):
            self.cfg = dict(cfg)

        def desc(self):
            pass

        def optimize_cv(self, cv, img_left, img_right):
            _log("optimize_cv", self.cfg, side_of(img_left))
            assert side_of(cv) == side_of(img_left) != side_of(img_right)
            return cv

    @semantic_segmentation.AbstractSemanticSegmentation.register_subclass(STUB)
    class VSegmentation(semantic_segmentation.AbstractSemanticSegmentation):  # pylint: disable=unused-variable
        def __init__(self, _img, **cfg):
            self.cfg = dict(cfg)

        def desc(self):
            pass

        def compute_semantic_segmentation(self, cv, img_left, img_right):
            _log("compute_semantic_segmentation", self.cfg, side_of(img_left))
            assert side_of(cv) == side_of(img_left) != side_of(img_right)
            return img_left

    @cost_volume_confidence.AbstractCostVolumeConfidence.register_subclass(STUB)
    class VConfidence(cost_volume_confidence.AbstractCostVolumeConfidence):  # pylint: disable=unused-variable
        def __init__(self, **cfg):
            self.cfg = dict(cfg)

        def desc(self):
            pass

        def confidence_prediction(self, disp, img_left, img_right, cv):
            _log("confidence_prediction", self.cfg, side_of(img_left))
            assert side_of(cv) == side_of(img_left) != side_of(img_right)
            return disp, cv

    @disparity.AbstractDisparity.register_subclass(STUB)
    class VDisparity(disparity.AbstractDisparity):  # pylint: disable=unused-variable
        def __init__(self, **cfg):
            self.cfg = dict(cfg)

        def desc(self):
            pass

        def to_disp(self, cv, img_left=None, img_right=None):
            _log("to_disp", self.cfg, side_of(cv))
            assert side_of(cv) == side_of(img_left) != side_of(img_right)
            return tagged(side_of(cv))

    @filter.AbstractFilter.register_subclass(STUB)
    class VFilter(filter.AbstractFilter):  # pylint: disable=unused-variable
        margins = NullMargins()

        def __init__(self, *args, cfg=None, step=1, **kwargs):  # pylint: disable=super-init-not-called
            self.cfg = dict(cfg)

        def desc(self):
            pass

        def filter_disparity(self, disp, img_left=None, img_right=None, cv=None):
            _log("filter_disparity", self.cfg, side_of(disp))

    @refinement.AbstractRefinement.register_subclass(STUB)
    class VRefinement(refinement.AbstractRefinement):  # pylint: disable=unused-variable
        def __init__(self, **cfg):
            self.cfg = dict(cfg)

        def desc(self):
            pass

        def subpixel_refinement(self, cv, disp, img_left=None, img_right=None):  # pylint: disable=arguments-differ
            _log("subpixel_refinement", self.cfg, side_of(disp))
            assert side_of(cv) == side_of(disp)

        @staticmethod
        def refinement_method(cost, disp, measure, cst_pandora_msk_pixel_stopped_interpolation):
            return 0.0, cost[1], 0

    @validation.AbstractValidation.register_subclass(STUB)
    class VValidation(validation.AbstractValidation):  # pylint: disable=unused-variable
        def __init__(self, **cfg):
            self.cfg = dict(cfg)
            # the machine reads validation_.cfg["validation_method"] to decide about right products
            self.cfg["validation_method"] = "cross_checking_accurate"

        def desc(self):
            pass

        def disparity_checking(self, dataset_left, dataset_right, img_left=None, img_right=None, cv=None):
            _log("disparity_checking", self.cfg, side_of(dataset_left))
            assert side_of(dataset_left) != side_of(dataset_right)
            return dataset_left

    @multiscale.AbstractMultiscale.register_subclass(STUB)
    class VMultiscale(multiscale.AbstractMultiscale):  # pylint: disable=unused-variable
        def __init__(self, left_img, right_img, **cfg):
            self.cfg = dict(cfg)
            self.cfg.setdefault("num_scales", 2)
            self.cfg.setdefault("scale_factor", 2)

        def desc(self):
            pass

        def disparity_range(self, disp, disp_min, disp_max):
            _log("disparity_range", self.cfg, side_of(disp))
            return disp_min, disp_max


#: which class-level observations make up one callback-level event (first method of the callback)
CALLBACK_METHOD = {
    "matching_cost_prepare": "allocate_cost_volume",
    "matching_cost_run": "compute_cost_volume",
    "aggregation_run": "cost_volume_aggregation",
    "optimization_run": "optimize_cv",
    "semantic_segmentation_run": "compute_semantic_segmentation",
    "cost_volume_confidence_run": "confidence_prediction",
    "disparity_run": "to_disp",
    "filter_run": "filter_disparity",
    "refinement_run": "subpixel_refinement",
    "validation_run": "disparity_checking",
    "run_multiscale": "disparity_range",
}

CHECK_CALLBACKS = [k + "_check_conf" for k in KINDS]
RUN_CALLBACKS = list(CALLBACK_METHOD)


class Injected(Exception):
    """an exception that is none of MachineError/KeyError/AttributeError"""


class LoggedMachine(PandoraMachine):
    """The real machine with every callback logged (and optional exception injection)."""

    def __init__(self):
        super().__init__()
        self.cb_log = []  # ("check", cb, name, second) | ("run", cb, name, scale, sides)
        self.inject = {}  # (cb, name, second) -> "seq" | "other"
        self.orig_left = None
        logging.getLogger("transitions").setLevel(logging.ERROR)


def _wrap_check(cb):
    orig = getattr(PandoraMachine, cb)

    def wrapper(self, cfg, input_step):
        second = self.orig_left is not None and self.left_img is not self.orig_left
        self.cb_log.append(["check", cb, input_step, bool(second)])
        kind = self.inject.get((cb, input_step, bool(second)))
        if kind == "seq":
            raise KeyError("injected")
        if kind == "other":
            raise Injected("injected")
        return orig(self, cfg, input_step)

    wrapper.__name__ = cb
    return wrapper


def _wrap_run(cb):
    orig = getattr(PandoraMachine, cb)

    def wrapper(self, cfg, input_step):
        scale = self.current_scale
        n0 = len(LOG)
        try:
            return orig(self, cfg, input_step)
        finally:
            meth = CALLBACK_METHOD[cb]
            sides = [s for (m, _t, s) in LOG[n0:] if m == meth]
            # the step object used must have been built from this step's own configuration
            tags = sorted({str(t) for (_m, t, _s) in LOG[n0:]})
            self.cb_log.append(["run", cb, input_step, int(scale), sides, tags])

    wrapper.__name__ = cb
    return wrapper


for _cb in CHECK_CALLBACKS:
    setattr(LoggedMachine, _cb, _wrap_check(_cb))
for _cb in RUN_CALLBACKS:
    setattr(LoggedMachine, _cb, _wrap_run(_cb))


@contextlib.contextmanager
def patched_validity_mask():
    """The stub cost volumes carry no data: the module-level helper `validity_mask` is bypassed."""
    orig = state_machine.validity_mask
    state_machine.validity_mask = lambda left, right, cv: cv
    # run_prepare compares the configured validation_method with "cross_checking_accurate": the stub has to
    # answer to that name while the fast stream runs (the registry entry is restored afterwards)
    reg = validation.AbstractValidation.validation_methods_avail
    real_cc = reg.get("cross_checking_accurate")
    reg["cross_checking_accurate"] = reg[STUB]
    try:
        yield
    finally:
        state_machine.validity_mask = orig
        if real_cc is not None:
            reg["cross_checking_accurate"] = real_cc


def make_image(side: str, rows=8, cols=8, bands=None, rng=None, dmin=-2, dmax=2, disp=True, source=None):
    """A small image dataset as create_dataset_from_inputs would build it (plus a `side` tag)."""
    rng = rng or np.random.default_rng(0)
    if bands:
        data = rng.integers(0, 50, size=(len(bands), rows, cols)).astype(np.float32)
        ds = xr.Dataset(
            {"im": (["band_im", "row", "col"], data)},
            coords={"band_im": list(bands), "row": np.arange(rows), "col": np.arange(cols)},
        )
    else:
        data = rng.integers(0, 50, size=(rows, cols)).astype(np.float32)
        ds = xr.Dataset(
            {"im": (["row", "col"], data)},
            coords={"band_im": [None], "row": np.arange(rows), "col": np.arange(cols)},
        )
    if disp:
        d = np.stack([np.full((rows, cols), dmin, dtype=np.float32), np.full((rows, cols), dmax, dtype=np.float32)])
        ds["disparity"] = xr.DataArray(d, dims=["band_disp", "row", "col"], coords={"band_disp": ["min", "max"]})
    ds.attrs = {
        "no_data_img": -9999,
        "valid_pixels": 0,
        "no_data_mask": 1,
        "crs": None,
        "transform": None,
        "disparity_source": source if source is not None else ([dmin, dmax] if disp else None),
        "side": side,
    }
    return ds


def stub_pipeline(names, extra=None):
    """cfg["pipeline"] for `names` with every step using the "vstub" class, tagged with its own name."""
    pipe = {}
    for n in names:
        kind = n.split(".")[0]
        key = METHOD_KEY.get(kind, kind + "_method")
        pipe[n] = {key: "cross_checking_accurate" if kind == "validation" else STUB, "tag": n}
        if kind == "semantic_segmentation":
            pipe[n]["RGB_bands"] = None  # the real check callback reads it (monoband image: no band to name)
        if extra and n in extra:
            pipe[n].update(extra[n])
    return pipe


def classify_exception(exc) -> str:
    from transitions import MachineError

    if isinstance(exc, MachineError):
        return "seq_error"
    if isinstance(exc, (KeyError, AttributeError)):
        return "seq_error"
    return "other_error"


def machine_snapshot(m) -> dict:
    return {
        "state": m.state,
        "triggers": sorted(m.events.keys()),
        "right_disp_map": bool(m.right_disp_map),
    }


def expand_trace(cb_log):
    """callback-level log -> the model's event format"""
    out = []
    for e in cb_log:
        if e[0] == "check":
            out.append(["check", e[1], e[2], e[3]])
        else:
            _, cb, name, scale, sides = e[:5]
            for s in sides:
                out.append(["run", cb, name, scale, s == "R"])
    return out


def run_history(ops, left=None, right=None):
    """Execute a history of check/run calls on one LoggedMachine; returns one record per op.

    op = {"op": "check", "names": [...], "outcomes": [[cb, name, second, "seq"|"other"], ...]}
       | {"op": "run", "names": [...], "num_scales": n}
    """
    register_stubs()
    left = left if left is not None else make_image("L", 8, 8)
    right = right if right is not None else make_image("R", 8, 8, disp=False)
    m = LoggedMachine()
    m.orig_left = left
    outs = []
    dead = False
    with patched_validity_mask():
        for op in ops:
            if dead:
                outs.append({"skipped": True})
                continue
            m.cb_log = []
            del LOG[:]
            names = op["names"]
            res = "ok"
            exc_name = None
            if op["op"] == "check":
                m.inject = {(o[0], o[1], bool(o[2])): o[3] for o in op.get("outcomes", [])}
                cfg = {"pipeline": stub_pipeline(names)}
                try:
                    m.check_conf(cfg, left, right)
                except Exception as exc:  # pylint: disable=broad-except
                    res = classify_exception(exc) if not isinstance(exc, Injected) else "other_error"
                    exc_name = type(exc).__name__
            else:
                extra = {}
                for n in names:
                    if n.split(".")[0] == "multiscale":
                        extra[n] = {"num_scales": op["num_scales"], "scale_factor": 2}
                cfg = {"pipeline": stub_pipeline(names, extra)}
                try:
                    pandora.run(m, left, right, cfg)
                except Exception as exc:  # pylint: disable=broad-except
                    res = classify_exception(exc)
                    exc_name = type(exc).__name__
            outs.append(
                {
                    "res": res,
                    "exception": exc_name,
                    "machine": machine_snapshot(m),
                    "trace": expand_trace(m.cb_log),
                    "foreign_config": [[e[2], e[5]] for e in m.cb_log if e[0] == "run" and len(e) > 5 and e[5] not in ([], [e[2]])],
                }
            )
            if res != "ok":
                dead = True
    return outs
