"""Adapter for C16: materialise a case as GeoTIFF files (rasterio) in a temporary directory, call the real
`pandora.img_tools.create_dataset_from_inputs` / `get_window`, canonicalise the returned xarray.Dataset.

A *case* is a JSON-serialisable dict (it is what replay files store):
    rows, cols, dtype ("uint8" | "int16" | "float32"), bands [[[cell]]] (band, row, col), band_names [str|None],
    nodata cell, mask [[int]]|None, mask_dtype, mask_key ("given" | "null" | "absent"),
    disp "absent" | None | [a, b] | {"grid": [[[cell]]]}, classif {"names": [...], "px": [[[int]]]} | None,
    segm [[int]] | None, roi None | {"col": {"first", "last"}, "row": {...}, "margins": [l, u, r, d]}
where a cell is the exact wire encoding of `harness.core.enc` (int, "n/d", "nan", "inf", "-inf").
"""
from __future__ import annotations

import os
import shutil
import tempfile
import warnings

import numpy as np

from .. import core


def cell_to_float(c):
    v = core.dec(c)
    return float(v)


def _write(path, arr, dtype, descriptions=None):
    import rasterio

    arr = np.asarray(arr)
    with warnings.catch_warnings():
        warnings.simplefilter("ignore")
        with rasterio.open(
            path, "w", driver="GTiff", width=arr.shape[2], height=arr.shape[1], count=arr.shape[0], dtype=dtype
        ) as ds:
            ds.write(arr.astype(dtype))
            if descriptions is not None and any(d is not None for d in descriptions):
                ds.descriptions = tuple(descriptions)


def materialise(case, tmp):
    """write the files of a case, return the `input_config` dict handed to Pandora"""
    bands = np.array([[[cell_to_float(c) for c in row] for row in band] for band in case["bands"]], dtype=np.float64)
    img = os.path.join(tmp, "img.tif")
    _write(img, bands, case["dtype"], case.get("band_names"))
    nodata = cell_to_float(case["nodata"])
    if nodata == int(nodata) if np.isfinite(nodata) else False:
        nodata = int(nodata)
    cfg = {"img": img, "nodata": nodata}
    if case.get("mask") is not None:
        p = os.path.join(tmp, "mask.tif")
        _write(p, np.array([case["mask"]]), case.get("mask_dtype", "int16"))
        cfg["mask"] = p
    elif case.get("mask_key", "absent") == "null":
        cfg["mask"] = None
    disp = case.get("disp", "absent")
    if disp == "absent":
        pass
    elif disp is None:
        cfg["disp"] = None
    elif isinstance(disp, list):
        cfg["disp"] = [int(disp[0]), int(disp[1])]
    else:
        p = os.path.join(tmp, "disp.tif")
        g = np.array([[[cell_to_float(c) for c in row] for row in band] for band in disp["grid"]], dtype=np.float64)
        _write(p, g, "float32")
        cfg["disp"] = p
    if case.get("classif") is not None:
        p = os.path.join(tmp, "classif.tif")
        _write(p, np.array(case["classif"]["px"]), "int16", case["classif"]["names"])
        cfg["classif"] = p
    if case.get("segm") is not None:
        p = os.path.join(tmp, "segm.tif")
        _write(p, np.array([case["segm"]]), "int16")
        cfg["segm"] = p
    return cfg


def canon(ds):
    """xarray.Dataset -> the DS layout of the Lean driver + Python-side facts (dtypes, dims, attrs)"""
    im = ds["im"]
    data = im.data
    if data.ndim == 2:
        data3 = data[None]
        band_names = None
    else:
        data3 = data
        band_names = [None if b is None else str(b) for b in ds.coords["band_im"].data.tolist()] if "band_im" in ds.coords else None
    out = {
        "rows": int(ds.sizes["row"]),
        "cols": int(ds.sizes["col"]),
        "nbands": int(data3.shape[0]),
        "band_names": band_names,
        "im": core.enc(data3),
        "row": [int(v) for v in ds.coords["row"].data],
        "col": [int(v) for v in ds.coords["col"].data],
        "disp": None,
        "msk": None,
        "classif": None,
        "segm": None,
        "no_data_img": core.enc(ds.attrs.get("no_data_img")),
    }
    facts = {
        "im_dtype": str(data.dtype),
        "im_dims": list(im.dims),
        "vars": sorted(ds.data_vars),
        "valid_pixels": ds.attrs.get("valid_pixels"),
        "no_data_mask": ds.attrs.get("no_data_mask"),
        "disparity_source": ds.attrs.get("disparity_source", "missing"),
    }
    if "disparity" in ds:
        d = ds["disparity"]
        out["disp"] = core.enc(np.asarray(d.data))
        facts["disp_dims"] = list(d.dims)
        facts["band_disp"] = [str(b) for b in ds.coords["band_disp"].data] if "band_disp" in ds.coords else None
    if "msk" in ds:
        out["msk"] = core.enc(ds["msk"].data)
        facts["msk_dtype"] = str(ds["msk"].dtype)
        facts["msk_dims"] = list(ds["msk"].dims)
    if "classif" in ds:
        out["classif"] = {
            "names": [None if b is None else str(b) for b in ds.coords["band_classif"].data.tolist()],
            "px": core.enc(ds["classif"].data),
        }
        facts["classif_dtype"] = str(ds["classif"].dtype)
    if "segm" in ds:
        out["segm"] = core.enc(ds["segm"].data)
        facts["segm_dtype"] = str(ds["segm"].dtype)
    return out, facts


def run_case(case, with_full=True):
    """-> {"full": (ds, facts) | {"error": ..}, "roi": (ds, facts) | "refused" | {"error": ..} | None}"""
    from pandora.img_tools import create_dataset_from_inputs

    tmp = tempfile.mkdtemp(prefix="verif_c16_")
    try:
        cfg = materialise(case, tmp)
        res = {"full": None, "roi": None}
        with warnings.catch_warnings():
            warnings.simplefilter("ignore")
            if with_full:
                try:
                    res["full"] = canon(create_dataset_from_inputs(dict(cfg)))
                except Exception as exc:  # pylint: disable=broad-except
                    res["full"] = {"error": f"{type(exc).__name__}: {exc}"}
            if case.get("roi") is not None:
                try:
                    res["roi"] = canon(create_dataset_from_inputs(dict(cfg), roi=case["roi"]))
                except ValueError as exc:
                    if "outside the image" in str(exc):
                        res["roi"] = "refused"
                    else:
                        res["roi"] = {"error": f"ValueError: {exc}"}
                except Exception as exc:  # pylint: disable=broad-except
                    res["roi"] = {"error": f"{type(exc).__name__}: {exc}"}
        return res
    finally:
        shutil.rmtree(tmp, ignore_errors=True)


def real_get_window(roi, width, height):
    """the real get_window: [col_off, row_off, width, height] | None (refused) | {"error": ...}"""
    from pandora.img_tools import get_window

    try:
        w = get_window(roi, width, height)
        return [int(w.col_off), int(w.row_off), int(w.width), int(w.height)]
    except ValueError as exc:
        if "outside the image" in str(exc):
            return None
        return {"error": f"ValueError: {exc}"}
    except Exception as exc:  # pylint: disable=broad-except
        return {"error": f"{type(exc).__name__}: {exc}"}
