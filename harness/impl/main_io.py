"""Adapter for C19: run the real command-line entry point `pandora.main` on a scenario materialised in a temporary
directory (deleted afterwards), observe
  * the datasets handed to `save_results` (in-memory products) — through a wrapper installed from here around
    `pandora.common.save_results`, no change to Pandora;
  * the configuration `check_conf` returned and the machine's margins — wrapper around `pandora.check_conf`;
  * every file of the output directory read back with rasterio, `cfg/config.json` loaded with `json.load`;
  * a second run fed with `cfg/config.json`.

A *scenario* is JSON-serialisable:
  rows, cols, left [[int]], right [[int]], georef (bool), nodata_left ("NaN" | int | None = key absent),
  mask_left [[int]] | None, disp: {"kind": "ints", "value": [a, b]} | {"kind": "grids", "left": [dmin, dmax],
  "right": [dmin, dmax] | None}, pipeline: {step: {...}} (as in a user configuration file).
"""
from __future__ import annotations

import copy
import json
import math
import os
import shutil
import tempfile
import warnings

import numpy as np

from .. import core


def _write(path, arr, dtype, georef=None):
    import rasterio

    arr = np.asarray(arr)
    if arr.ndim == 2:
        arr = arr[None]
    kw = {}
    if georef is not None:
        from rasterio.transform import from_origin

        kw = {"crs": georef["crs"], "transform": from_origin(georef["west"], georef["north"], georef["xres"], georef["yres"])}
    with warnings.catch_warnings():
        warnings.simplefilter("ignore")
        with rasterio.open(path, "w", driver="GTiff", width=arr.shape[2], height=arr.shape[1], count=arr.shape[0],
                           dtype=dtype, **kw) as ds:
            ds.write(arr.astype(dtype))


def geo_tag(crs, transform):
    if crs is None:
        return "none"
    try:
        s = crs.to_string()
    except AttributeError:
        s = str(crs)
    return s + "|" + repr(tuple(float(v) for v in tuple(transform)[:6]))


def materialise(sc, tmp):
    """write the rasters; return the user configuration dict"""
    g = sc.get("georef")
    gl = None if not g else {"crs": "EPSG:32631", "west": 500000.0, "north": 4000000.0, "xres": 0.5, "yres": 0.5}
    gr = None if not g else {"crs": "EPSG:32631", "west": 500010.0 if g == "different" else 500000.0, "north": 4000000.0,
                             "xres": 0.5, "yres": 0.5}
    left = os.path.join(tmp, "left.tif")
    right = os.path.join(tmp, "right.tif")
    _write(left, sc["left"], "float32", gl)
    _write(right, sc["right"], "float32", gr)
    inp = {"left": {"img": left}, "right": {"img": right}}
    if sc.get("nodata_left") is not None:
        inp["left"]["nodata"] = sc["nodata_left"]
    if sc.get("nodata_right") is not None:
        inp["right"]["nodata"] = sc["nodata_right"]
    if sc.get("mask_left") is not None:
        p = os.path.join(tmp, "mask_left.tif")
        _write(p, sc["mask_left"], "int16", gl)
        inp["left"]["mask"] = p
    d = sc["disp"]
    if d["kind"] == "ints":
        inp["left"]["disp"] = list(d["value"])
    else:
        p = os.path.join(tmp, "disp_left.tif")
        _write(p, d["left"], "float32", gl)
        inp["left"]["disp"] = p
        if d.get("right") is not None:
            p = os.path.join(tmp, "disp_right.tif")
            _write(p, d["right"], "float32", gr)
            inp["right"]["disp"] = p
    return {"input": inp, "pipeline": copy.deepcopy(sc["pipeline"])}, {"left": left, "right": right}


def product_json(ds):
    if len(ds.sizes) == 0:
        return {"non_empty": False}, {}
    out = {
        "non_empty": True,
        "rows": int(ds.sizes["row"]),
        "cols": int(ds.sizes["col"]),
        "disparity": core.enc(np.asarray(ds["disparity_map"].data)),
        "validity": core.enc(np.asarray(ds["validity_mask"].data)),
        "conf": None,
        "geo": geo_tag(ds.attrs.get("crs"), ds.attrs.get("transform")),
    }
    facts = {"disparity_dtype": str(ds["disparity_map"].dtype), "validity_dtype": str(ds["validity_mask"].dtype)}
    if "confidence_measure" in ds:
        out["conf"] = {
            "indicators": [str(v) for v in ds["confidence_measure"]["indicator"].data],
            "px": core.enc(np.asarray(ds["confidence_measure"].data)),
        }
        facts["conf_dtype"] = str(ds["confidence_measure"].dtype)
        facts["conf_dims"] = list(ds["confidence_measure"].dims)
    return out, facts


def read_outputs(out):
    """every raster of the output directory, the other entries, the saved configuration"""
    import rasterio

    files, others = [], []
    for root, _dirs, names in os.walk(out):
        rel = os.path.relpath(root, out)
        for n in sorted(names):
            if n.endswith(".tif"):
                with warnings.catch_warnings():
                    warnings.simplefilter("ignore")
                    with rasterio.open(os.path.join(root, n)) as ds:
                        data = ds.read()
                        files.append({
                            "dir": "." if rel == "." else "./" + rel,
                            "name": n,
                            "dtype": ds.dtypes[0] if len(set(ds.dtypes)) == 1 else "mixed:" + ",".join(ds.dtypes),
                            "rows": int(ds.height),
                            "cols": int(ds.width),
                            "bands": [{"name": ds.descriptions[i], "px": core.enc(data[i])} for i in range(ds.count)],
                            "geo": geo_tag(ds.crs, ds.transform),
                        })
            else:
                others.append(("" if rel == "." else rel + "/") + n)
    files.sort(key=lambda f: f["name"])
    return files, sorted(others)


def jsonable(x):
    """configuration dict -> JSON-serialisable with NaN as "nan" (for evidence / Lean)"""
    if isinstance(x, dict):
        return {k: jsonable(v) for k, v in x.items()}
    if isinstance(x, (list, tuple)):
        return [jsonable(v) for v in x]
    if isinstance(x, (np.floating, float)):
        x = float(x)
        if math.isnan(x):
            return "nan"
        if math.isinf(x):
            return "inf" if x > 0 else "-inf"
        return x
    if isinstance(x, np.integer):
        return int(x)
    if isinstance(x, np.bool_):
        return bool(x)
    return x


_CALLS = [0]


def _entry(cfg_path, out):
    """Every other run goes through the console-script entry point `pandora.Pandora.main` (argparse: config,
    output_dir, -v), the others call `pandora.main` directly: the statement is about the command-line run."""
    import pandora

    _CALLS[0] += 1
    if _CALLS[0] % 2 == 0:
        import sys

        from pandora import Pandora as cli

        argv = sys.argv
        sys.argv = ["pandora", cfg_path, out]
        try:
            cli.main()
        finally:
            sys.argv = argv
    else:
        pandora.main(cfg_path, out, False)


def run_main(cfg_path, out):
    """one command-line run with the two observers installed; returns what was observed"""
    import pandora
    from pandora import common

    obs = {"error": None, "checked": None, "margins": None, "left": None, "right": None}
    orig_save = common.save_results
    orig_check = pandora.check_conf

    def spy_save(left, right, output):
        obs["left"], obs["right"] = left.copy(deep=True), right.copy(deep=True)
        return orig_save(left, right, output)

    def spy_check(user_cfg, machine):
        cfg = orig_check(user_cfg, machine)
        obs["checked"] = copy.deepcopy(cfg)
        obs["machine"] = machine
        return cfg

    common.save_results = spy_save
    pandora.check_conf = spy_check
    import logging

    logging.getLogger("transitions").setLevel(logging.ERROR)
    logging.getLogger("transitions.core").setLevel(logging.ERROR)
    try:
        with warnings.catch_warnings():
            warnings.simplefilter("ignore")
            _entry(cfg_path, out)
        obs["margins"] = obs["machine"].margins.to_dict()
    except Exception as exc:  # pylint: disable=broad-except
        obs["error"] = f"{type(exc).__name__}: {str(exc)[:300]}"
    finally:
        common.save_results = orig_save
        pandora.check_conf = orig_check
    obs.pop("machine", None)
    return obs


def run_scenario(sc, refeed=True):
    import rasterio

    tmp = tempfile.mkdtemp(prefix="verif_c19_")
    try:
        user_cfg, imgs = materialise(sc, tmp)
        cfg_path = os.path.join(tmp, "user_config.json")
        with open(cfg_path, "w", encoding="utf-8") as f:
            json.dump(user_cfg, f)
        out = os.path.join(tmp, "out")
        first = run_main(cfg_path, out)
        res = {"user_cfg": jsonable(user_cfg), "tmp": tmp, "error": first["error"], "checked": jsonable(first["checked"]),
               "margins": first["margins"], "input_geo": {}, "files": [], "others": [], "saved": None, "saved_error": None,
               "refeed": None, "checked_wire": None, "saved_wire": None}
        if first["checked"] is not None:
            # exact wire form (Model/JVal.lean) of what check_conf returned, for the dictionary model of `main`
            from .config_impl import to_wire

            res["checked_wire"] = to_wire(first["checked"])
        with warnings.catch_warnings():
            warnings.simplefilter("ignore")
            for side, p in imgs.items():
                with rasterio.open(p) as ds:
                    res["input_geo"][side] = geo_tag(ds.crs, ds.transform)
        if first["error"] is not None:
            return res
        res["left"], res["left_facts"] = product_json(first["left"])
        res["right"], res["right_facts"] = product_json(first["right"])
        res["files"], res["others"] = read_outputs(out)
        saved_path = os.path.join(out, "cfg", "config.json")
        try:
            with open(saved_path, encoding="utf-8") as f:
                raw_saved = json.load(f)
            res["saved"] = jsonable(raw_saved)
            from .config_impl import to_wire

            res["saved_wire"] = to_wire(raw_saved)
        except Exception as exc:  # pylint: disable=broad-except
            res["saved_error"] = f"{type(exc).__name__}: {exc}"
        if refeed and res["saved"] is not None:
            out2 = os.path.join(tmp, "out2")
            second = run_main(saved_path, out2)
            rf = {"error": second["error"], "checked": jsonable(second["checked"]), "files": [], "others": []}
            if second["error"] is None:
                rf["files"], rf["others"] = read_outputs(out2)
            res["refeed"] = rf
        return res
    finally:
        shutil.rmtree(tmp, ignore_errors=True)


def real_check_input(user_input, sc):
    """the real check_input_section on a user input section whose file names are symbolic ("left.tif", …):
    the files of scenario `sc` are materialised first. -> ("ok", completed) | ("refused", exception class)"""
    from pandora.check_configuration import check_input_section

    tmp = tempfile.mkdtemp(prefix="verif_c19i_")
    try:
        grids = {"kind": "grids", "left": sc["grid"], "right": sc["grid_right"]}
        base = dict(sc, disp=grids)
        _cfg, _ = materialise(base, tmp)

        def real(v):
            return os.path.join(tmp, v) if isinstance(v, str) and v.endswith(".tif") else v

        cfg = {"input": {s: {k: real(v) for k, v in user_input[s].items()} for s in ("left", "right")}}
        try:
            with warnings.catch_warnings():
                warnings.simplefilter("ignore")
                out = check_input_section(cfg)
        except Exception as exc:  # pylint: disable=broad-except
            return ("refused", type(exc).__name__)

        def sym(v):
            return os.path.basename(v) if isinstance(v, str) and v.startswith(tmp) else v

        return ("ok", jsonable({s: {k: sym(v) for k, v in out["input"][s].items()} for s in ("left", "right")}))
    finally:
        shutil.rmtree(tmp, ignore_errors=True)
