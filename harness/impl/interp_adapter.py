"""Adapter for C14: calls the real Pandora occlusion/mismatch filling in-process.

Three entry levels, all on the real code:
  * `run_method`   : `AbstractInterpolation(interpolated_disparity=m).interpolated_disparity(dataset)`
  * `run_kernel`   : one numba kernel (`interpolate_occlusion_mc_cnn`, …, `find_valid_neighbors`)
  * `run_validation`: `PandoraMachine.validation_run` (both cross-checks, then filling of left and right)
Maps travel as nested lists: disparities as exact fractions / "nan" (`core.enc`), flags as ints.
"""
from __future__ import annotations

import copy

import numpy as np
import xarray as xr

from .. import core

METHODS = ("mc-cnn", "sgm")
KERNELS = ("occlusion_mc_cnn", "mismatch_mc_cnn", "mismatch_sgm", "occlusion_sgm")


def to_arrays(disp, flag):
    """wire grids -> (float32 disparity map, uint16 validity mask) as the pipeline holds them"""
    rows = len(flag)
    cols = len(flag[0]) if rows else 0
    d = np.empty((rows, cols), dtype=np.float32)
    for r in range(rows):
        for c in range(cols):
            v = disp[r][c]
            d[r, c] = np.nan if v == "nan" else float(core.dec(v))
    f = np.array(flag, dtype=np.uint16).reshape(rows, cols)
    return d, f


def from_arrays(d, f):
    return {"disp": [[core.enc(x) for x in row] for row in np.asarray(d)],
            "flag": [[int(x) for x in row] for row in np.asarray(f)]}


def dataset(disp, flag, offset, interval=(-9, 9)):
    d, f = to_arrays(disp, flag)
    rows, cols = f.shape
    ds = xr.Dataset(
        {
            "disparity_map": (["row", "col"], d),
            "disparity_interval": xr.DataArray(list(interval), coords=[("disparity", ["min", "max"])]),
            "confidence_measure": (["row", "col", "indicator"], np.full((rows, cols, 1), np.nan, dtype=np.float32)),
            "validity_mask": (["row", "col"], f),
        },
        coords={"row": np.arange(rows), "col": np.arange(cols), "indicator": ["x"]},
    )
    ds.attrs["offset_row_col"] = int(offset)
    return ds


def error_tag(exc):
    return {"error": type(exc).__name__, "message": str(exc)[:200]}


def run_method(method, offset, disp, flag):
    """the public filling entry point on a dataset; returns the maps after filling"""
    from pandora import validation

    ds = dataset(disp, flag, offset)
    before_d = ds["disparity_map"].data.copy()
    try:
        interp = validation.AbstractInterpolation(**{"interpolated_disparity": method})
        interp.interpolated_disparity(ds)
    except Exception as exc:  # pylint: disable=broad-except
        return error_tag(exc)
    try:
        out = from_arrays(ds["disparity_map"].data, ds["validity_mask"].data)
    except (ValueError, OverflowError, TypeError) as exc:
        # the step left something that is not a map of numbers / a map of integer flag words (e.g. the two results
        # stored into each other's variable): not expressible on the wire, judged by the caller as a specification failure
        return {"bad_output": f"{type(exc).__name__}: {str(exc)[:120]}",
                "dtype": [str(ds["disparity_map"].data.dtype), str(ds["validity_mask"].data.dtype)]}
    out["attr"] = ds.attrs.get("interpolated_disparity")
    out["dtype"] = [str(ds["disparity_map"].data.dtype), str(ds["validity_mask"].data.dtype)]
    out["shape_in"] = list(before_d.shape)
    return out


def run_kernel(kernel, disp, flag):
    from pandora.validation.interpolated_disparity import McCnnInterpolation, SgmInterpolation

    d, f = to_arrays(disp, flag)
    d0, f0 = d.copy(), f.copy()
    fn = {
        "occlusion_mc_cnn": McCnnInterpolation.interpolate_occlusion_mc_cnn,
        "mismatch_mc_cnn": McCnnInterpolation.interpolate_mismatch_mc_cnn,
        "mismatch_sgm": SgmInterpolation.interpolate_mismatch_sgm,
        "occlusion_sgm": SgmInterpolation.interpolate_occlusion_sgm,
    }[kernel]
    try:
        od, ov = fn(d, f)
    except Exception as exc:  # pylint: disable=broad-except
        return error_tag(exc)
    out = from_arrays(od, ov)
    # the kernels work on copies: their arguments must come back untouched
    out["inputs_untouched"] = bool(np.array_equal(d, d0, equal_nan=True) and np.array_equal(f, f0))
    return out


DIRS8 = np.array([[0, 1], [-1, 1], [-1, 0], [-1, -1], [0, -1], [1, -1], [1, 0], [1, 1]])


def run_find_valid_neighbors(disp, flag):
    from pandora.img_tools import find_valid_neighbors

    d, f = to_arrays(disp, flag)
    rows, cols = f.shape
    try:
        return {"neighbors": [[[core.enc(x) for x in find_valid_neighbors(DIRS8, d, f, c, r)] for c in range(cols)]
                              for r in range(rows)]}
    except Exception as exc:  # pylint: disable=broad-except
        return error_tag(exc)


def live_dirs():
    """the direction tables the kernels use, read from the source text (they are local variables)"""
    import ast
    import inspect
    from pandora.validation import interpolated_disparity as mod

    tree = ast.parse(inspect.getsource(mod))
    found = {}
    for node in ast.walk(tree):
        if isinstance(node, ast.FunctionDef) and node.name.startswith("interpolate_"):
            for sub in ast.walk(node):
                if isinstance(sub, ast.Assign) and getattr(sub.targets[0], "id", None) == "dirs":
                    try:
                        found[node.name] = ast.literal_eval(sub.value.args[0])
                    except Exception:  # pylint: disable=broad-except
                        found[node.name] = None
    return found


def run_validation(method, offset, left, right, interval):
    """`PandoraMachine.validation_run` on given left/right maps.  Returns the maps the real cross-check
    produces when applied in the documented order on copies (reference `a`), and the machine's final maps."""
    from pandora import validation
    from pandora.state_machine import PandoraMachine

    cfg = {"pipeline": {"validation": {"validation_method": "cross_checking_accurate", "interpolated_disparity": method}}}
    l0 = dataset(left["disp"], left["flag"], offset, interval)
    r0 = dataset(right["disp"], right["flag"], offset, (-interval[1], -interval[0]))
    try:
        # reference: both cross-checks, nothing else
        checker = validation.AbstractValidation(**cfg["pipeline"]["validation"])
        l1 = checker.disparity_checking(copy.deepcopy(l0), copy.deepcopy(r0))
        r1 = checker.disparity_checking(copy.deepcopy(r0), copy.deepcopy(l1))
        machine = PandoraMachine()
        machine.left_disparity = copy.deepcopy(l0)
        machine.right_disparity = copy.deepcopy(r0)
        machine.right_disp_map = "cross_checking_accurate"
        machine.validation_run(cfg, "validation")
        lf, rf = machine.left_disparity, machine.right_disparity
    except Exception as exc:  # pylint: disable=broad-except
        return error_tag(exc)
    out = {}
    for name, a, b in (("left", l1, lf), ("right", r1, rf)):
        out[name] = {
            "checked": from_arrays(a["disparity_map"].data, a["validity_mask"].data),
            "final": from_arrays(b["disparity_map"].data, b["validity_mask"].data),
            "attr": b.attrs.get("interpolated_disparity"),
        }
    return out
