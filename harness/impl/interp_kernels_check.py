"""C14 — translator cross-check of the REGENERATED kernels (translator/gen_kernels_interp.py, Generated/KernelsInterp.lean):
the REAL compiled numba functions on a few hundred small maps against the translator's exact evaluator of the tree the
Lean text is printed from (`pyloops_ext.evaluate_*`).  A difference means the translator misreads Python ->
`status.problem("translator", …)`.  The other reading of the tree, Lean's, is checked at build time by the generated
`example`s of Generated/KernelsInterp.lean.
"""
from __future__ import annotations

import random
from fractions import Fraction

import numpy as np

DIRS8 = [[0, 1], [-1, 1], [-1, 0], [-1, -1], [0, -1], [1, -1], [1, 0], [1, 1]]
FLAGS = [0, 0, 0, 4, 8, 16, 32, 1024, 2048, 1, 2, 64, 128, 256, 512, 256 + 4, 512 + 8, 256 + 32, 512 + 16, 3, 192, 65535, 32768 + 4]


def small_map(rng):
    """(disp rows: Fraction | "nan", flag rows)"""
    shape = rng.random()
    if shape < 0.15:
        rows, cols = 1, rng.randrange(1, 8)
    elif shape < 0.3:
        rows, cols = rng.randrange(1, 7), 1
    else:
        rows, cols = rng.randrange(1, 6), rng.randrange(1, 7)
    p_valid = rng.choice([0.0, 0.2, 0.5, 0.8, 1.0])
    disp, flag = [], []
    for _ in range(rows):
        dr, fr = [], []
        for _ in range(cols):
            if rng.random() < p_valid:
                fr.append(rng.choice([0, 0, 4, 8, 16, 32, 1024, 2048, 4 + 2048]))
            else:
                fr.append(rng.choice(FLAGS[9:]))
            dr.append("nan" if rng.random() < 0.25 else Fraction(rng.randrange(-24, 25), 4))
        disp.append(dr)
        flag.append(fr)
    return disp, flag


def np_maps(disp, flag):
    d = np.array([[np.nan if v == "nan" else float(v) for v in r] for r in disp], dtype=np.float32)
    f = np.array(flag, dtype=np.uint16)
    return d, f


def canon(x):
    """a float32 cell as the evaluator's exact value"""
    x = float(x)
    if x != x:
        return "nan"
    return Fraction(x)


def exact_val(v):
    """evaluator value (None = NaN in pyexpr's `val`) -> Fraction | "nan" """
    if v is None or v == "nan":
        return "nan"
    return Fraction(v)


def check_find_valid_neighbors(ctx, report, status, ks, rng, n):
    from pandora.img_tools import find_valid_neighbors
    from translator import pyloops, pyloops_ext

    k = ks["findValidNeighbors"]
    problems = 0
    for it in range(n):
        disp, flag = small_map(rng)
        rows, cols = len(flag), len(flag[0])
        if it % 3 == 2:  # any direction table: the theorem is about every table
            dirs = [[rng.randrange(-2, 3), rng.randrange(-2, 3)] for _ in range(rng.choice([8, 8, 9, 11]))]
        else:
            dirs = DIRS8
        d, f = np_maps(disp, flag)
        dn = np.array(dirs, dtype=np.int64)
        ed = pyloops.Arr([[v for v in r] for r in disp], (rows, cols))
        ef = pyloops.Arr([list(r) for r in flag], (rows, cols))
        edirs = pyloops.Arr([list(r) for r in dirs], (len(dirs), 2))
        ef.integer = edirs.integer = True
        for r in range(rows):
            for c in range(cols):
                real = [canon(x) for x in find_valid_neighbors(dn, d, f, c, r)]
                report.count("kernel_find_valid_neighbors_calls")
                try:
                    res, vals = pyloops_ext.evaluate_vec(k, [edirs, ed, ef, c, r])
                    mine = [exact_val(v) for v in vals] if res == "ok" else res
                except Exception as exc:  # pylint: disable=broad-except
                    mine = f"{type(exc).__name__}: {exc}"
                try:  # the independent imperative reading of the whole function
                    whole = pyloops_ext.interpret_ext(k.fn, [edirs, ed, ef, c, r], k.numpy_names, k.consts, k.functions)
                    whole = [exact_val(v) for v in whole.data]
                except Exception as exc:  # pylint: disable=broad-except
                    whole = f"{type(exc).__name__}: {exc}"
                if mine != real or whole != real:
                    problems += 1
                    if problems <= 3:
                        status.problem("translator", f"translated find_valid_neighbors evaluates differently from the real function on "
                                       f"disp={disp} valid={flag} dirs={dirs} row={c} col={r}", f"real={real} evaluator={mine} interpret={whole}")
    return problems


PIXEL_KERNELS = {  # Lean name -> (class, method, cell tolerated on a tie of |d| with opposite signs: numba's argsort is not stable)
    "occlusionSgmPx": ("SgmInterpolation", "interpolate_occlusion_sgm", True),
    "mismatchSgmPx": ("SgmInterpolation", "interpolate_mismatch_sgm", False),
    "occlusionMcCnnPx": ("McCnnInterpolation", "interpolate_occlusion_mc_cnn", False),
    "mismatchMcCnnPx": ("McCnnInterpolation", "interpolate_mismatch_mc_cnn", False),
    "nodataSgmPx": (None, "interpolate_nodata_sgm", False),  # module-level function of pandora/img_tools.py
}


def flagged_map(rng):
    """a small map with occlusions / mismatches among valid and invalid pixels"""
    disp, flag = small_map(rng)
    for r, row in enumerate(flag):
        for c, _ in enumerate(row):
            if rng.random() < 0.35:
                row[c] = rng.choice([256, 512, 256 + 4, 512 + 8, 256 + 16, 512 + 32, 256 + 2048, 256 + 512])
                if rng.random() < 0.6:
                    disp[r][c] = "nan"
    return disp, flag


def check_pixel_kernels(ctx, report, status, ks, rng, n):
    from pandora.validation import interpolated_disparity as mod
    from translator import pyloops, pyloops_ext

    problems = 0
    for name, (cls, meth, sign_ties) in PIXEL_KERNELS.items():
        if name not in ks:
            continue
        k = ks[name]
        if cls is None:
            import pandora.img_tools as img_tools
            real_fn = getattr(img_tools, meth)
        else:
            real_fn = getattr(getattr(mod, cls), meth)
        for _ in range(n):
            disp, flag = flagged_map(rng)
            rows, cols = len(flag), len(flag[0])
            d, f = np_maps(disp, flag)
            ed = pyloops.Arr([[v for v in r] for r in disp], (rows, cols))
            ef = pyloops.Arr([list(r) for r in flag], (rows, cols))
            ef.integer = True
            report.count("kernel_" + meth + "_calls")
            # the independent imperative reading of the WHOLE function (mutable arrays, real loops): pyloops_ext.interpret_ext
            try:
                wd, wv = pyloops_ext.interpret_ext(k.fn, [pyloops.Arr([list(r) for r in disp], (rows, cols)), ef],
                                                   k.numpy_names, k.consts, k.functions)
                whole = [[[exact_val(wd.data[r][c]), int(wv.data[r][c])] for c in range(cols)] for r in range(rows)]
            except Exception as exc:  # pylint: disable=broad-except
                whole = f"{type(exc).__name__}: {exc}"
            try:
                od, ov = real_fn(d, f)
            except Exception as exc:  # pylint: disable=broad-except
                if not isinstance(whole, str):
                    problems += 1
                    if problems <= 3:
                        status.problem("translator", f"the real {meth} raised {type(exc).__name__} on disp={disp} valid={flag} but the "
                                       "interpreter of its source did not", str(exc)[:200])
                # the compiled kernel raised (e.g. numpy's argmax of an empty mask): the translated function must then be
                # undefined (`Res.outOfBounds`) at some pixel of this map — otherwise the translator misreads the source
                undefined = False
                for r in range(rows):
                    for c in range(cols):
                        try:
                            undefined = undefined or pyloops_ext.evaluate_at(k, [ed, ef], r, c)[0] != "ok"
                        except Exception:  # pylint: disable=broad-except
                            undefined = True
                report.count("kernel_" + meth + "_raised")
                if not undefined:
                    problems += 1
                    if problems <= 3:
                        status.problem("translator", f"the real {meth} raised {type(exc).__name__} on disp={disp} valid={flag} but its "
                                       "translation is defined at every pixel", str(exc)[:200])
                continue
            for r in range(rows):
                for c in range(cols):
                    real = [canon(od[r, c]), int(ov[r, c])]
                    try:
                        res, vals = pyloops_ext.evaluate_at(k, [ed, ef], r, c)
                        mine = [exact_val(vals[0]), int(vals[1])] if res == "ok" else res
                    except Exception as exc:  # pylint: disable=broad-except
                        mine = f"{type(exc).__name__}: {exc}"
                    w = whole[r][c] if not isinstance(whole, str) else whole
                    if w != real and not (sign_ties and isinstance(w, list) and w[1] == real[1] and "nan" not in (w[0], real[0])
                                          and abs(w[0]) == abs(real[0])):
                        problems += 1
                        if problems <= 3:
                            status.problem("translator", f"the interpreter of {meth} (whole function) differs from the real function on "
                                           f"disp={disp} valid={flag} pixel=({r},{c})", f"real={real} interpret={w}")
                    if mine != real:
                        if sign_ties and isinstance(mine, list) and mine[1] == real[1] and "nan" not in (mine[0], real[0]) \
                                and abs(mine[0]) == abs(real[0]):
                            report.count("kernel_sign_ties_compared_on_abs")
                            continue
                        problems += 1
                        if problems <= 3:
                            status.problem("translator", f"translated {meth} evaluates differently from the real function on "
                                           f"disp={disp} valid={flag} pixel=({r},{c})", f"real={real} evaluator={mine}")
    return problems


def kernel_cross_check(ctx, report, status):
    try:
        from translator import gen_kernels_interp
        ks = gen_kernels_interp.kernels()
    except Exception:  # Unsupported: already reported by build_and_audit (translate())  # pylint: disable=broad-except
        return
    report.translator_checks += 1
    rng = random.Random(ctx.seed * 7919 + 1414)  # its own stream: the streams of `run` keep their cases
    check_find_valid_neighbors(ctx, report, status, ks, rng, ctx.n(60, 600))
    check_pixel_kernels(ctx, report, status, ks, rng, ctx.n(120, 1200))
