"""Adapter for C04: runs the real Pandora steps in-process through the real `PandoraMachine` and
snapshots the validity masks (cost volume, left and right disparity datasets), the NaN pattern of the
cost volumes and the disparity maps after every step.  Also direct calls of the flag-arithmetic
kernels (refinement loop, cross-checking, the two interpolations) on crafted flag arrays.

Nothing in /repo is modified: `state_machine.validity_mask` is wrapped (and restored) only to copy
the mask it returns, so that the output of `criteria.validity_mask` is observed inside the real
`matching_cost_prepare`.
"""
from __future__ import annotations

import contextlib
import copy
import warnings

import numpy as np
import xarray as xr

import pandora  # noqa: F401  (registers the step classes)
from pandora import state_machine
from pandora.state_machine import PandoraMachine

VALID, NODATA, INVALID = 0, 1, 2


def make_image(im, msk_cls, dmin_grid=None, dmax_grid=None, col0=0, row0=0, valid_value=0, nodata_value=1,
               invalid_values=(2,), source=None):
    """Image dataset as `create_dataset_from_inputs` builds it.  `msk_cls`: None or a grid of classes
    0 valid / 1 nodata / 2 invalid, encoded with `valid_value`, `nodata_value` and (cycling) `invalid_values`."""
    im = np.asarray(im, dtype=np.float32)
    rows, cols = im.shape
    ds = xr.Dataset(
        {"im": (["row", "col"], im)},
        coords={"row": np.arange(row0, row0 + rows), "col": np.arange(col0, col0 + cols)},
    )
    if msk_cls is not None:
        cls = np.asarray(msk_cls)
        msk = np.full((rows, cols), valid_value, dtype=np.int16)
        msk[cls == NODATA] = nodata_value
        k = 0
        for r, c in zip(*np.where(cls == INVALID)):
            msk[r, c] = invalid_values[k % len(invalid_values)]
            k += 1
        ds["msk"] = xr.DataArray(msk, dims=["row", "col"])
    if dmin_grid is not None:
        d = np.stack([np.asarray(dmin_grid, dtype=np.float32), np.asarray(dmax_grid, dtype=np.float32)])
        ds["disparity"] = xr.DataArray(d, dims=["band_disp", "row", "col"], coords={"band_disp": ["min", "max"]})
    ds.attrs = {
        "no_data_img": -9999,
        "valid_pixels": valid_value,
        "no_data_mask": nodata_value,
        "crs": None,
        "transform": None,
        "disparity_source": source,
    }
    return ds


@contextlib.contextmanager
def observed_validity_mask(record):
    orig = state_machine.validity_mask

    def wrapped(img_left, img_right, cv):
        out = orig(img_left, img_right, cv)
        record.append(np.array(out["validity_mask"].data, copy=True))
        return out

    state_machine.validity_mask = wrapped
    try:
        yield
    finally:
        state_machine.validity_mask = orig


@contextlib.contextmanager
def observed_cross_checking(record):
    """copy the mask returned by every `CrossCheckingAccurate.disparity_checking` call (left, then right)"""
    from pandora.validation.validation import CrossCheckingAccurate

    orig = CrossCheckingAccurate.disparity_checking

    def wrapped(self, dataset_left, dataset_right, *args, **kwargs):
        out = orig(self, dataset_left, dataset_right, *args, **kwargs)
        record.append(np.array(out["validity_mask"].data, copy=True).astype(np.int64))
        return out

    CrossCheckingAccurate.disparity_checking = wrapped
    try:
        yield
    finally:
        CrossCheckingAccurate.disparity_checking = orig


def snap_disp(ds):
    if ds is None or "validity_mask" not in getattr(ds, "data_vars", {}):
        return None
    return {
        "mask": np.array(ds["validity_mask"].data, copy=True).astype(np.int64),
        "disp": np.array(ds["disparity_map"].data, copy=True).astype(np.float64),
    }


def snap_cv(cv):
    if cv is None or "validity_mask" not in getattr(cv, "data_vars", {}):
        return None
    out = {
        "mask": np.array(cv["validity_mask"].data, copy=True).astype(np.int64),
        "disp_coords": np.array(cv.coords["disp"].data, copy=True).astype(np.float64),
        "col_coords": np.array(cv.coords["col"].data, copy=True),
        "offset": int(cv.attrs["offset_row_col"]),
        "type_measure": cv.attrs.get("type_measure"),
    }
    if "cost_volume" in cv.data_vars:
        out["cv"] = np.array(cv["cost_volume"].data, copy=True)
    return out


def metadata_of(img):
    """what `get_metadata` builds for the configuration check (coordinates + disparity, no raster)"""
    ds = xr.Dataset(
        data_vars={},
        coords={"band_im": [None], "row": np.arange(img.sizes["row"]), "col": np.arange(img.sizes["col"])},
    )
    if "disparity" in img.data_vars:
        ds["disparity"] = xr.DataArray(
            np.array(img["disparity"].data), dims=["band_disp", "row", "col"], coords={"band_disp": ["min", "max"]}
        )
    ds.attrs = dict(img.attrs)
    return ds


def run_pipeline(left, right, pipeline):
    """check_conf + run_prepare + every step through the real machine.
    Returns {"error": str|None, "stage1": [masks returned by validity_mask], "steps": [(name, snapshot)]}."""
    machine = PandoraMachine()
    cfg = {"pipeline": copy.deepcopy(pipeline)}
    out = {"error": None, "stage1": [], "steps": [], "cfg": None}
    with warnings.catch_warnings():
        warnings.simplefilter("ignore")
        try:
            machine.check_conf(cfg, metadata_of(left), metadata_of(right))
            cfg = machine.pipeline_cfg
            out["cfg"] = copy.deepcopy(cfg)
            with observed_validity_mask(out["stage1"]):
                machine.run_prepare(cfg, left, right)
                cv_mask_at_disparity = None
                for name in list(cfg["pipeline"]):
                    machine.run(name, cfg)
                    if name.split(".")[0] == "disparity" and machine.left_cv is not None and "validity_mask" in machine.left_cv:
                        cv_mask_at_disparity = np.array(machine.left_cv["validity_mask"].data, copy=True)
                    if cv_mask_at_disparity is not None:
                        # the flags of the cost volume belong to the cost volume: steps working on the disparity map
                        # (refinement, filters, validation, filling) must not write into them
                        now = np.array(machine.left_cv["validity_mask"].data)
                        if not np.array_equal(now, cv_mask_at_disparity) and "cv_mask_changed_by" not in out:
                            out["cv_mask_changed_by"] = name
                            out["cv_mask_diff"] = [int(x) for x in np.argwhere(now != cv_mask_at_disparity)[0]]
                    out["steps"].append(
                        (
                            name,
                            {
                                "left_cv": snap_cv(machine.left_cv) if name.split(".")[0] == "matching_cost" else None,
                                "right_cv": snap_cv(machine.right_cv) if name.split(".")[0] == "matching_cost" and machine.right_disp_map == "cross_checking_accurate" else None,
                                "left": snap_disp(machine.left_disparity),
                                "right": snap_disp(machine.right_disparity),
                            },
                        )
                    )
                machine.run_exit()
        except Exception as exc:  # pylint: disable=broad-except
            out["error"] = f"{type(exc).__name__}: {exc}"
            try:
                machine.run_exit()
            except Exception:  # pylint: disable=broad-except
                pass
    return out


# ---------------------------------------------------------------------------------------------
# direct calls of the flag-arithmetic kernels on crafted flag arrays
# ---------------------------------------------------------------------------------------------
def direct_mc_cnn(disp, mask, offset):
    from pandora.validation import interpolated_disparity  # noqa: F401
    from pandora import validation

    interp = validation.AbstractInterpolation(**{"interpolated_disparity": "mc-cnn"})
    ds = _disp_dataset(disp, mask, offset)
    with warnings.catch_warnings():
        warnings.simplefilter("ignore")
        interp.interpolated_disparity(ds)
    return np.array(ds["validity_mask"].data).astype(np.int64)


def direct_sgm(disp, mask, offset):
    from pandora import validation

    interp = validation.AbstractInterpolation(**{"interpolated_disparity": "sgm"})
    ds = _disp_dataset(disp, mask, offset)
    with warnings.catch_warnings():
        warnings.simplefilter("ignore")
        interp.interpolated_disparity(ds)
    return np.array(ds["validity_mask"].data).astype(np.int64)


def _disp_dataset(disp, mask, offset):
    disp = np.asarray(disp, dtype=np.float32)
    rows, cols = disp.shape
    ds = xr.Dataset(
        {
            "disparity_map": (["row", "col"], disp.copy()),
            "validity_mask": (["row", "col"], np.asarray(mask, dtype=np.uint16).copy()),
        },
        coords={"row": np.arange(rows), "col": np.arange(cols)},
    )
    ds.attrs = {"offset_row_col": int(offset)}
    return ds


def direct_cross_checking(disp_left, mask_left, disp_right, mask_right, offset, dmin, dmax, threshold=1.0):
    from pandora import validation

    val = validation.AbstractValidation(**{"validation_method": "cross_checking_accurate", "cross_checking_threshold": threshold})
    left = _disp_dataset(disp_left, mask_left, offset)
    right = _disp_dataset(disp_right, mask_right, offset)
    left["disparity_interval"] = xr.DataArray(np.array([dmin, dmax]), coords=[("disparity", ["min", "max"])])
    right["disparity_interval"] = xr.DataArray(np.array([-dmax, -dmin]), coords=[("disparity", ["min", "max"])])
    with warnings.catch_warnings():
        warnings.simplefilter("ignore")
        out = val.disparity_checking(left, right)
    return np.array(out["validity_mask"].data).astype(np.int64)


def direct_refinement(cv, disp, mask, dmin, dmax, subpix, method="vfit", measure="min"):
    """loop_refinement of the real refinement class on crafted arrays; returns the mask."""
    from pandora import refinement

    ref = refinement.AbstractRefinement(**{"refinement_method": method})
    cv = np.asarray(cv, dtype=np.float32).copy()
    disp = np.asarray(disp, dtype=np.float32).copy()
    mask = np.asarray(mask, dtype=np.uint16).copy()
    with warnings.catch_warnings():
        warnings.simplefilter("ignore")
        _, _, out = ref.loop_refinement(cv, disp, mask, float(dmin), float(dmax), int(subpix), measure, ref.refinement_method)
    return np.array(out).astype(np.int64)
