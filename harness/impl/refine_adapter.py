"""Adapters calling the real Pandora refinement code in-process (C06).

* `run_refinement(case)`  : one call of `AbstractRefinement.subpixel_refinement` (the public entry of the
  step: `refinement_run` calls exactly this) on datasets built like the pipeline builds them
  (float32 cost volume, float32 disparity map, uint16 validity mask, disparity coordinates from
  `AbstractMatchingCost.get_disparity_range`).
* `run_pipeline_capture(...)` : a real pipeline through `pandora.run` with every call of
  `subpixel_refinement` / `disparity_checking` recorded (inputs copied before, outputs copied after).

A *case* is a JSON-able dict with exact numbers (ints, "n/d" strings, "nan"):
  {"method","is_max","subpix","dmin","dmax","cv":[row][col][disp],"disp":[row][col],"mask":[row][col],
   optional "pmin","pmax":[row][col]}
"""
from __future__ import annotations

import contextlib
import warnings
from fractions import Fraction

import numpy as np
import xarray as xr

from .. import core


def to_float(x):
    """wire value -> python float"""
    if x is None:
        return float("nan")
    if isinstance(x, str):
        if x == "nan":
            return float("nan")
        if x == "inf":
            return float("inf")
        if x == "-inf":
            return float("-inf")
        return float(Fraction(x))
    return float(x)


def arr(grid, dtype):
    return np.array([[to_float(v) for v in row] for row in grid], dtype=dtype)


def arr3(grid, dtype):
    return np.array([[[to_float(v) for v in cell] for cell in row] for row in grid], dtype=dtype)


def disparity_range(dmin: int, dmax: int, subpix: int):
    from pandora.matching_cost.matching_cost import AbstractMatchingCost

    return AbstractMatchingCost.get_disparity_range(dmin, dmax, subpix)


def build_datasets(case):
    subpix = int(case["subpix"])
    dvals = disparity_range(int(case["dmin"]), int(case["dmax"]), subpix)
    cvarr = arr3(case["cv"], np.float32)
    n_row, n_col, n_disp = cvarr.shape
    if n_disp != len(dvals):
        raise ValueError(f"cost rows have {n_disp} samples, interval has {len(dvals)}")
    cv = xr.Dataset(
        {"cost_volume": (["row", "col", "disp"], cvarr)},
        coords={"row": np.arange(n_row), "col": np.arange(n_col), "disp": dvals},
    )
    cv.attrs["subpixel"] = subpix
    cv.attrs["type_measure"] = "max" if case["is_max"] else "min"
    cv.attrs["measure"] = "zncc" if case["is_max"] else "sad"
    disp = xr.Dataset(
        {
            "disparity_map": (["row", "col"], arr(case["disp"], np.float32)),
            "validity_mask": (["row", "col"], np.array(case["mask"], dtype=np.uint16)),
        },
        coords={"row": np.arange(n_row), "col": np.arange(n_col)},
    )
    return cv, disp


def canon_exception(exc) -> str:
    """small enum: what kind of failure the step ended with"""
    name = type(exc).__name__
    text = str(exc)
    if name == "ZeroDivisionError" or "division by zero" in text:
        return "zero_division"
    if name == "SystemError":
        # numba's parallel dispatcher reports an exception raised inside a prange body this way
        return "zero_division_or_other_in_parallel_region"
    if name == "IndexError":
        return "out_of_bounds"
    return "exception:" + name


def run_refinement(case):
    """-> {"res": "ok", "coeff":..., "disp":..., "mask":..., "cv_unchanged": bool} or {"res": <exception enum>}"""
    from pandora import refinement

    cv, disp = build_datasets(case)
    cv_before = cv["cost_volume"].data.copy()
    ref = refinement.AbstractRefinement(**{"refinement_method": case["method"]})
    try:
        with warnings.catch_warnings():
            warnings.simplefilter("ignore")
            ref.subpixel_refinement(cv, disp)
    except Exception as exc:  # pylint: disable=broad-except
        return {"res": canon_exception(exc), "exception": f"{type(exc).__name__}: {str(exc)[:120]}"}
    return {
        "res": "ok",
        "coeff": core.enc(np.asarray(disp["interpolated_coeff"].data, dtype=np.float64)),
        "disp": core.enc(np.asarray(disp["disparity_map"].data, dtype=np.float64)),
        "mask": [[int(v) for v in row] for row in disp["validity_mask"].data],
        "cv_unchanged": bool(np.array_equal(cv_before, cv["cost_volume"].data, equal_nan=True)),
        "refinement_attr": disp.attrs.get("refinement"),
    }


# ------------------------------------------------------------------------------------------------
# real pipelines with the refinement / validation steps observed
# ------------------------------------------------------------------------------------------------
def make_image(rng, rows, cols, dmin, dmax, data=None, msk=None, with_disp=True):
    """an image dataset as create_dataset_from_inputs builds it (see harness/impl/machine_stubs.make_image)"""
    if data is None:
        data = np.array([[rng.randrange(0, 12) for _ in range(cols)] for _ in range(rows)], dtype=np.float32)
    ds = xr.Dataset(
        {"im": (["row", "col"], np.asarray(data, dtype=np.float32))},
        coords={"row": np.arange(rows), "col": np.arange(cols)},
    )
    if with_disp:
        d = np.stack([np.full((rows, cols), dmin, dtype=np.float32), np.full((rows, cols), dmax, dtype=np.float32)])
        ds["disparity"] = xr.DataArray(d, dims=["band_disp", "row", "col"], coords={"band_disp": ["min", "max"]})
    if msk is not None:
        ds["msk"] = xr.DataArray(np.asarray(msk, dtype=np.int16), dims=["row", "col"])
    ds.attrs = {
        "no_data_img": -9999,
        "valid_pixels": 0,
        "no_data_mask": 1,
        "crs": None,
        "transform": None,
        "disparity_source": [dmin, dmax] if with_disp else None,
    }
    return ds


@contextlib.contextmanager
def capture_steps(log):
    """Record every call of the refinement and cross-checking entry points made by the state machine.
    The real methods run unchanged; inputs are copied before the call and outputs after it."""
    from pandora.refinement import refinement as ref_mod
    from pandora.validation import validation as val_mod

    orig_ref = ref_mod.AbstractRefinement.subpixel_refinement
    orig_cc = val_mod.CrossCheckingAccurate.disparity_checking

    def ref_wrapper(self, cv, disp):
        rec = {
            "step": "refinement",
            "method": str(self.cfg["refinement_method"]),
            "is_max": cv.attrs["type_measure"] == "max",
            "subpix": int(cv.attrs["subpixel"]),
            "dvals": np.array(cv.coords["disp"].data, dtype=np.float64),
            "cv": cv["cost_volume"].data.copy(),
            "disp": disp["disparity_map"].data.copy(),
            "mask": disp["validity_mask"].data.copy(),
        }
        try:
            orig_ref(self, cv, disp)
        except Exception as exc:  # pylint: disable=broad-except
            rec["res"] = canon_exception(exc)
            log.append(rec)
            raise
        rec["res"] = "ok"
        rec["out_disp"] = disp["disparity_map"].data.copy()
        rec["out_mask"] = disp["validity_mask"].data.copy()
        rec["out_coeff"] = disp["interpolated_coeff"].data.copy()
        log.append(rec)

    def cc_wrapper(self, dataset_left, dataset_right, img_left=None, img_right=None, cv=None):
        rec = {
            "step": "validation",
            "threshold": self.cfg["cross_checking_threshold"],
            "interval": [float(v) for v in dataset_left["disparity_interval"].data],
            "offset": int(dataset_left.attrs["offset_row_col"]),
            "disp_left": dataset_left["disparity_map"].data.copy(),
            "mask_left": dataset_left["validity_mask"].data.copy(),
            "disp_right": dataset_right["disparity_map"].data.copy(),
            "mask_right": dataset_right["validity_mask"].data.copy(),
            "bands_before": [str(b) for b in dataset_left.coords["indicator"].data]
            if "confidence_measure" in dataset_left
            else [],
        }
        out = orig_cc(self, dataset_left, dataset_right, img_left, img_right, cv)
        rec["out_disp"] = out["disparity_map"].data.copy()
        rec["out_mask"] = out["validity_mask"].data.copy()
        rec["out_bands"] = [str(b) for b in out.coords["indicator"].data]
        rec["out_conf"] = out["confidence_measure"].data[:, :, -1].copy()
        rec["other_disp_after"] = dataset_right["disparity_map"].data.copy()
        rec["other_mask_after"] = dataset_right["validity_mask"].data.copy()
        log.append(rec)
        return out

    ref_mod.AbstractRefinement.subpixel_refinement = ref_wrapper
    val_mod.CrossCheckingAccurate.disparity_checking = cc_wrapper
    try:
        yield
    finally:
        ref_mod.AbstractRefinement.subpixel_refinement = orig_ref
        val_mod.CrossCheckingAccurate.disparity_checking = orig_cc


def run_pipeline_capture(pipeline_cfg, left, right):
    """pandora.run on a real PandoraMachine; -> (log of observed steps, "ok" | exception enum)"""
    import pandora
    from pandora.state_machine import PandoraMachine

    log = []
    machine = PandoraMachine()
    cfg = {"pipeline": pipeline_cfg}
    res = "ok"
    with capture_steps(log), warnings.catch_warnings():
        warnings.simplefilter("ignore")
        try:
            pandora.run(machine, left, right, cfg)
        except Exception as exc:  # pylint: disable=broad-except
            res = canon_exception(exc) + f" ({type(exc).__name__}: {str(exc)[:100]})"
    return log, res
