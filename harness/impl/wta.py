"""Adapter for C03: calls the real `WinnerTakesAll.to_disp` (directly on a hand-built cost-volume dataset, and through
a real PandoraMachine running matching_cost then disparity on an image pair with per-pixel disparity grids)."""
from __future__ import annotations

import numpy as np
import xarray as xr


def make_cv(cost, disps, type_measure, flags, conf=None, indicators=None, row0=0, col0=0):
    """A cost-volume dataset as the matching-cost step leaves it (cost_volume float32, validity_mask, bands)."""
    rows, cols, _ = cost.shape
    cv = xr.Dataset(
        {"cost_volume": (["row", "col", "disp"], np.array(cost, dtype=np.float32))},
        coords={"row": np.arange(row0, row0 + rows), "col": np.arange(col0, col0 + cols), "disp": np.array(disps, dtype=np.float64)},
    )
    cv.attrs = {
        "type_measure": type_measure,
        "measure": "zncc" if type_measure == "max" else "sad",
        "window_size": 1,
        "subpixel": 1,
        "offset_row_col": 0,
        "cmax": 1000,
        "band_correl": None,
        "crs": None,
        "transform": None,
    }
    cv["validity_mask"] = xr.DataArray(np.array(flags, dtype=np.uint16), dims=["row", "col"])
    if conf is not None:
        cv["confidence_measure"] = xr.DataArray(
            np.array(conf, dtype=np.float32), dims=["row", "col", "indicator"], coords={"indicator": list(indicators)}
        )
    return cv


def snapshot(cv):
    """deep copies of everything the step must leave alone"""
    snap = {"cost_volume": cv["cost_volume"].data.copy(), "validity_mask": cv["validity_mask"].data.copy()}
    if "confidence_measure" in cv.data_vars:
        snap["confidence_measure"] = cv["confidence_measure"].data.copy()
        snap["indicator"] = [str(i) for i in cv.coords["indicator"].data]
    return snap


def to_disp(cv, invalid_cfg):
    """invalid_cfg: what the user writes in the configuration (int, float, "NaN")"""
    from pandora import disparity

    cfg = {"disparity_method": "wta"}
    if invalid_cfg is not None:
        cfg["invalid_disparity"] = invalid_cfg
    disp_ = disparity.AbstractDisparity(**cfg)
    out = disp_.to_disp(cv)
    return out, disp_.cfg["invalid_disparity"]


def observe(out):
    obs = {"disparity_map": np.array(out["disparity_map"].data), "validity_mask": np.array(out["validity_mask"].data)}
    if "confidence_measure" in out.data_vars:
        obs["confidence_measure"] = np.array(out["confidence_measure"].data)
        obs["indicator"] = [str(i) for i in out.coords["indicator"].data]
    return obs


# ------------------------------------------------------------------------------------------------------
# through the machine: matching_cost then disparity, left and right, per-pixel disparity grids
# ------------------------------------------------------------------------------------------------------
def make_pair(left, right, dmin_grid, dmax_grid, mask_left=None, mask_right=None):
    rows, cols = left.shape

    def ds(im, msk):
        d = xr.Dataset(
            {"im": (["row", "col"], np.array(im, dtype=np.float32))},
            coords={"row": np.arange(rows), "col": np.arange(cols)},
        )
        if msk is not None:
            d["msk"] = xr.DataArray(np.array(msk, dtype=np.int16), dims=["row", "col"])
        d.attrs = {"no_data_img": -9999, "valid_pixels": 0, "no_data_mask": 1, "crs": None, "transform": None}
        return d

    il, ir = ds(left, mask_left), ds(right, mask_right)
    il["disparity"] = xr.DataArray(
        np.stack([np.array(dmin_grid, dtype=np.float32), np.array(dmax_grid, dtype=np.float32)]),
        dims=["band_disp", "row", "col"],
        coords={"band_disp": ["min", "max"]},
    )
    il.attrs["disparity_source"] = [int(np.min(dmin_grid)), int(np.max(dmax_grid))]
    ir.attrs["disparity_source"] = None
    return il, ir


class DisparityStepRaised(Exception):
    """the step under test raised"""


class MatchingCostFailed(Exception):
    """the steps before the disparity step failed on this input (reported as a skipped case)"""


NO_PRIOR = object()


def run_machine(il, ir, measure, window, subpix, invalid_cfg, with_right, prior_invalid_cfg=NO_PRIOR):
    """returns for each side: (cv snapshot before the disparity step, cv after, observed disparity dataset,
    per-pixel interval grids, disparity coordinate, type_measure).
    `prior_invalid_cfg`: the machine first runs the same pipeline configured with ANOTHER invalid_disparity
    (a machine object used for several runs: what one run leaves on it must not leak into the next)."""
    from pandora.state_machine import PandoraMachine

    pipe = {
        "matching_cost": {"matching_cost_method": measure, "window_size": window, "subpix": subpix},
        "disparity": {"disparity_method": "wta"},
    }
    if invalid_cfg is not None:
        pipe["disparity"]["invalid_disparity"] = invalid_cfg
    if with_right:
        pipe["validation"] = {"validation_method": "cross_checking_accurate"}
    cfg = {"pipeline": pipe}
    m = PandoraMachine()
    if prior_invalid_cfg is not NO_PRIOR:
        import copy

        pcfg = copy.deepcopy(cfg)
        if prior_invalid_cfg is None:
            pcfg["pipeline"]["disparity"].pop("invalid_disparity", None)
        else:
            pcfg["pipeline"]["disparity"]["invalid_disparity"] = prior_invalid_cfg
        try:
            m.run_prepare(pcfg, il.copy(deep=True), ir.copy(deep=True))
            for step in pcfg["pipeline"]:
                m.run(step, pcfg)
            m.run_exit()
        except Exception as exc:  # pylint: disable=broad-except
            raise MatchingCostFailed(f"prior run: {type(exc).__name__}: {exc}") from exc
    try:
        m.run_prepare(cfg, il, ir)
        m.run("matching_cost", cfg)
    except Exception as exc:  # the matching-cost step is not the subject of C03
        raise MatchingCostFailed(f"{type(exc).__name__}: {exc}") from exc
    sides = {}
    grids = {"left": (np.array(m.disp_min), np.array(m.disp_max))}
    before = {"left": (snapshot(m.left_cv), np.array(m.left_cv.coords["disp"].data), m.left_cv.attrs["type_measure"])}
    if with_right:
        before["right"] = (snapshot(m.right_cv), np.array(m.right_cv.coords["disp"].data), m.right_cv.attrs["type_measure"])
        grids["right"] = (np.array(m.right_disp_min), np.array(m.right_disp_max))
    try:
        m.run("disparity", cfg)
    except Exception as exc:
        raise DisparityStepRaised(f"{type(exc).__name__}: {exc}") from exc
    after = {"left": (snapshot(m.left_cv), observe(m.left_disparity))}
    if with_right:
        after["right"] = (snapshot(m.right_cv), observe(m.right_disparity))
    m.run_exit()
    for side in before:
        sides[side] = {
            "before": before[side][0],
            "disps": before[side][1],
            "type_measure": before[side][2],
            "after": after[side][0],
            "obs": after[side][1],
            "lo": grids[side][0],
            "hi": grids[side][1],
        }
    return sides


def live_block_literals():
    """the arange literals of argmin_split/argmax_split as an independent reading of the live functions' source"""
    import inspect
    import re

    from pandora.disparity.disparity import WinnerTakesAll

    out = {}
    for name in ("argmin_split", "argmax_split"):
        src = inspect.getsource(getattr(WinnerTakesAll, name))
        out[name] = [(int(a), int(b)) for a, b in re.findall(r"np\.arange\(\s*(\d+)\s*,\s*\w+\s*,\s*(\d+)\s*\)", src)]
    return out

