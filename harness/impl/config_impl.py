"""Adapters for C05 / C17: call the real configuration-checking code of Pandora in-process.

* wire conversion of configuration values (exact; floats by their shortest round-trip decimal, which
  names the double uniquely and keeps the order against integer constants — DESIGN_NOTES/C05.md),
* construction of one step class through its abstract class (`Abstract<Kind>(**cfg)`),
* `check_pipeline_section`, `PandoraMachine.check_conf`, `check_conf`, `update_conf`,
  `check_input_section`, `check_datasets`,
* the live `json_checker` schemas (captured by wrapping `Checker` in the step modules — an observation
  hook of the harness, Pandora is not modified),
* small raster files for the input section.
"""
from __future__ import annotations

import copy
import logging
import math
import os
import sys
import warnings
from fractions import Fraction

import numpy as np
import xarray as xr

logging.disable(logging.CRITICAL)
warnings.filterwarnings("ignore")

import json_checker  # noqa: E402
from json_checker.core.checkers import Validator  # noqa: E402
from json_checker.core.exceptions import CheckerError  # noqa: E402
from json_checker.core.reports import Report  # noqa: E402
from transitions import MachineError  # noqa: E402

import pandora  # noqa: E402,F401
from pandora import check_configuration as cc  # noqa: E402
from pandora import (  # noqa: E402  pylint: disable=redefined-builtin
    aggregation,
    cost_volume_confidence,
    disparity,
    filter,
    matching_cost,
    multiscale,
    optimization,
    refinement,
    semantic_segmentation,
    validation,
)
from pandora.state_machine import PandoraMachine  # noqa: E402

ABSTRACT = {
    "matching_cost": (matching_cost.AbstractMatchingCost, "matching_cost_methods_avail"),
    "aggregation": (aggregation.AbstractAggregation, "aggreg_methods_avail"),
    "optimization": (optimization.AbstractOptimization, "optimization_methods_avail"),
    "semantic_segmentation": (semantic_segmentation.AbstractSemanticSegmentation, "segmentation_methods_avail"),
    "cost_volume_confidence": (cost_volume_confidence.AbstractCostVolumeConfidence, "confidence_methods_avail"),
    "disparity": (disparity.AbstractDisparity, "disparity_methods_avail"),
    "filter": (filter.AbstractFilter, "filter_methods_avail"),
    "refinement": (refinement.AbstractRefinement, "subpixel_methods_avail"),
    "validation": (validation.AbstractValidation, "validation_methods_avail"),
    "multiscale": (multiscale.AbstractMultiscale, "multiscale_methods_avail"),
}


# --------------------------------------------------------------------------------------------
# wire format
# --------------------------------------------------------------------------------------------
def to_wire(v):
    """Python configuration value -> wire JVal (see lean/PandoraModel/Model/JVal.lean)"""
    if v is None:
        return None
    if isinstance(v, (bool, np.bool_)):
        return bool(v)
    if isinstance(v, (int, np.integer)):
        return int(v)
    if isinstance(v, (float, np.floating)):
        x = float(v)
        if math.isnan(x):
            return {"f": "nan"}
        if math.isinf(x):
            return {"f": "inf" if x > 0 else "-inf"}
        fr = Fraction(repr(x))
        return {"f": fr.numerator if fr.denominator == 1 else f"{fr.numerator}/{fr.denominator}"}
    if isinstance(v, str):
        return v
    if isinstance(v, (list, tuple)):
        return [to_wire(x) for x in v]
    if isinstance(v, dict):
        return {"o": [[str(k), to_wire(x)] for k, x in v.items()]}
    raise TypeError(f"cannot put {type(v).__name__} on the wire")


def from_wire(j):
    if isinstance(j, list):
        return [from_wire(x) for x in j]
    if isinstance(j, dict):
        if "f" in j:
            f = j["f"]
            if f == "nan":
                return float("nan")
            if f == "inf":
                return float("inf")
            if f == "-inf":
                return float("-inf")
            return float(Fraction(f))
        return {k: from_wire(x) for k, x in j["o"]}
    return j


def exc_name(exc: BaseException) -> str:
    """exception -> the class names of the model's `Err`"""
    if isinstance(exc, CheckerError):
        return "CheckerError"
    if isinstance(exc, MachineError):
        return "MachineError"
    try:
        import rasterio.errors

        if isinstance(exc, rasterio.errors.RasterioError):
            return "RasterioError"
    except ImportError:  # pragma: no cover
        pass
    for cls in (KeyError, IndexError, AttributeError, NameError, TypeError, ValueError):
        if isinstance(exc, cls):
            return cls.__name__
    return type(exc).__name__


# --------------------------------------------------------------------------------------------
# image metadata (what get_metadata produces, as far as the checks read it)
# --------------------------------------------------------------------------------------------
def meta(bands=(None,), disp_source=None, rows=6, cols=7) -> xr.Dataset:
    band_arr = np.array(list(bands), dtype=object) if any(b is None for b in bands) else np.array(list(bands))
    ds = xr.Dataset(data_vars={}, coords={"band_im": band_arr, "row": np.arange(rows), "col": np.arange(cols)})
    ds.attrs["disparity_source"] = disp_source
    return ds


def img_info_wire(bands, disp_source):
    return {"bands": list(bands), "disp_source": to_wire(disp_source)}


# --------------------------------------------------------------------------------------------
# the real code
# --------------------------------------------------------------------------------------------
def construct(kind: str, cfg: dict, left: xr.Dataset, right: xr.Dataset):
    """`Abstract<Kind>(**cfg)` exactly as the machine's check callback builds it -> ("ok", obj.cfg) | ("err", name)"""
    cls = ABSTRACT[kind][0]
    try:
        if kind == "filter":
            obj = cls(cfg=copy.deepcopy(cfg), image_shape=(left.sizes["row"], left.sizes["col"]), step=1)
        elif kind in ("optimization", "semantic_segmentation"):
            obj = cls(left, **cfg)
        elif kind == "multiscale":
            obj = cls(left, right, **cfg)
        else:
            obj = cls(**cfg)
        return "ok", obj.cfg
    except BaseException as exc:  # pylint: disable=broad-except
        if isinstance(exc, (KeyboardInterrupt, SystemExit)):
            raise
        return "err", exc_name(exc)


def machine_state_wire(m: PandoraMachine):
    return {
        "pipeline_cfg": to_wire(m.pipeline_cfg["pipeline"]),
        "right_disp_map": bool(m.right_disp_map),
        "step": to_wire(m.step),
    }


def check_pipeline_section(machine: PandoraMachine, user_cfg: dict, left: xr.Dataset, right: xr.Dataset):
    try:
        out = cc.check_pipeline_section(user_cfg, left, right, machine)
        return "ok", out
    except BaseException as exc:  # pylint: disable=broad-except
        if isinstance(exc, (KeyboardInterrupt, SystemExit)):
            raise
        return "err", exc_name(exc)


def check_conf(machine: PandoraMachine, user_cfg: dict):
    try:
        return "ok", cc.check_conf(user_cfg, machine)
    except BaseException as exc:  # pylint: disable=broad-except
        if isinstance(exc, (KeyboardInterrupt, SystemExit)):
            raise
        return "err", exc_name(exc)


def check_input_section(user_cfg: dict):
    try:
        return "ok", cc.check_input_section(cc.get_config_input(user_cfg))
    except BaseException as exc:  # pylint: disable=broad-except
        if isinstance(exc, (KeyboardInterrupt, SystemExit)):
            raise
        return "err", exc_name(exc)


def update_conf(default: dict, user: dict):
    try:
        return "ok", cc.update_conf(default, user)
    except BaseException as exc:  # pylint: disable=broad-except
        if isinstance(exc, (KeyboardInterrupt, SystemExit)):
            raise
        return "err", exc_name(exc)


def check_datasets(left: xr.Dataset, right: xr.Dataset):
    try:
        cc.check_datasets(left, right)
        return "ok", None
    except BaseException as exc:  # pylint: disable=broad-except
        if isinstance(exc, (KeyboardInterrupt, SystemExit)):
            raise
        return "err", exc_name(exc)


def check_dataset(ds: xr.Dataset):
    try:
        cc.check_dataset(ds)
        return "ok", None
    except BaseException as exc:  # pylint: disable=broad-except
        if isinstance(exc, (KeyboardInterrupt, SystemExit)):
            raise
        return "err", exc_name(exc)


def same_value(a, b) -> bool:
    """structural equality of two configuration values, dict order included, NaN equal to NaN, and
    `True`/`1`/`1.0` kept apart"""
    return to_wire(a) == to_wire(b)


def snapshot(v):
    return copy.deepcopy(v)


# --------------------------------------------------------------------------------------------
# live schemas
# --------------------------------------------------------------------------------------------
class _Capture:
    """stands in for `Checker` inside one module while a class's check_conf runs"""

    seen = None

    def __init__(self, expected, *args, **kwargs):
        _Capture.seen = expected
        self._real = json_checker.Checker(expected, *args, **kwargs)

    def validate(self, data):
        return self._real.validate(data)


def live_schema(kind: str, method: str):
    """the schema dictionary the class of `method` builds in check_conf (captured on a valid minimal call)"""
    cls = getattr(ABSTRACT[kind][0], ABSTRACT[kind][1])[method]
    mod = sys.modules[cls.__module__]
    method_key = {
        "matching_cost": "matching_cost_method",
        "aggregation": "aggregation_method",
        "cost_volume_confidence": "confidence_method",
        "disparity": "disparity_method",
        "filter": "filter_method",
        "refinement": "refinement_method",
        "validation": "validation_method",
        "multiscale": "multiscale_method",
    }[kind]
    old = mod.Checker
    mod.Checker = _Capture
    _Capture.seen = None
    try:
        status, _ = construct(kind, {method_key: method}, meta(), meta())
    finally:
        mod.Checker = old
    if status != "ok" or _Capture.seen is None:
        raise RuntimeError(f"could not capture the live schema of {kind}/{method}")
    # copy the dict (the three matching-cost classes share one dictionary object)
    return dict(_Capture.seen)


def live_accepts(expected, value) -> bool:
    """does the live json_checker validator of one schema entry accept the value"""
    rep = Report(soft=True)
    Validator(expected_data=expected, report=rep).validate(value)
    return not rep.has_errors()


def live_class(kind: str, method: str):
    return getattr(ABSTRACT[kind][0], ABSTRACT[kind][1])[method]


def registered(kind: str):
    return sorted(getattr(ABSTRACT[kind][0], ABSTRACT[kind][1]).keys())


# --------------------------------------------------------------------------------------------
# raster files for the input section
# --------------------------------------------------------------------------------------------
def write_tif(path, data, descriptions=None, nodata=None, dtype="float32"):
    """data: (count, rows, cols) array, stored in `dtype`"""
    import rasterio

    data = np.asarray(data, dtype=np.dtype(dtype))
    if data.ndim == 2:
        data = data[None]
    with warnings.catch_warnings():
        warnings.simplefilter("ignore")
        with rasterio.open(
            path, "w", driver="GTiff", height=data.shape[1], width=data.shape[2], count=data.shape[0], dtype=dtype,
            **({"nodata": nodata} if nodata is not None else {})
        ) as dst:
            dst.write(data)
            if descriptions:
                for i, d in enumerate(descriptions):
                    if d is not None:
                        dst.set_band_description(i + 1, d)


class FileSet:
    """a small family of raster files in a temporary directory + what the model is told about them"""

    def __init__(self, root: str):
        self.root = root
        self.info = {}
        rng = np.random.RandomState(7)

        def add(name, count, rows, cols, descriptions=None, min_gt_max=False, grid=False, nodata_tag=None,
                dtype="float32", bounds=(-2.0, 2.0)):
            path = os.path.join(root, name)
            if grid:
                lo = np.full((rows, cols), bounds[0], dtype=np.float32)
                hi = np.full((rows, cols), bounds[1], dtype=np.float32)
                if min_gt_max and nodata_tag is None:
                    lo[rows // 2, cols // 2] = bounds[1] + 1.0
                if min_gt_max and nodata_tag is not None:
                    # the only cells with min > max hold the file's declared nodata value: Pandora reads the grids raw,
                    # so this is still a malformed grid
                    hi[rows // 2, cols // 2] = nodata_tag
                    hi[0, 0] = nodata_tag
                data = np.stack([lo, hi] + [hi] * (count - 2))[:count]
            else:
                data = rng.randint(0, 20, size=(count, rows, cols)).astype(np.float32)
            write_tif(path, data, descriptions, nodata=nodata_tag, dtype=dtype)
            self.info[path] = {
                "width": cols,
                "height": rows,
                "count": count,
                "min_gt_max": bool(min_gt_max),
                "bands": list(descriptions) if descriptions else [None] * count,
            }
            return path

        self.img_a = add("a_left.tif", 1, 5, 6)
        self.img_a2 = add("a_right.tif", 1, 5, 6)
        self.img_b = add("b.tif", 1, 4, 6)  # another size
        self.img_rgb = add("rgb_left.tif", 3, 5, 6, ["r", "g", "b"])
        self.img_rgb2 = add("rgb_right.tif", 3, 5, 6, ["r", "g", "b"])
        self.img_named = add("named_left.tif", 2, 5, 6, ["red", "nir"])
        self.img_named2 = add("named_right.tif", 2, 5, 6, ["red", "nir"])
        self.mask_a = add("mask_a.tif", 1, 5, 6)
        self.mask_b = add("mask_b.tif", 1, 4, 6)
        self.grid_a = add("grid_a.tif", 2, 5, 6, grid=True)
        self.grid_a_right = add("grid_a_right.tif", 2, 5, 6, grid=True)
        self.grid_bad = add("grid_bad.tif", 2, 5, 6, grid=True, min_gt_max=True)
        self.grid_bad_nodata = add("grid_bad_nodata.tif", 2, 5, 6, grid=True, min_gt_max=True, nodata_tag=-9999.0)
        self.grid_ok_nodata = add("grid_ok_nodata.tif", 2, 5, 6, grid=True, nodata_tag=-9999.0)
        # grids stored in narrow integer types (seed C17-4): min > max must be judged on the stored values, whatever
        # arithmetic the storage type would do on a difference (30 - 31 = 255 in uint8, 100 - (-100) = -56 in int8)
        self.grid_u8_bad = add("grid_u8_bad.tif", 2, 5, 6, grid=True, min_gt_max=True, dtype="uint8", bounds=(29.0, 30.0))
        self.grid_u16_bad = add("grid_u16_bad.tif", 2, 5, 6, grid=True, min_gt_max=True, dtype="uint16", bounds=(2.0, 6.0))
        self.grid_u8_ok = add("grid_u8_ok.tif", 2, 5, 6, grid=True, dtype="uint8", bounds=(0.0, 200.0))
        self.grid_i8_wide = add("grid_i8_wide.tif", 2, 5, 6, grid=True, dtype="int8", bounds=(-100.0, 100.0))
        self.grid_i16_wide = add("grid_i16_wide.tif", 2, 5, 6, grid=True, dtype="int16", bounds=(-20000.0, 20000.0))
        self.grid_i16_bad = add("grid_i16_bad.tif", 2, 5, 6, grid=True, min_gt_max=True, dtype="int16", bounds=(-3.0, 4.0))
        self.grid_b = add("grid_b.tif", 2, 4, 6, grid=True)
        self.grid_1band = add("grid_1.tif", 1, 5, 6)
        self.grid_3band = add("grid_3.tif", 3, 5, 6, grid=True)
        self.not_raster = os.path.join(root, "not_a_raster.txt")
        with open(self.not_raster, "w", encoding="utf-8") as f:
            f.write("this is not an image\n")
        self.missing = os.path.join(root, "does_not_exist.tif")
        # a raster whose (relative) name is one of the three strings update_conf rewrites: only meaningful for a caller
        # whose working directory is `root` (see C17: input_case)
        add("NaN", 1, 5, 6)
        self.info["NaN"] = self.info.pop(os.path.join(root, "NaN"))
        self.img_magic = "NaN"

    def wire(self):
        return self.info
