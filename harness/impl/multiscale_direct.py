"""Direct calls of the real `FixedZoomPyramid.disparity_range` on synthetic coarse disparity maps (C15), and an
independent reading of its chunk loop: the literals of the live source and the split points numpy really receives."""
from __future__ import annotations

import numpy as np
import xarray as xr


def make_pyramid(factor, marge, num_scales=2):
    """the real multiscale object, built the way `run_multiscale` builds it"""
    import pandora.multiscale as multiscale

    img = xr.Dataset(attrs={"disparity_source": [-1, 1]})
    return multiscale.AbstractMultiscale(  # type: ignore
        img, img, multiscale_method="fixed_zoom_pyramid", num_scales=num_scales, scale_factor=factor, marge=marge
    )


def disparity_dataset(disp, flags, window_size):
    rows, cols = disp.shape
    return xr.Dataset(
        {
            "disparity_map": (["row", "col"], np.array(disp, dtype=np.float32)),
            "validity_mask": (["row", "col"], np.array(flags, dtype=np.uint16)),
        },
        coords={"row": np.arange(rows), "col": np.arange(cols)},
        attrs={"window_size": int(window_size)},
    )


def disparity_range_direct(disp, flags, window_size, marge, factor, user_min, user_max):
    """(disp_min_range, disp_max_range) as `run_multiscale` receives them: upsampled, not yet multiplied"""
    pyr = make_pyramid(factor, marge)
    ds = disparity_dataset(disp, flags, window_size)
    mn, mx = pyr.disparity_range(ds, np.array(user_min, dtype=np.float64), np.array(user_max, dtype=np.float64))
    return np.array(mn, dtype=np.float64), np.array(mx, dtype=np.float64)


def disparity_range_raw(disp, flags, window_size, marge, factor, disp_min, disp_max, dtype=np.float32):
    """the real `disparity_range` with ARRAYS of user bounds (NaN allowed) and, for `factor == 1`, the early return that
    the configuration check never lets a run reach (`_scale_factor` set on the object).  Returns (min map, max map, the
    disparity map after the call, the validity mask after the call)."""
    pyr = make_pyramid(max(factor, 2), marge)
    pyr._scale_factor = factor  # pylint: disable=protected-access
    rows, cols = np.shape(disp)
    ds = xr.Dataset(
        {
            "disparity_map": (["row", "col"], np.array(disp, dtype=dtype)),
            "validity_mask": (["row", "col"], np.array(flags, dtype=np.uint16)),
        },
        coords={"row": np.arange(rows), "col": np.arange(cols)},
        attrs={"window_size": int(window_size)},
    )
    import warnings

    with warnings.catch_warnings():
        warnings.simplefilter("ignore")
        mn, mx = pyr.disparity_range(ds, np.array(disp_min, dtype=np.float64), np.array(disp_max, dtype=np.float64))
    return (np.array(mn, dtype=np.float64), np.array(mx, dtype=np.float64), np.array(ds["disparity_map"].data, dtype=np.float64),
            np.array(ds["validity_mask"].data).astype(int))


def mask_invalid_raw(disp, flags, dtype=np.float32):
    """the real `mask_invalid_disparities`: (result, the disparity map afterwards, whether they share memory)"""
    from pandora.multiscale.multiscale import AbstractMultiscale

    ds = disparity_dataset(np.array(disp, dtype=dtype), flags, 3)
    out = AbstractMultiscale.mask_invalid_disparities(ds)
    return np.array(out, dtype=np.float64), np.array(ds["disparity_map"].data, dtype=np.float64), bool(
        np.shares_memory(out, ds["disparity_map"].data))


def live_literals():
    """independent reading of the live source of `disparity_range`: chunk size, arange literals, offset formula"""
    import inspect
    import re

    from pandora.multiscale.fixed_zoom_pyramid import FixedZoomPyramid

    src = inspect.getsource(FixedZoomPyramid.disparity_range)
    out = {}
    m = re.search(r"chunk_size\s*=\s*(\d+)", src)
    out["chunk_size"] = int(m.group(1)) if m else None
    out["arange"] = re.findall(r"np\.arange\(\s*(\w+)\s*,\s*(\w+)\s*,\s*(\w+)\s*\)", src)
    # offset = int((w - M) / K)  ->  ("halfm", K, M);   offset = int(w / K)  ->  ("half", K)
    m = re.search(r"offset\s*=\s*int\(\s*\(\s*disp\.attrs\[\"window_size\"\]\s*-\s*(\d+)\s*\)\s*/\s*(\d+)\s*\)", src)
    m2 = re.search(r"offset\s*=\s*int\(\s*disp\.attrs\[\"window_size\"\]\s*/\s*(\d+)\s*\)", src)
    out["offset"] = ("halfm", int(m.group(2)), int(m.group(1))) if m else (("half", int(m2.group(1))) if m2 else None)
    m = re.search(r"(\w+)\s*,\s*(\w+)\s*=\s*disp\[\"disparity_map\"\]\.shape", src)
    out["shape_names"] = (m.group(1), m.group(2)) if m else None
    return out


def observed_splits(rows, cols, window_size):
    """the `np.array_split` calls `disparity_range` really makes on a rows x cols map:
    [(axis, split points, shape[:2] of the array that is split)]"""
    calls = []
    orig = np.array_split

    def recording(ary, indices_or_sections, axis=0):
        calls.append((int(axis), [int(v) for v in np.asarray(indices_or_sections).ravel()],
                      [int(v) for v in np.shape(ary)[:2]]))
        return orig(ary, indices_or_sections, axis=axis)

    np.array_split = recording
    try:
        disparity_range_direct(np.zeros((rows, cols)), np.zeros((rows, cols), dtype=int), window_size, 1, 2, -2.0, 2.0)
    finally:
        np.array_split = orig
    return calls


def expected_splits(split, rows, cols, window_size):
    """the same calls as the model makes them from the translated literals (`Blocks.arange` / `arraySplit`)"""
    dims = (rows, cols)
    ly, lx = rows - window_size + 1, cols - window_size + 1
    pts_y = list(range(split["startY"], dims[split["stopYDim"]], split["stepY"]))
    pts_x = list(range(split["startX"], dims[split["stopXDim"]], split["stepX"]))
    bounds = [0] + [min(p, ly) for p in pts_y] + [ly]
    calls = [(0, pts_y, [ly, lx])]
    for a, b in zip(bounds, bounds[1:]):
        calls.append((1, pts_x, [max(b - a, 0), lx]))
    return calls
