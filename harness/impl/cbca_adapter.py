"""Adapter for C11: calls the real cross-based cost aggregation code of Pandora in-process.

Everything numeric is produced by Pandora (`cross_support`, `cbca_step_1..4`, `computes_cross_supports`,
`cost_volume_aggregation`, and — for pipeline-made cost volumes — the real matching-cost step).
"""
from __future__ import annotations

import numpy as np
import xarray as xr


def _mods():
    from pandora import aggregation, matching_cost  # noqa: F401  (registers the plugins)
    from pandora.aggregation import cbca

    return aggregation, cbca


def class_defaults():
    _, cbca = _mods()
    cls = cbca.CrossBasedCostAggregation
    return {"_CBCA_INTENSITY": float(cls._CBCA_INTENSITY), "_CBCA_DISTANCE": int(cls._CBCA_DISTANCE)}  # pylint: disable=protected-access


def cross_support(image, dist: int, intensity: float):
    """image: 2D list with None for masked (= +inf in the code). Returns int array (H, W, 4)."""
    _, cbca = _mods()
    arr = np.array([[np.inf if v is None else v for v in row] for row in image], dtype=np.float32)
    return cbca.cross_support(arr, np.int16(dist), np.float32(intensity)).astype(int)


def steps(cv_plane, arms_l, arms_r, d: float):
    """One disparity plane through cbca_step_1..4 exactly as `cost_volume_aggregation` wires them.
    cv_plane: (H, W) float32 with NaN; arms_l: (H, W, 4) ; arms_r: (H, Wr, 4)."""
    _, cbca = _mods()
    cv_plane = np.ascontiguousarray(cv_plane, dtype=np.float32)
    # the arm arrays have the type the real cross_support produces (the kernels are compiled for it)
    arm_dtype = cbca.cross_support(np.zeros((1, 1), dtype=np.float32), np.int16(1), np.float32(1.0)).dtype
    arms_l = np.ascontiguousarray(arms_l, dtype=arm_dtype)
    arms_r = np.ascontiguousarray(arms_r, dtype=arm_dtype)
    n_row_ = cv_plane.shape[1]
    range_col = np.arange(0, n_row_)
    range_col_right = range_col + d
    valid_index = np.where((range_col_right >= 0) & (range_col_right < arms_r.shape[1]))
    step1 = cbca.cbca_step_1(cv_plane)
    step2, sum2 = cbca.cbca_step_2(step1, arms_l, arms_r, range_col[valid_index], range_col_right[valid_index].astype(int))
    step3 = cbca.cbca_step_3(step2)
    step4, sum4 = cbca.cbca_step_4(step3, sum2, arms_l, arms_r, range_col[valid_index], range_col_right[valid_index].astype(int))
    sum4 = sum4 + 1
    return {"step2": step2, "sum2": sum2, "step4": step4, "sum4": sum4}


def make_image(im, msk, valid_pixels=0, no_data_mask=1):
    from rasterio import Affine

    im = np.array(im, dtype=np.float32)
    data = {"im": (["row", "col"], im)}
    if msk is not None:
        data["msk"] = (["row", "col"], np.array(msk, dtype=np.int16))
    ds = xr.Dataset(data, coords={"row": np.arange(im.shape[0]), "col": np.arange(im.shape[1])})
    ds.attrs = {"valid_pixels": valid_pixels, "no_data_mask": no_data_mask, "crs": None,
                "transform": Affine(1.0, 0.0, 0.0, 0.0, 1.0, 0.0)}
    return ds


def make_cv(cv, disp, subpix, offset, cmax=100.0):
    cv = np.array(cv, dtype=np.float32)
    ds = xr.Dataset(
        {"cost_volume": (["row", "col", "disp"], cv)},
        coords={"row": np.arange(cv.shape[0]), "col": np.arange(cv.shape[1]), "disp": np.array(disp, dtype=np.float64)},
    )
    ds.attrs = {"measure": "sad", "subpixel": subpix, "offset_row_col": offset, "cmax": cmax, "type_measure": "min",
                "window_size": 2 * offset + 1}
    return ds


def matching_cost_cv(left, right, dmin, dmax, method, window, subpix):
    """the cost volume the real matching-cost step produces (after cv_masked)"""
    from pandora import matching_cost
    from pandora.criteria import validity_mask
    from pandora.img_tools import add_disparity

    left = left.copy(deep=True)
    left.pipe(add_disparity, disparity=[dmin, dmax], window=None)
    mc = matching_cost.AbstractMatchingCost(**{"matching_cost_method": method, "window_size": window, "subpix": subpix})
    lo, hi = left["disparity"].sel(band_disp="min"), left["disparity"].sel(band_disp="max")
    grid = mc.allocate_cost_volume(left, (lo, hi))
    grid = validity_mask(left, right, grid)
    cv = mc.compute_cost_volume(img_left=left, img_right=right, cost_volume=grid)
    mc.cv_masked(left, right, cv, lo, hi)
    return left, cv


def aggregate(left, right, cv, dist: int, intensity: float):
    """Runs the public aggregation entry point on a deep copy of `cv`; returns
    (aggregated cost volume (row, col, disp) float32, cross_left, [cross_right per shift])."""
    aggregation, _ = _mods()
    obj = aggregation.AbstractAggregation(
        **{"aggregation_method": "cbca", "cbca_intensity": float(intensity), "cbca_distance": int(dist)}
    )
    cv2 = cv.copy(deep=True)
    cross_left, cross_right = obj.computes_cross_supports(left, right, cv2)
    obj.cost_volume_aggregation(left, right, cv2)
    return np.array(cv2["cost_volume"].data), np.array(cross_left).astype(int), [np.array(c).astype(int) for c in cross_right]
