"""Worker process of the C18 runtime sampling: runs deterministic cases under the NUMBA_NUM_THREADS /
PANDORA_NUMBA_PARALLEL settings of its environment and prints one JSON line per case."""
from __future__ import annotations

import copy
import hashlib
import json
import random
import sys

import numpy as np


def ds_fingerprint(ds):
    """deep fingerprint of a dataset: variables (bytes), coords, attrs"""
    h = hashlib.sha256()
    for name in sorted(ds.variables):
        v = ds[name]
        h.update(str(name).encode())
        h.update(str(v.dims).encode())
        h.update(str(v.dtype).encode())
        h.update(np.ascontiguousarray(v.data).tobytes() if v.dtype != object else str(list(v.data)).encode())
    h.update(json.dumps({k: str(v) for k, v in sorted(ds.attrs.items())}).encode())
    return h.hexdigest()


def products_hash(ds_left, ds_right, only_disp_flags=False):
    h = hashlib.sha256()
    for ds in (ds_left, ds_right):
        for var in ("disparity_map", "validity_mask") + (() if only_disp_flags else ("confidence_measure",)):
            if var in ds:
                a = np.ascontiguousarray(ds[var].data)
                h.update(var.encode())
                h.update(str(a.shape).encode())
                h.update(a.tobytes())
                if var == "confidence_measure":
                    h.update(str(list(ds[var].coords["indicator"].data)).encode())
    return h.hexdigest()


def gen_case(seed, i):
    from harness.impl import pipelines as pl

    rng = random.Random(seed * 7919 + i)
    rows, cols = rng.choice([(10, 14), (12, 16), (9, 13)])
    lo = rng.choice([-3, -2, -1])
    hi = lo + rng.choice([2, 3, 4])
    left, right = pl.make_pair(rng, rows, cols, lo, hi, masks=rng.random() < 0.4)
    pipe = pl.gen_pipeline(rng, validation=rng.random() < 0.7, allow_agg=True)
    # make sure the parallel kernels are exercised
    if i % 3 == 0:
        pipe2 = {}
        for k, v in pipe.items():
            if k == "disparity":
                pipe2["cost_volume_confidence.amb"] = {"confidence_method": "ambiguity"}
                pipe2["cost_volume_confidence.int"] = {"confidence_method": "interval_bounds", "regularization": i % 2 == 0,
                                                       "ambiguity_indicator": "amb", "vertical_depth": 1}
                pipe2["cost_volume_confidence.risk"] = {"confidence_method": "risk"}
            if not k.startswith("cost_volume_confidence"):
                pipe2[k] = v
            if k == "disparity":
                pipe2["refinement"] = {"refinement_method": "vfit"}
        pipe = {k: v for k, v in pipe2.items()}
        if "refinement" in pipe and list(pipe).count("refinement") > 1:
            pass
    if i % 3 == 1:
        # a bilateral filter whose window int(3 sigma + 1) is clamped by the image size: sigma 6.0 and its sibling 4.0 give the
        # same window width (seed C18-5: a class-level cache of the spatial kernel keyed on the width)
        pipe = {k: v for k, v in pipe.items() if not k.startswith("filter")}
        tail = {k: pipe.pop(k) for k in list(pipe) if k.startswith("validation")}
        pipe["filter"] = {"filter_method": "bilateral", "sigma_color": 2.0, "sigma_space": 6.0}
        pipe.update(tail)
    other = pl.gen_pipeline(rng, validation=rng.random() < 0.5)
    return left, right, pipe, other


# a sibling of a pipeline: same steps, same classes, same array shapes, every numeric parameter moved to another legal value
# (a cache shared by step objects and keyed on a shape or a width instead of the parameter itself is fed by the sibling)
SIBLING = {
    "sigma_space": lambda v: 4.0 if v >= 5.0 else (6.3 if v == 6.0 else v + 0.25),
    "sigma_color": lambda v: v * 1.5,
    "cbca_intensity": lambda v: v + 5.0,
    "cbca_distance": lambda v: v + 1,
    "cross_checking_threshold": lambda v: 0.0 if v else 1.0,
    "eta_max": lambda v: 0.5,
    "eta_step": lambda v: 0.02,
    "possibility_threshold": lambda v: 0.8,
    "quantile_regularization": lambda v: 0.9,
    "vertical_depth": lambda v: v + 1,
    "filter_size": lambda v: 5 if v == 3 else 3,
    "invalid_disparity": lambda v: -5 if v == -9999 else -9999,
}


def sibling(pipe):
    out = copy.deepcopy(pipe)
    for step in out.values():
        for k in list(step):
            if k in SIBLING and isinstance(step[k], (int, float)) and not isinstance(step[k], bool):
                step[k] = SIBLING[k](step[k])
        if step.get("confidence_method") == "ambiguity":
            step.setdefault("eta_max", 0.5)
        if step.get("filter_method") == "bilateral":
            step.setdefault("sigma_color", 3.0)
    return out


def config_table():
    """(kind, cfg) probes over the built-in step classes: values on and around the domain boundaries"""
    tab = []
    for meth in ("sad", "ssd", "census", "zncc"):
        for w in (1, 3, 5, 7, 4):
            for sp in (1, 2, 4, 6, 3):
                tab.append(("matching_cost", {"matching_cost_method": meth, "window_size": w, "subpix": sp}))
    for fs in (1, 3, 4, 5):
        tab.append(("filter", {"filter_method": "median", "filter_size": fs}))
        tab.append(("filter", {"filter_method": "median_for_intervals", "filter_size": fs}))
    for sg in (0.0, 1.0, 2.5):
        tab.append(("filter", {"filter_method": "bilateral", "sigma_space": sg, "sigma_color": 2.0}))
    for meth in ("vfit", "quadratic"):
        tab.append(("refinement", {"refinement_method": meth}))
    for d, i in ((5, 30.0), (0, 30.0), (5, 0.0)):
        tab.append(("aggregation", {"aggregation_method": "cbca", "cbca_distance": d, "cbca_intensity": i}))
    for th in (1.0, -1.0):
        tab.append(("validation", {"validation_method": "cross_checking_accurate", "cross_checking_threshold": th}))
    for m in ("ambiguity", "risk", "std_intensity", "interval_bounds"):
        tab.append(("cost_volume_confidence", {"confidence_method": m}))
    return tab


def probe(kind, cfg):
    from pandora import aggregation, cost_volume_confidence, filter as flt, matching_cost, refinement, validation

    cfg = copy.deepcopy(cfg)
    try:
        if kind == "matching_cost":
            obj = matching_cost.AbstractMatchingCost(**cfg)
        elif kind == "filter":
            obj = flt.AbstractFilter(cfg=cfg, image_shape=(10, 12), step=1)
        elif kind == "refinement":
            obj = refinement.AbstractRefinement(**cfg)
        elif kind == "aggregation":
            obj = aggregation.AbstractAggregation(**cfg)
        elif kind == "validation":
            obj = validation.AbstractValidation(**cfg)
        else:
            obj = cost_volume_confidence.AbstractCostVolumeConfidence(**cfg)
        return ["ok", json.dumps(obj.cfg, sort_keys=True, default=str)]
    except Exception as exc:  # pylint: disable=broad-except
        return ["rejected", type(exc).__name__]


def history_mode(job):
    """instantiate the step classes over the probe table in the order given; one record per probe"""
    tab = config_table()
    order = list(range(len(tab)))
    random.Random(job["seed"] * 31 + job["order_seed"]).shuffle(order)
    out = {}
    for idx in order:
        kind, cfg = tab[idx]
        out[idx] = probe(kind, cfg)
    print(json.dumps({"history": [out[i] for i in range(len(tab))]}), flush=True)


def shared_objects_mode(job):
    """what a pipeline returns depends on the values of its inputs and on its configuration only - not on which dataset
    OBJECTS were seen before in the process: (a) two pipelines that differ by the band they match on share one multiband
    pair, on different machines, alternately; (b) the caller overwrites the samples of the right image in place between
    two runs. Every result is compared with the same pipeline on equal-valued deep copies."""
    from harness.impl import pipelines as pl

    for i in range(job["n_cases"]):
        rng = random.Random(job["seed"] * 104729 + i)
        rows, cols = rng.choice([(10, 14), (12, 16), (9, 13)])
        lo = rng.choice([-3, -2, -1])
        hi = lo + rng.choice([2, 3])
        subpix = rng.choice([2, 4, 2, 1])
        meth = rng.choice(["sad", "ssd", "zncc", "census"])
        mc = {"matching_cost_method": meth, "window_size": 3, "subpix": subpix}
        tail = {"disparity": {"disparity_method": "wta", "invalid_disparity": -9999}}
        if rng.random() < 0.5:
            tail["refinement"] = {"refinement_method": "vfit"}
        if rng.random() < 0.4:
            tail["validation"] = {"validation_method": "cross_checking_accurate"}
        rec = {"case": i, "mode": "shared_objects", "matching_cost": mc, "tail": list(tail)}
        try:
            # (a) band switch on one multiband pair
            left, right = pl.make_pair(rng, rows, cols, lo, hi, bands=["r", "g"])
            # the bands must really differ (make_pair derives them from one image): scramble the second one
            nprng = np.random.default_rng(rng.randrange(1 << 30))
            for ds in (left, right):
                ds["im"].data[1] = nprng.integers(0, 40, size=ds["im"].data[1].shape).astype(np.float32)
            pg = {"matching_cost": dict(mc, band="g"), **tail}
            pr = {"matching_cost": dict(mc, band="r"), **tail}

            def fresh(pipe, l, r):
                a, b, _ = pl.run_pipeline(l.copy(deep=True), r.copy(deep=True), pipe)
                return products_hash(a, b)

            ref_g, ref_r = fresh(pg, left, right), fresh(pr, left, right)
            seq = []
            for pipe, ref in ((pg, ref_g), (pr, ref_r), (pg, ref_g), (pr, ref_r)):
                a, b, _ = pl.run_pipeline(left, right, pipe)
                seq.append(products_hash(a, b) == ref)
            rec["band_switch_same_objects"] = all(seq)
            # (b) samples overwritten in place between two runs
            left1, right1 = pl.make_pair(rng, rows, cols, lo, hi, masks=rng.random() < 0.3)
            p1 = {"matching_cost": dict(mc), **tail}
            a, b, m = pl.run_pipeline(left1, right1, p1)
            first = products_hash(a, b) == fresh(p1, left1, right1)
            right1["im"].data[:] = np.roll(right1["im"].data, 1, axis=1) + nprng.integers(0, 3, size=right1["im"].data.shape).astype(np.float32)
            left1["im"].data[:] = left1["im"].data[::-1].copy()
            a, b, _ = pl.run_pipeline(left1, right1, p1)
            rec["inplace_update_seen"] = first and products_hash(a, b) == fresh(p1, left1, right1)
        except ZeroDivisionError:
            rec["skipped"] = "ZeroDivisionError"
        print(json.dumps(rec), flush=True)


def main():
    job = json.loads(sys.stdin.readline())
    if job.get("mode") == "history":
        history_mode(job)
        return
    if job.get("mode") == "shared_objects":
        shared_objects_mode(job)
        return
    from harness.impl import pipelines as pl
    import pandora
    from pandora.check_configuration import update_conf

    for i in range(job["n_cases"]):
        left, right, pipe, other = gen_case(job["seed"], i)
        rec = {"case": i, "pipeline": pipe}
        try:
            fp_l, fp_r = ds_fingerprint(left), ds_fingerprint(right)
            if job.get("sibling_first"):
                # in this process every pipeline is preceded by its sibling on another machine object (deep copies of the pair)
                try:
                    pl.run_pipeline(left.copy(deep=True), right.copy(deep=True), sibling(pipe))
                    rec["sibling_ran"] = True
                except Exception as exc:  # pylint: disable=broad-except
                    rec["sibling_ran"] = f"{type(exc).__name__}: {str(exc)[:120]}"
            out_l, out_r, m = pl.run_pipeline(left, right, pipe)
            h1 = products_hash(out_l, out_r)
            rec["hash_all"] = h1
            rec["hash_disp_flags"] = products_hash(out_l, out_r, only_disp_flags=True)
            rec["inputs_untouched"] = (ds_fingerprint(left), ds_fingerprint(right)) == (fp_l, fp_r)
            # the same machine runs again (no new check)
            cfg = update_conf({"pipeline": {}}, {"pipeline": copy.deepcopy(m.pipeline_cfg["pipeline"])})
            l2, r2 = pandora.run(m, left, right, copy.deepcopy(cfg))
            rec["rerun_identical"] = products_hash(l2, r2) == h1
            # another machine checks and runs another pipeline in between, then the first machine runs again
            try:
                pl.run_pipeline(left, right, other)
            except ZeroDivisionError:
                pass
            l3, r3 = pandora.run(m, left, right, copy.deepcopy(cfg))
            rec["other_machines_no_effect"] = products_hash(l3, r3) == h1
            # a fresh machine
            l4, r4, _ = pl.run_pipeline(left, right, pipe)
            rec["fresh_vs_used_machine"] = products_hash(l4, r4) == h1
            rec["inputs_untouched"] = rec["inputs_untouched"] and (ds_fingerprint(left), ds_fingerprint(right)) == (fp_l, fp_r)
        except ZeroDivisionError:
            rec["skipped"] = "ZeroDivisionError (C06 finding: quadratic refinement on a flat cost curve)"
        except Exception as exc:  # pylint: disable=broad-except
            # the first run completed (hash_all is there) and a repetition on the same inputs raised: the repetition is
            # not identical; every clause not yet established counts as failed, and the inputs are fingerprinted again
            if "hash_all" not in rec:
                raise
            rec["raised_on_repetition"] = f"{type(exc).__name__}: {str(exc)[:200]}"
            for clause in ("rerun_identical", "other_machines_no_effect", "fresh_vs_used_machine"):
                rec.setdefault(clause, False)
            rec["inputs_untouched"] = rec.get("inputs_untouched", True) and (ds_fingerprint(left), ds_fingerprint(right)) == (fp_l, fp_r)
        print(json.dumps(rec), flush=True)


if __name__ == "__main__":
    main()
