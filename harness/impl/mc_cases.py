"""Shared by C02 and C09: case generators for the matching-cost step, conversion of a case to the payload of
the Lean driver (`C02.judge` / `C02.volumes`), and canonicalisation of an observed cost volume."""
from __future__ import annotations

import copy

from .. import core

MEASURES = ["sad", "ssd", "census", "zncc"]


# ------------------------------------------------------------------------------------------------
# case -> driver payload
# ------------------------------------------------------------------------------------------------
def expand_disp(disp, rows, cols):
    if disp["kind"] == "scalar":
        return [[disp["min"]] * cols for _ in range(rows)], [[disp["max"]] * cols for _ in range(rows)]
    return disp["min"], disp["max"]


def right_disp_of(case):
    """what run_prepare derives when the right dataset carries no disparity: [-max, -min] of the left one"""
    rd = case.get("right_disp")
    if rd is not None:
        return rd
    d = case["disp"]
    if d["kind"] == "scalar":
        return {"kind": "scalar", "min": -d["max"], "max": -d["min"]}
    return {
        "kind": "grid",
        "min": [[-v for v in row] for row in d["max"]],
        "max": [[-v for v in row] for row in d["min"]],
    }


def payload(case, side="left"):
    rows, cols = case["rows"], case["cols"]
    bands = case.get("bands")

    def as_bands(im):
        return im if bands else [im]

    if side == "left":
        L, R, mL, mR = case["left_im"], case["right_im"], case.get("left_msk"), case.get("right_msk")
        disp = case["disp"]
    else:
        L, R, mL, mR = case["right_im"], case["left_im"], case.get("right_msk"), case.get("left_msk")
        disp = right_disp_of(case)
    dmin, dmax = expand_disp(disp, rows, cols)
    return {
        "meas": case["method"],
        "w": case["window"],
        "sp": case["subpix"],
        "rows": rows,
        "cols": cols,
        "L": core.enc(as_bands(L)),
        "R": core.enc(as_bands(R)),
        "band_index": bands.index(case["band"]) if bands else 0,
        "mL": mL,
        "mR": mR,
        "valid": 0,
        "nodata": 1,
        # each image carries its own mask convention (attrs valid_pixels / no_data_mask of ITS dataset)
        "validL": conv_of(case, side)[0],
        "nodataL": conv_of(case, side)[1],
        "validR": conv_of(case, "right" if side == "left" else "left")[0],
        "nodataR": conv_of(case, "right" if side == "left" else "left")[1],
        "dmin": dmin,
        "dmax": dmax,
    }


MASK_CODES = [0, 1, 2, 5, 7, 255]


def conv_of(case, side):
    """(valid_pixels, no_data_mask) of the dataset of that side; (0, 1) when the case does not say"""
    c = case.get(f"{side}_conv")
    return (int(c[0]), int(c[1])) if c else (0, 1)


def recode_masks(rng, case):
    """give each image its OWN mask convention, drawn independently (valid / no_data codes from MASK_CODES, distinct within
    an image; every other value is invalid) and rewrite the masks — generated as 0 valid / 1 nodata / other invalid — in
    that convention.  Datasets built through the API may well disagree on the convention; the code must read the
    attributes of the image the mask belongs to."""
    for side in ("left", "right"):
        v, n = rng.sample(MASK_CODES, 2)
        case[f"{side}_conv"] = [v, n]
        m = case.get(f"{side}_msk")
        if m is not None:
            others = [c for c in MASK_CODES + [3, -1] if c not in (v, n)]

            def recode(c, v=v, n=n, others=others):
                if c == 0:
                    return v
                if c == 1:
                    return n
                return c if c not in (v, n) else others[abs(c) % len(others)]

            case[f"{side}_msk"] = [[recode(c) for c in row] for row in m]
    return case


def enc_volume(cv):
    """numpy (rows, cols, nd) float array -> nested lists of exact cells"""
    return [[[core.enc(float(v)) for v in cell] for cell in row] for row in cv]


# ------------------------------------------------------------------------------------------------
# generators
# ------------------------------------------------------------------------------------------------
def gen_image(rng, rows, cols, maxv, quarter=False):
    """integer radiometry with planted uniform patches (ties, zero variance) and a ramp region"""
    style = rng.random()
    if style < 0.15:
        base = rng.randint(0, maxv)
        im = [[base] * cols for _ in range(rows)]  # fully uniform: zero variance everywhere
    elif style < 0.3:
        a = rng.randint(0, 3)
        im = [[min(maxv, a * c + r) for c in range(cols)] for r in range(rows)]  # ramp
    else:
        im = [[rng.randint(0, maxv) for _ in range(cols)] for _ in range(rows)]
    for _ in range(rng.randint(0, 2)):  # uniform patch
        r0, c0 = rng.randrange(rows), rng.randrange(cols)
        h, w = rng.randint(1, rows), rng.randint(1, cols)
        v = rng.randint(0, maxv)
        for r in range(r0, min(rows, r0 + h)):
            for c in range(c0, min(cols, c0 + w)):
                im[r][c] = v
    if quarter:
        im = [[v + rng.choice([0, 0.25, 0.5, 0.75]) for v in row] for row in im]
    return im


def gen_mask(rng, rows, cols):
    """0 valid, 1 nodata, other codes invalid; blobs that touch borders and each other"""
    m = [[0] * cols for _ in range(rows)]
    for _ in range(rng.randint(1, 4)):
        code = rng.choice([1, 1, 2, 3, 7, -1])
        r0, c0 = rng.choice([0, rows - 1, rng.randrange(rows)]), rng.choice([0, cols - 1, rng.randrange(cols)])
        h, w = rng.randint(1, 2), rng.randint(1, 3)
        for r in range(max(0, r0), min(rows, r0 + h)):
            for c in range(max(0, c0), min(cols, c0 + w)):
                m[r][c] = code
    return m


def gen_interval(rng, cols, width_max=8, beyond=False):
    """[dmin, dmax] of width 0..width_max: negative / positive / straddling 0, possibly reaching past the image"""
    width = rng.choice([0, 0, 1, 1, 2, 3, 4, rng.randint(0, width_max)])
    lim = cols + 3 if beyond else max(1, cols - 5)
    kind = rng.random()
    if kind < 0.3:
        a = -rng.randint(0, width)  # straddles 0
    elif kind < 0.6:
        a = rng.randint(0, lim)
    else:
        a = -rng.randint(0, lim) - width
    return a, a + width


def gen_grid(rng, rows, cols, a, b):
    style = rng.random()
    if style < 0.2:  # constant grid (must equal the scalar interval)
        mn = [[a] * cols for _ in range(rows)]
        mx = [[b] * cols for _ in range(rows)]
    else:
        mn = [[rng.randint(a, b) for _ in range(cols)] for _ in range(rows)]
        mx = [[rng.randint(mn[r][c], b) for c in range(cols)] for r in range(rows)]
        # make sure the global extremes are reached somewhere (so that the range is [a, b]) most of the time
        if rng.random() < 0.8:
            mn[rng.randrange(rows)][rng.randrange(cols)] = a
            r, c = rng.randrange(rows), rng.randrange(cols)
            mx[r][c] = b
            mn[r][c] = min(mn[r][c], b)
    return {"kind": "grid", "min": mn, "max": mx}


def gen_case(rng, method=None, small=False, beyond=False, allow_bands=True, quarter_ok=True, force_bands=False):
    method = method or rng.choice(MEASURES)
    window = rng.choice([3, 5]) if method == "census" else rng.choice([1, 3, 3, 5])
    subpix = rng.choice([1, 1, 2, 4])
    lo_r = max(window, 3)
    lo_c = max(window, 4)
    if small or method == "zncc":
        rows, cols = rng.randint(lo_r, max(lo_r, 7)), rng.randint(lo_c, max(lo_c, 9))
    else:
        rows, cols = rng.randint(lo_r, 10), rng.randint(lo_c, 13)
    bands = None
    band = None
    if force_bands:
        bands = rng.choice([["r", "g"], ["b", "g", "r"], ["r", "g", "b", "nir"]])
        band = rng.choice(bands)
    elif allow_bands and rng.random() < 0.3:
        bands = rng.choice([["r"], ["r", "g"], ["b", "g", "r"]])
        band = rng.choice(bands)
    maxv = rng.choice([1, 3, 12, 40])
    quarter = quarter_ok and rng.random() < 0.1

    def image():
        if bands:
            return [gen_image(rng, rows, cols, maxv, quarter) for _ in bands]
        return gen_image(rng, rows, cols, maxv, quarter)

    a, b = gen_interval(rng, cols, beyond=beyond)
    if rng.random() < 0.25:
        disp = gen_grid(rng, rows, cols, a, b)
    else:
        disp = {"kind": "scalar", "min": a, "max": b}
    # a right dataset carrying its own, constant, interval next to a per-pixel left grid (the two cost volumes are
    # allocated by the same matching-cost object before either is computed)
    right_disp = None
    force_right = False
    if disp["kind"] == "grid" and rng.random() < 0.5:
        lo_r = -max(max(r) for r in disp["max"])
        hi_r = -min(min(r) for r in disp["min"])
        right_disp = {"kind": "scalar", "min": lo_r, "max": max(hi_r, lo_r)}
        force_right = True
    return {
        "rows": rows,
        "cols": cols,
        "bands": bands,
        "band": band,
        "right_band_perm": (rng.sample(range(len(bands)), len(bands)) if bands and len(bands) > 1 and (force_bands or rng.random() < 0.6) else None),
        "left_band_perm": (rng.sample(range(len(bands)), len(bands)) if bands and len(bands) > 1 and rng.random() < 0.2 else None),
        "left_im": image(),
        "right_im": image(),
        "left_msk": gen_mask(rng, rows, cols) if rng.random() < 0.45 else None,
        "right_msk": gen_mask(rng, rows, cols) if rng.random() < 0.45 else None,
        "disp": disp,
        "right_disp": right_disp,
        "method": method,
        "window": window,
        "subpix": subpix,
        "row0": rng.choice([0, 0, 0, 3, 17]),
        "col0": rng.choice([0, 0, 0, 5, 11]),
        "right": force_right or rng.random() < 0.35,
    }


def correlated_pair(rng, case):
    """make the right image a shifted copy of the left one plus a little noise (so that costs have structure)"""
    c2 = copy.deepcopy(case)
    sh = rng.randint(-2, 2)

    def shift(im):
        cols = len(im[0])
        return [[row[min(cols - 1, max(0, c + sh))] + (1 if rng.random() < 0.1 else 0) for c in range(cols)] for row in im]

    if case.get("bands"):
        c2["right_im"] = [shift(b) for b in case["left_im"]]
    else:
        c2["right_im"] = shift(case["left_im"])
    return c2


# ------------------------------------------------------------------------------------------------
# situations with a known outcome
# ------------------------------------------------------------------------------------------------
def sampled_extremes(case, side="left"):
    rows, cols = case["rows"], case["cols"]
    disp = case["disp"] if side == "left" else right_disp_of(case)
    dmin, dmax = expand_disp(disp, rows, cols)
    return min(min(r) for r in dmin), max(max(r) for r in dmax)


def domain_width(case):
    return case["cols"] if case["method"] in ("sad", "ssd") else case["cols"] - (case["window"] - 1)


def beyond_image(case, side="left"):
    """some sampled disparity reaches past the overlap the code can slice (model domain, finding C02-F1)"""
    gmin, gmax = sampled_extremes(case, side)
    w = domain_width(case)
    return gmin < -w or gmax > w


def multiband_subpix_sadssd(case):
    """finding C02-F2"""
    return bool(case.get("bands")) and case["subpix"] > 1 and case["method"] in ("sad", "ssd")


def fractional_radiometry(case):
    """finding C02-F3: some pixel of the images is not an integer"""
    def flat(x):
        if isinstance(x, list):
            for v in x:
                yield from flat(v)
        else:
            yield x

    return any(v != int(v) for im in (case["left_im"], case["right_im"]) for v in flat(im))
