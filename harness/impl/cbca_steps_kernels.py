"""Translator cross-check of the four integral-image kernels of cbca (T14, array-state kernels: translator/pyscan.py,
Generated/KernelsCbcaSteps.lean), run by harness/props/C11.py on every run.

The REAL compiled `cbca_step_1 … 4` on a few hundred small inputs each, against the translator's two exact readings of the
source it translated: `pyscan.interpret` (the whole function run imperatively on the AST, mutable arrays) and
`pyscan.evaluate` (the tree the Lean text is printed from, functional arrays).  Each kernel is fed INDEPENDENT random inputs
(not the output of the previous kernel), so that the reading of one kernel is not masked by another: `step1` / `step3` arrays
with arbitrary cells (the sentinel column / row is NOT zero here), `range_col` any increasing / repeated / shuffled in-range
index arrays, arms anywhere inside the image (so indices -1, -2 … wrap around), NaN costs.  All cells are small dyadic
numbers: float32 arithmetic is exact.  A third reading, Lean's, is checked at build time by the generated `example`s.
"""
from __future__ import annotations

import math
import random
from fractions import Fraction

import numpy as np

KERNELS = {"cbcaStep1": "cbca_step_1", "cbcaStep2": "cbca_step_2", "cbcaStep3": "cbca_step_3", "cbcaStep4": "cbca_step_4"}


def _cell(rng, p_nan=0.0):
    if rng.random() < p_nan:
        return "nan"
    return Fraction(rng.randrange(-6, 30), rng.choice([1, 1, 1, 2, 4]))


def _varr(rng, h, w, p_nan=0.0):
    return [[_cell(rng, p_nan) for _ in range(w)] for _ in range(h)]


def _arms(rng, h, w, style):
    """(h, w, 4) arms inside the image (left <= x, x + right < w, top <= y, y + bot < h); `style` bounds them"""
    out = []
    for y in range(h):
        row = []
        for x in range(w):
            lim = {"zero": 0, "small": 1, "any": 99}[style]
            row.append([rng.randint(0, min(lim, x)), rng.randint(0, min(lim, w - 1 - x)),
                        rng.randint(0, min(lim, y)), rng.randint(0, min(lim, h - 1 - y))])
        out.append(row)
    return out


def _range_cols(rng, w, wr):
    """(range_col, range_col_right): the wiring of cost_volume_aggregation (columns with a facing right column), or any
    sub-sequence / permutation of in-range columns, sometimes with a repeated column"""
    style = rng.choice(["wired", "wired", "wired", "subset", "shuffled", "repeat", "empty"])
    if style == "empty" or w == 0:
        return [], []
    if style == "wired":
        d = rng.randint(-w, w)
        cols = [x for x in range(w) if 0 <= x + d < wr]
        return cols, [x + d for x in cols]
    cols = [x for x in range(w) if rng.random() < 0.7]
    if style == "shuffled":
        rng.shuffle(cols)
    if style == "repeat" and cols:
        cols.append(rng.choice(cols))
    return cols, [rng.randrange(wr) for _ in cols]


def gen_inputs(rng, name):
    """one input of kernel `name`: list of (kind, nested lists) in parameter order; kind 'v' float, 'i' int"""
    h, w = rng.choice([1, 1, 2, 3, 4]), rng.choice([1, 2, 3, 4, 5, 6])
    if name == "cbcaStep1":
        if rng.random() < 0.05:
            h, w = rng.choice([(0, 3), (2, 0), (1, 1)])
        return [("v", _varr(rng, h, w, rng.choice([0, 0.15, 0.5])), (h, w))]
    if name == "cbcaStep3":
        if rng.random() < 0.04:
            w = 0
        return [("v", _varr(rng, h, w), (h, w))]
    wr = max(1, w + rng.choice([0, 0, -1, 1]))
    style = rng.choice(["zero", "small", "any", "any"])
    al, ar = _arms(rng, h, w, style), _arms(rng, h, wr, style)
    # the right arms may be longer than the left image allows: the kernel takes the minimum
    rc, rcr = _range_cols(rng, w, wr)
    tail = [("i", al, (h, w, 4)), ("i", ar, (h, wr, 4)), ("i", rc, (len(rc),)), ("i", rcr, (len(rcr),))]
    if name == "cbcaStep2":
        return [("v", _varr(rng, h, w + 1), (h, w + 1))] + tail
    return [("v", _varr(rng, h + 1, w), (h + 1, w)), ("v", _varr(rng, h, w), (h, w))] + tail


def to_numpy(cbca, inputs, arm_dtype):
    out = []
    for i, (kind, data, shape) in enumerate(inputs):
        if kind == "v":
            a = np.array([[math.nan if v == "nan" else float(v) for v in r] for r in data], dtype=np.float32).reshape(shape)
        elif len(shape) == 3:
            a = np.array(data, dtype=arm_dtype).reshape(shape)
        else:
            a = np.array(data, dtype=np.int64).reshape(shape)
        out.append(np.ascontiguousarray(a))
    return out


def to_exact(inputs):
    from translator import pyloops

    out = []
    for kind, data, shape in inputs:
        a = pyloops.Arr(data, shape)
        if kind == "i":
            a.integer = True
        out.append(a)
    return out


def canon(x):
    """numpy float array / exact nested lists -> nested lists of Fraction | "nan" """
    if isinstance(x, np.ndarray):
        return [[("nan" if math.isnan(v) else Fraction(float(v))) for v in r] for r in x.tolist()], tuple(x.shape)
    data, shape = x
    return [[("nan" if (v is None or v == "nan") else Fraction(v)) for v in r] for r in data], tuple(shape)


def cross_check(ctx, report, status, count):
    from translator import gen_kernels_cbca_steps, pyloops, pyscan
    from . import cbca_adapter as ad

    try:
        ks = gen_kernels_cbca_steps.kernels()
    except Exception:  # Unsupported: already reported by build_and_audit (translate())  # pylint: disable=broad-except
        return
    report.translator_checks += 1
    try:
        from translator import pyscan_selftest

        for what in pyscan_selftest.refused_problems():
            status.problem("translator", f"pyscan self-test: a construct outside the subset is not refused — {what}")
        for what in pyscan_selftest.python_problems():
            status.problem("translator", f"pyscan self-test: the readings differ from CPython — {what}")
    except Exception as exc:  # pylint: disable=broad-except
        status.problem("translator", f"pyscan self-test crashed: {type(exc).__name__}: {exc}")
    _, cbca = ad._mods()  # pylint: disable=protected-access
    arm_dtype = cbca.cross_support(np.zeros((1, 1), dtype=np.float32), np.int16(1), np.float32(1.0)).dtype
    rng = random.Random(ctx.seed * 104729 + 577)  # its own stream
    for name, py in KERNELS.items():
        k = ks[name]
        real_fn = getattr(cbca, py)
        problems = 0
        for _ in range(count):
            inputs = gen_inputs(rng, name)
            real = real_fn(*to_numpy(cbca, inputs, arm_dtype))
            real = [canon(r) for r in (real if isinstance(real, tuple) else (real,))]
            report.count(f"kernel_{py}_calls")
            exact = to_exact(inputs)
            try:
                whole = pyscan.interpret(k.fn, exact, k.numpy_names)
                whole = [canon((a.data, a.shape)) for a in (whole if isinstance(whole, tuple) else (whole,))]
            except Exception as exc:  # pylint: disable=broad-except
                whole = f"{type(exc).__name__}: {exc}"
            try:
                res, vals = pyscan.evaluate(k, exact)
                tree = [canon(v) for v in vals] if res == "ok" else res
            except Exception as exc:  # pylint: disable=broad-except
                tree = f"{type(exc).__name__}: {exc}"
            if whole != real or tree != real:
                problems += 1
                if problems <= 2:
                    shown = [d for _, d, _ in inputs]
                    status.problem("translator", f"translated {py} evaluates differently from the real function on {shown}",
                                   f"real={real} interpret={whole} tree={tree}")
