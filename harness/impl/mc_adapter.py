"""Adapter for C02 / C09: build small in-memory image datasets and observe the cost volume produced by the
*real* PandoraMachine `matching_cost` step (run_prepare -> trigger "matching_cost" -> run_exit), left and right.

A case is a JSON-serialisable dict:

    rows, cols            image size
    bands                 None (mono-band) or a list of band names
    band                  the band named in the matching-cost configuration (None for mono-band)
    left_im, right_im     2-D list of ints (mono) or 3-D list [band][row][col]
    left_msk, right_msk   None or 2-D list of ints (0 valid, 1 nodata, anything else invalid — or the codes of
                          left_conv / right_conv = [valid, no_data] when the case gives the image its own convention)
    disp                  {"kind": "scalar", "min": a, "max": b} | {"kind": "grid", "min": [[..]], "max": [[..]]}
                          (attached with the real img_tools.add_disparity: a [min, max] pair, or a 2-band grid file)
    right_disp            None (derived by the machine: [-max, -min]) or the same two forms
    method, window, subpix
    row0, col0            first row / column coordinate of the datasets (ROI-style offset)
    right                 True: also compute the right cost volume (validation configured)
"""
from __future__ import annotations

import copy
import logging

import numpy as np
import xarray as xr

VALID = 0
NODATA = 1


def make_dataset(case, side):
    rows, cols = case["rows"], case["cols"]
    im = np.array(case[f"{side}_im"], dtype=np.float32)
    row = np.arange(case.get("row0", 0), case.get("row0", 0) + rows)
    col = np.arange(case.get("col0", 0), case.get("col0", 0) + cols)
    bands = case.get("bands")
    if bands:
        names = list(bands)
        # the two images may store the same named bands in a different order: a band is selected by NAME
        perm = case.get(f"{side}_band_perm")
        if perm:
            im = im[list(perm)]
            names = [names[i] for i in perm]
        ds = xr.Dataset(
            {"im": (["band_im", "row", "col"], im)},
            coords={"band_im": names, "row": row, "col": col},
        )
    else:
        # a mono-band dataset of create_dataset_from_inputs carries no band_im coordinate
        ds = xr.Dataset({"im": (["row", "col"], im)}, coords={"row": row, "col": col})
    msk = case.get(f"{side}_msk")
    if msk is not None:
        ds["msk"] = xr.DataArray(np.array(msk, dtype=np.int16), dims=["row", "col"])
    disp = case["disp"] if side == "left" else case.get("right_disp")
    attrs = {
        "no_data_img": -9999,
        # each dataset carries its own mask convention (case["left_conv"] / case["right_conv"] = [valid, no_data])
        "valid_pixels": int((case.get(f"{side}_conv") or (VALID, NODATA))[0]),
        "no_data_mask": int((case.get(f"{side}_conv") or (VALID, NODATA))[1]),
        "crs": None,
        "transform": None,
        "disparity_source": None,
    }
    ds.attrs = attrs
    if disp is not None:
        ds = _add_disparity(ds, disp, rows, cols)
    return ds


_TMP = {}


def _add_disparity(ds, disp, rows, cols):
    """the real `pandora.img_tools.add_disparity`: a [min, max] pair, or a 2-band float32 grid file read by rasterio"""
    import os
    import tempfile
    import warnings

    from pandora.img_tools import add_disparity

    if disp["kind"] == "scalar":
        return add_disparity(ds, [disp["min"], disp["max"]], None)
    import rasterio

    if "dir" not in _TMP:
        _TMP["dir"] = tempfile.mkdtemp(prefix="verif_c09_")
        import atexit
        import shutil

        atexit.register(shutil.rmtree, _TMP["dir"], True)
    path = os.path.join(_TMP["dir"], "grid.tif")
    arr = np.array([disp["min"], disp["max"]], dtype=np.float32)
    with warnings.catch_warnings():
        warnings.simplefilter("ignore")
        with rasterio.open(path, "w", driver="GTiff", height=rows, width=cols, count=2, dtype="float32") as dst:
            dst.write(arr)
        out = add_disparity(ds, path, None)
    return out


def mc_cfg(case):
    cfg = {"matching_cost_method": case["method"], "window_size": case["window"], "subpix": case["subpix"]}
    if case.get("band") is not None:
        cfg["band"] = case["band"]
    return cfg


def cv_to_lists(cv):
    data = cv["cost_volume"].data
    return {
        "cv": np.asarray(data, dtype=np.float64),
        "disp": [float(d) for d in cv.coords["disp"].data],
        "type_measure": cv.attrs.get("type_measure"),
        "cmax": cv.attrs.get("cmax"),
        "dtype": str(data.dtype),
        "validity_mask": np.asarray(cv["validity_mask"].data) if "validity_mask" in cv else None,
    }


def run_matching_cost(case):
    """Returns {"left": {...}, "right": {...} | None} or {"error": "<ExceptionClass>", "message": ...}."""
    from pandora.state_machine import PandoraMachine

    logging.getLogger("transitions").setLevel(logging.ERROR)
    left = make_dataset(case, "left")
    right = make_dataset(case, "right")
    pipeline = {"matching_cost": mc_cfg(case)}
    if case.get("right"):
        pipeline["validation"] = {"validation_method": "cross_checking_accurate"}
    cfg = {"pipeline": pipeline}
    m = PandoraMachine()
    try:
        m.run_prepare(copy.deepcopy(cfg), left, right)
        try:
            m.run("matching_cost", cfg)
        finally:
            m.run_exit()
    except Exception as exc:  # pylint: disable=broad-except
        return {"error": type(exc).__name__, "message": str(exc)[:300]}
    out = {"left": cv_to_lists(m.left_cv), "right": None}
    if case.get("right"):
        out["right"] = cv_to_lists(m.right_cv)
    # the same allocated grid handed to compute_cost_volume again (what a caller looping over several right images
    # does): the volume and the grid's attributes must come out the same
    if case.get("again"):
        try:
            attrs0 = {k: (np.array(v).tolist() if isinstance(v, np.ndarray) else v) for k, v in m.left_cv.attrs.items()}
            m2 = PandoraMachine()
            m2.run_prepare(copy.deepcopy(cfg), left, right)
            m2.matching_cost_prepare(cfg, "matching_cost")
            grid = m2.left_cv
            mc = m2.matching_cost_
            for _ in range(2):
                cv = mc.compute_cost_volume(m2.left_img, m2.right_img, grid)
            mc.cv_masked(m2.left_img, m2.right_img, cv, m2.disp_min, m2.disp_max)
            out["left_again"] = np.asarray(cv["cost_volume"].data, dtype=np.float64)
            attrs1 = {k: (np.array(v).tolist() if isinstance(v, np.ndarray) else v) for k, v in cv.attrs.items()}
            out["attrs_changed"] = sorted(k for k in attrs0 if str(attrs0[k]) != str(attrs1.get(k)))
        except Exception as exc:  # pylint: disable=broad-except
            out["again_error"] = f"{type(exc).__name__}: {str(exc)[:200]}"
    return out


def run_pipeline(case, pipeline):
    """Full `pandora.run` on the case's datasets with the given pipeline dict (C09, second half).
    Returns (left_dataset, right_dataset) or {"error": ...}."""
    import pandora
    from pandora.state_machine import PandoraMachine

    logging.getLogger("transitions").setLevel(logging.ERROR)
    left = make_dataset(case, "left")
    right = make_dataset(case, "right")
    m = PandoraMachine()
    cfg = {"pipeline": copy.deepcopy(pipeline)}
    try:
        l, r = pandora.run(m, left, right, cfg)
    except Exception as exc:  # pylint: disable=broad-except
        try:
            m.run_exit()
        except Exception:  # pylint: disable=broad-except
            pass
        return {"error": type(exc).__name__, "message": str(exc)[:300]}
    return l, r, m


def run_and_observe(case, pipeline):
    """Run the real machine step by step (`run_prepare`, then `machine.run(step, cfg)` for every step of the
    ordered dict `pipeline`, `run_exit`) and snapshot what each step leaves behind:
      state cost_volume -> {"cv": array, "disp": coords}            (left; "cv_right" when validation is configured)
      state disp_map    -> {"map": disparity_map, "mask": validity_mask, "interval": disparity_interval}
    Returns {"steps": [(name, snapshot), ...]} or {"error": ..., "at": step, "steps": [...]}."""
    from pandora.state_machine import PandoraMachine

    logging.getLogger("transitions").setLevel(logging.ERROR)
    left = make_dataset(case, "left")
    right = make_dataset(case, "right")
    cfg = {"pipeline": copy.deepcopy(pipeline)}
    m = PandoraMachine()
    out = []
    at = "run_prepare"
    try:
        m.run_prepare(copy.deepcopy(cfg), left, right)
        try:
            for name in pipeline:
                at = name
                m.run(name, cfg)
                snap = {"state": m.state}
                if m.state == "cost_volume":
                    snap["cv"] = np.array(m.left_cv["cost_volume"].data, dtype=np.float64)
                    snap["disp"] = [float(d) for d in m.left_cv.coords["disp"].data]
                    snap["type_measure"] = m.left_cv.attrs.get("type_measure")
                    if m.right_disp_map == "cross_checking_accurate":
                        snap["cv_right"] = np.array(m.right_cv["cost_volume"].data, dtype=np.float64)
                elif m.state == "disp_map":
                    d = m.left_disparity
                    snap["map"] = np.array(d["disparity_map"].data, dtype=np.float64)
                    snap["mask"] = np.array(d["validity_mask"].data).astype(np.int64)
                    if "disparity_interval" in d:
                        snap["interval"] = [float(v) for v in d["disparity_interval"].data]
                    snap["cv"] = np.array(m.left_cv["cost_volume"].data, dtype=np.float64)
                    if m.right_disp_map == "cross_checking_accurate" and "disparity_map" in m.right_disparity:
                        r = m.right_disparity
                        snap["map_right"] = np.array(r["disparity_map"].data, dtype=np.float64)
                        snap["mask_right"] = np.array(r["validity_mask"].data).astype(np.int64)
                        if "disparity_interval" in r:
                            snap["interval_right"] = [float(v) for v in r["disparity_interval"].data]
                out.append((name, snap))
        finally:
            m.run_exit()
    except Exception as exc:  # pylint: disable=broad-except
        return {"error": type(exc).__name__, "message": str(exc)[:300], "at": at, "steps": out}
    return {"steps": out}
