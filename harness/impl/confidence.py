"""Adapter for C12: calls the real Pandora confidence code in-process.

Everything here goes through public entry points:
  * `AbstractCostVolumeConfidence(**cfg).confidence_prediction(disp, img_left, img_right, cv)` on hand-built
    cost-volume datasets (kernel level, any cost volume: NaN holes, ties, min and max measures);
  * `AbstractCostVolumeConfidence.allocate_confidence_map`;
  * `pandora.interval_tools.interval_regularization`;
  * `pandora.run` on a real `PandoraMachine` (subclassed only to snapshot the datasets after each
    cost_volume_confidence step) for the pipeline level.
"""
from __future__ import annotations

import copy
import os
import warnings
from ast import literal_eval
from fractions import Fraction

import numpy as np
import xarray as xr
from numba import njit

import pandora
from pandora import cost_volume_confidence as cvc
from pandora import disparity as pdisp
from pandora import interval_tools
from pandora.state_machine import PandoraMachine

from .. import core


# The eta grid exactly as the njit kernels build it: f4 arguments and the same `parallel` flag (with parallel=True numba
# rewrites np.arange into `ceil((stop - start) / step)` evaluated in float32, e.g. 70 samples for 0.7 / 0.01; without it
# the division is done in float64 and yields 71).
@njit("f8[:](f4,f4,f4)", parallel=literal_eval(os.environ.get("PANDORA_NUMBA_PARALLEL", "True")))
def _numba_arange(a, b, c):
    return np.arange(a, b, c) * 1.0


def numba_etas(eta_max: float, eta_step: float):
    return [Fraction(float(x)) for x in _numba_arange(np.float32(0.0), np.float32(eta_max), np.float32(eta_step))]


def f32(x) -> Fraction:
    return Fraction(float(np.float32(x)))


def enc_grid(a):
    """numpy array (any rank) -> nested lists of exact wire values"""
    a = np.asarray(a)
    if a.ndim == 0:
        return core.enc(a[()])
    return [enc_grid(x) for x in a]


def make_cv(cost, disp, type_measure="min", window=1, band=None, bands=None):
    """a cost-volume dataset as the matching cost step leaves it (the variables the later steps read)"""
    cost = np.asarray(cost, dtype=np.float32)
    nrow, ncol, _ = cost.shape
    ds = xr.Dataset(
        {"cost_volume": (["row", "col", "disp"], cost.copy())},
        coords={"row": np.arange(nrow), "col": np.arange(ncol), "disp": np.asarray(disp, dtype=np.float64)},
    )
    ds["validity_mask"] = xr.DataArray(np.zeros((nrow, ncol), dtype=np.uint16), dims=["row", "col"])
    ds.attrs = {
        "measure": "sad",
        "subpixel": 1,
        "offset_row_col": int((window - 1) / 2),
        "window_size": window,
        "type_measure": type_measure,
        "cmax": 1000.0,
        "band_correl": band,
        "crs": None,
        "transform": None,
        "disparity_source": [float(disp[0]), float(disp[-1])],
    }
    if bands:
        names = [b[0] for b in bands]
        data = np.stack([np.asarray(b[1], dtype=np.float32) for b in bands], axis=-1)
        ds["confidence_measure"] = xr.DataArray(
            data, coords=[ds.coords["row"], ds.coords["col"], names], dims=["row", "col", "indicator"]
        )
    return ds


def make_disp(nrow, ncol, bands=None):
    ds = xr.Dataset(coords={"row": np.arange(nrow), "col": np.arange(ncol)})
    if bands is not None:
        names = [b[0] for b in bands]
        data = np.stack([np.asarray(b[1], dtype=np.float32) for b in bands], axis=-1)
        ds["confidence_measure"] = xr.DataArray(
            data, coords=[ds.coords["row"], ds.coords["col"], names], dims=["row", "col", "indicator"]
        )
    return ds


def bands_of(ds):
    """[(name, 2-D float array)] of a dataset's confidence_measure, [] if absent, None if ds is None"""
    if ds is None:
        return None
    if "confidence_measure" not in ds.data_vars:
        return []
    names = [str(x) for x in ds.coords["indicator"].data]
    data = ds["confidence_measure"].data
    return [(n, np.array(data[:, :, i], dtype=np.float64)) for i, n in enumerate(names)]


class ImplRaised(Exception):
    """the real Pandora code raised on an input of the property's domain"""

    def __init__(self, where, exc):
        super().__init__(f"{where}: {type(exc).__name__}: {exc}")
        self.where = where
        self.kind = type(exc).__name__


def guarded(where):
    def deco(fn):
        def wrapper(*a, **k):
            try:
                return fn(*a, **k)
            except ImplRaised:
                raise
            except Exception as exc:  # pylint: disable=broad-except
                raise ImplRaised(where, exc) from exc

        wrapper.__name__ = fn.__name__
        return wrapper

    return deco


@guarded("confidence_prediction")
def predict(cfg, cv, disp=None, img_left=None, img_right=None):
    with warnings.catch_warnings():
        warnings.simplefilter("ignore")
        obj = cvc.AbstractCostVolumeConfidence(**dict(cfg))
        return obj.confidence_prediction(disp, img_left, img_right, cv)


def last_bands(cv, n):
    bs = bands_of(cv)
    return bs[-n:]


def run_ambiguity(cost, disp, type_measure, eta_max, eta_step, normalization):
    cv = make_cv(cost, disp, type_measure)
    _, cv = predict(
        {"confidence_method": "ambiguity", "eta_max": float(eta_max), "eta_step": float(eta_step),
         "normalization": bool(normalization)}, cv)
    return last_bands(cv, 1)[0][1], cv


def run_risk(cost, disp, type_measure, eta_max, eta_step):
    cv = make_cv(cost, disp, type_measure)
    _, cv = predict({"confidence_method": "risk", "eta_max": float(eta_max), "eta_step": float(eta_step)}, cv)
    (_, rmax), (_, rmin) = last_bands(cv, 2)
    return rmax, rmin, cv


def run_bounds(cost, disp, type_measure, threshold):
    cv = make_cv(cost, disp, type_measure)
    _, cv = predict({"confidence_method": "interval_bounds", "possibility_threshold": float(threshold)}, cv)
    (_, inf), (_, sup) = last_bands(cv, 2)
    return inf, sup, cv


@guarded("to_disp")
def run_wta(cv, invalid=np.nan):
    """the later disparity step on a cost-volume dataset: disparity map (NaN where invalid) and the dataset"""
    with warnings.catch_warnings():
        warnings.simplefilter("ignore")
        d = pdisp.AbstractDisparity(**{"disparity_method": "wta", "invalid_disparity": "NaN"})
        out = d.to_disp(cv)
    return np.array(out["disparity_map"].data, dtype=np.float64), out


@guarded("interval_regularization")
def run_regularization(inf, sup, amb, threshold, kernel, depth, quantile):
    with warnings.catch_warnings():
        warnings.simplefilter("ignore")
        a, b, m = interval_tools.interval_regularization(
            np.array(inf, dtype=np.float32), np.array(sup, dtype=np.float32), np.array(amb, dtype=np.float32),
            float(threshold), int(kernel), int(depth), float(quantile))
    return np.array(a, dtype=np.float64), np.array(b, dtype=np.float64), np.array(m)


def make_left_image(data, bands=None):
    data = np.asarray(data, dtype=np.float32)
    if bands:
        ds = xr.Dataset({"im": (["band_im", "row", "col"], data)},
                        coords={"band_im": list(bands), "row": np.arange(data.shape[1]), "col": np.arange(data.shape[2])})
    else:
        ds = xr.Dataset({"im": (["row", "col"], data)},
                        coords={"row": np.arange(data.shape[0]), "col": np.arange(data.shape[1])})
    ds.attrs = {"no_data_img": -9999, "valid_pixels": 0, "no_data_mask": 1, "crs": None, "transform": None}
    return ds


def run_std(img_data, window, bands=None, band=None):
    img = make_left_image(img_data, bands)
    # a different right image, as in the pipeline (the band must not depend on it)
    other = make_left_image(np.asarray(img_data)[..., ::-1, ::-1] * 2 + 1, bands)
    nrow, ncol = (img_data.shape[-2], img_data.shape[-1])
    cv = make_cv(np.zeros((nrow, ncol, 2), dtype=np.float32), [0, 1], "min", window=window, band=band)
    _, cv = predict({"confidence_method": "std_intensity"}, cv, None, img, other)
    return last_bands(cv, 1)[0][1], cv


@guarded("allocate_confidence_map")
def allocate(name, cmap, disp, cv):
    return cvc.AbstractCostVolumeConfidence.allocate_confidence_map(name, np.asarray(cmap, dtype=np.float32), disp, cv)


# ------------------------------------------------------------------------------------------------
# pipeline level
# ------------------------------------------------------------------------------------------------
class SnapMachine(PandoraMachine):
    """the real machine; after each cost_volume_confidence step the band lists of the four datasets are copied"""

    def __init__(self):
        super().__init__()
        self.snaps = []

    def cost_volume_confidence_run(self, cfg, input_step):
        before = {
            "left_cv": bands_of(self.left_cv), "right_cv": bands_of(self.right_cv) if self.right_cv is not None else None,
            "left_cost": np.array(self.left_cv["cost_volume"].data, copy=True),
        }
        super().cost_volume_confidence_run(cfg, input_step)
        self.snaps.append({
            "step": input_step,
            "before": before,
            "left_cv": bands_of(self.left_cv),
            "left_disp": bands_of(self.left_disparity),
            "right_cv": bands_of(self.right_cv) if self.right_disp_map == "cross_checking_accurate" else None,
            "right_disp": bands_of(self.right_disparity) if self.right_disp_map == "cross_checking_accurate" else None,
            "left_cost": np.array(self.left_cv["cost_volume"].data, copy=True),
        })


def make_pair(left, right, dmin, dmax, mask_left=None, mask_right=None):
    def one(data, msk):
        data = np.asarray(data, dtype=np.float32)
        ds = xr.Dataset({"im": (["row", "col"], data)},
                        coords={"row": np.arange(data.shape[0]), "col": np.arange(data.shape[1])})
        if msk is not None:
            ds["msk"] = xr.DataArray(np.asarray(msk, dtype=np.int16), dims=["row", "col"])
        d = np.stack([np.full(data.shape, dmin, dtype=np.float32), np.full(data.shape, dmax, dtype=np.float32)])
        ds["disparity"] = xr.DataArray(d, dims=["band_disp", "row", "col"], coords={"band_disp": ["min", "max"]})
        ds.attrs = {"no_data_img": -9999, "valid_pixels": 0, "no_data_mask": 1, "crs": None, "transform": None,
                    "disparity_source": [dmin, dmax]}
        return ds

    return one(left, mask_left), one(right, mask_right)


@guarded("pandora.run")
def run_pipeline(left, right, dmin, dmax, pipeline, mask_left=None, mask_right=None):
    """pandora.run on a fresh machine; returns (left dataset, right dataset, machine)"""
    img_l, img_r = make_pair(left, right, dmin, dmax, mask_left, mask_right)
    cfg = {"pipeline": copy.deepcopy(pipeline)}
    m = SnapMachine()
    with warnings.catch_warnings():
        warnings.simplefilter("ignore")
        left_ds, right_ds = pandora.run(m, img_l, img_r, cfg)
    return left_ds, right_ds, m
