"""Exact wire encoding of float arrays (shared by the per-pixel kernel properties)."""
from __future__ import annotations

from fractions import Fraction

import numpy as np


def enc_f(x):
    x = float(x)
    if x != x:
        return "nan"
    if x in (float("inf"), float("-inf")):
        return "inf" if x > 0 else "-inf"
    if x == int(x) and abs(x) < 2**62:
        return int(x)
    f = Fraction(x)
    return f"{f.numerator}/{f.denominator}"


def enc_arr(a):
    a = np.asarray(a)
    if a.ndim == 0:
        return enc_f(a)
    if a.ndim == 1:
        return [enc_f(v) for v in a.tolist()]
    return [enc_arr(s) for s in a]


def dec_f(j):
    if j == "nan":
        return float("nan")
    if isinstance(j, str):
        return float(Fraction(j))
    return float(j)


def dec_frac(j):
    """exact value of a wire cell (None for NaN)"""
    if j == "nan":
        return None
    return Fraction(j)


def dec_nested(j):
    if isinstance(j, list):
        return [dec_nested(v) for v in j]
    return dec_f(j)


def dec_arr(j, dtype=np.float64):
    return np.array(dec_nested(j), dtype=dtype)
