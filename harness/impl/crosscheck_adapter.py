"""Adapters calling the real Pandora cross-checking code in-process (C07).

* `run_check(case)`      : one call of `CrossCheckingAccurate.disparity_checking(A, B)` (the public entry of the
  step) on datasets built like the disparity step builds them (float32 disparity map, uint16 validity mask,
  `disparity_interval`, `offset_row_col`, optionally already existing confidence bands).
* `run_validation(case)` : the real `PandoraMachine.validation_run` callback on a machine holding a left and a
  right disparity dataset (left against right, then right against the checked left).

A *check case* is a JSON-able dict with exact numbers:
  {"threshold": "n/d" | int, "threshold_is_int": bool, "dmin": int, "dmax": int, "offset": int,
   "interval_dtype": "int" | "float", "bands_a": int,
   "disp_a": [row][col], "mask_a": [row][col], "disp_b": [row][col], "mask_b": [row][col]}
A *run case* is {"threshold", "threshold_is_int", "offset", "left": {"dmin","dmax","disp","mask"}, "right": {...}}.
"""
from __future__ import annotations

import warnings
from fractions import Fraction

import numpy as np
import xarray as xr

from .. import core
from .refine_adapter import arr, canon_exception


def threshold_value(case):
    t = Fraction(case["threshold"]) if isinstance(case["threshold"], str) else Fraction(case["threshold"])
    if case.get("threshold_is_int") and t.denominator == 1:
        return int(t)
    return float(t)


def build_dataset(disp, mask, dmin, dmax, offset, bands=0, interval_dtype="float"):
    d = arr(disp, np.float32)
    rows, cols = d.shape
    dtype = np.int64 if interval_dtype == "int" else np.float64
    variables = {
        "disparity_map": (["row", "col"], d),
        "validity_mask": (["row", "col"], np.array(mask, dtype=np.uint16)),
        "disparity_interval": xr.DataArray(np.array([dmin, dmax], dtype=dtype), coords=[("disparity", ["min", "max"])]),
    }
    coords = {"row": np.arange(rows), "col": np.arange(cols)}
    if bands:
        variables["confidence_measure"] = (
            ["row", "col", "indicator"],
            np.arange(rows * cols * bands, dtype=np.float32).reshape(rows, cols, bands),
        )
        coords["indicator"] = [f"confidence_from_test_{i}" for i in range(bands)]
    ds = xr.Dataset(variables, coords=coords)
    ds.attrs["offset_row_col"] = int(offset)
    return ds


def conf_enc(a):
    return core.enc(np.asarray(a, dtype=np.float64))


def snapshot(ds):
    return {
        "disp": core.enc(np.asarray(ds["disparity_map"].data, dtype=np.float64)),
        "mask": [[int(v) for v in row] for row in ds["validity_mask"].data],
    }


def out_of(ds, bands_before=None):
    bands = [str(b) for b in ds.coords["indicator"].data] if "confidence_measure" in ds else []
    out = snapshot(ds)
    out["bands"] = bands
    out["conf"] = conf_enc(ds["confidence_measure"].data[:, :, -1]) if bands else None
    if bands_before is not None and bands:
        n = len(bands_before["names"])
        out["old_bands_same"] = bool(
            bands[:n] == bands_before["names"]
            and np.array_equal(ds["confidence_measure"].data[:, :, :n], bands_before["data"], equal_nan=True)
        )
    out["validation_attr"] = ds.attrs.get("validation")
    return out


def run_check(case):
    from pandora import validation

    a = build_dataset(case["disp_a"], case["mask_a"], case["dmin"], case["dmax"], case["offset"],
                      bands=int(case.get("bands_a", 0)), interval_dtype=case.get("interval_dtype", "float"))
    b = build_dataset(case["disp_b"], case["mask_b"], -int(case["dmax"]), -int(case["dmin"]), case["offset"])
    b_before = snapshot(b)
    before = None
    if case.get("bands_a"):
        before = {"names": [str(x) for x in a.coords["indicator"].data], "data": a["confidence_measure"].data.copy()}
    val = validation.AbstractValidation(
        **{"validation_method": "cross_checking_accurate", "cross_checking_threshold": threshold_value(case)}
    )
    try:
        with warnings.catch_warnings():
            warnings.simplefilter("ignore")
            out = val.disparity_checking(a, b)
    except Exception as exc:  # pylint: disable=broad-except
        return {"res": canon_exception(exc), "exception": f"{type(exc).__name__}: {str(exc)[:160]}"}
    res = out_of(out, before)
    res["res"] = "ok"
    res["other_unchanged"] = snapshot(b) == b_before
    return res


def run_validation(case):
    """the machine callback: `validation_run(cfg, "validation")` with `right_disp_map` set"""
    from pandora.state_machine import PandoraMachine

    lft, rgt = case["left"], case["right"]
    left = build_dataset(lft["disp"], lft["mask"], lft["dmin"], lft["dmax"], case["offset"])
    right = build_dataset(rgt["disp"], rgt["mask"], rgt["dmin"], rgt["dmax"], case["offset"])
    machine = PandoraMachine()
    machine.left_disparity = left
    machine.right_disparity = right
    machine.right_disp_map = "cross_checking_accurate"
    cfg = {"pipeline": {"validation": {"validation_method": "cross_checking_accurate",
                                       "cross_checking_threshold": threshold_value(case)}}}
    if case.get("interpolated_disparity"):
        cfg["pipeline"]["validation"]["interpolated_disparity"] = case["interpolated_disparity"]
    try:
        with warnings.catch_warnings():
            warnings.simplefilter("ignore")
            machine.validation_run(cfg, "validation")
    except Exception as exc:  # pylint: disable=broad-except
        return {"res": canon_exception(exc), "exception": f"{type(exc).__name__}: {str(exc)[:160]}"}
    return {"res": "ok", "left": out_of(machine.left_disparity), "right": out_of(machine.right_disparity)}
