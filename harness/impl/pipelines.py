"""Generators of small image pairs and legal pipelines over the real step classes, and helpers to run them
through the real `pandora.run` (used by C08, C09, C13, C15, C18)."""
from __future__ import annotations

import copy

import numpy as np
import xarray as xr


def make_pair(rng, rows, cols, dmin, dmax, bands=None, masks=False, smooth=True, vmax=40, grids=None):
    """left/right datasets as create_dataset_from_inputs builds them; integer radiometry.
    The right image is the left one shifted by a disparity inside [dmin, dmax] plus noise, so that matching
    is meaningful; `masks` adds mask variables with nodata (1) / invalid (2) blobs."""
    nprng = np.random.default_rng(rng.randrange(1 << 30))
    shape = (rows, cols) if not bands else (len(bands), rows, cols)
    pad = max(8, abs(dmin) + 1, abs(dmax) + 1)
    base = nprng.integers(0, vmax, size=(rows, cols + 2 * pad)).astype(np.float32)
    if smooth:
        # planted uniform regions (ties, zero variance)
        r0, c0 = nprng.integers(0, rows), nprng.integers(0, cols)
        base[r0:r0 + 3, c0:c0 + 6] = float(nprng.integers(0, vmax))
    shift = int(nprng.integers(dmin, dmax + 1)) if dmin <= dmax else 0
    left2d = base[:, pad:pad + cols]
    right2d = base[:, pad + shift:pad + shift + cols].copy()
    noise = nprng.random(size=right2d.shape) < 0.15
    right2d[noise] = nprng.integers(0, vmax, size=int(noise.sum())).astype(np.float32)

    def build(img2d, side, with_disp, lo, hi):
        if bands:
            # bands that are not affine copies of one another (a cost computed on the wrong band must differ by more
            # than a constant): band i = (2i+1) * image + 7i modulo the radiometric range
            data = np.stack([np.mod(img2d * (2 * i + 1) + 7 * i, vmax) for i in range(len(bands))]).astype(np.float32)
            ds = xr.Dataset({"im": (["band_im", "row", "col"], data)},
                            coords={"band_im": list(bands), "row": np.arange(rows), "col": np.arange(cols)})
        else:
            # like create_dataset_from_inputs: a monoband dataset has no band_im coordinate
            ds = xr.Dataset({"im": (["row", "col"], img2d.astype(np.float32))},
                            coords={"row": np.arange(rows), "col": np.arange(cols)})
        if with_disp:
            d = np.stack([np.full((rows, cols), lo, dtype=np.float32), np.full((rows, cols), hi, dtype=np.float32)])
            ds["disparity"] = xr.DataArray(d, dims=["band_disp", "row", "col"], coords={"band_disp": ["min", "max"]})
        if masks:
            m = np.zeros((rows, cols), dtype=np.int16)
            for _ in range(int(nprng.integers(0, 3))):
                r, c = int(nprng.integers(0, rows)), int(nprng.integers(0, cols))
                m[r:r + int(nprng.integers(1, 3)), c:c + int(nprng.integers(1, 4))] = int(nprng.choice([1, 2]))
            ds["msk"] = xr.DataArray(m, dims=["row", "col"])
        ds.attrs = {"no_data_img": -9999, "valid_pixels": 0, "no_data_mask": 1, "crs": None, "transform": None,
                    "disparity_source": [int(lo), int(hi)] if with_disp else None, "side": side}
        return ds

    left = build(left2d, "L", True, dmin, dmax)
    right = build(right2d, "R", False, 0, 0)
    return left, right


def exchanged(left, right, dmin, dmax):
    """the mirrored problem: images (and masks) exchanged, interval negated and swapped"""
    rows, cols = left.sizes["row"], left.sizes["col"]
    new_left = right.copy(deep=True)
    new_right = left.copy(deep=True)
    if "disparity" in new_right:
        new_right = new_right.drop_vars("disparity")
    d = np.stack([np.full((rows, cols), -dmax, dtype=np.float32), np.full((rows, cols), -dmin, dtype=np.float32)])
    new_left["disparity"] = xr.DataArray(d, dims=["band_disp", "row", "col"], coords={"band_disp": ["min", "max"]})
    new_left.attrs = dict(new_left.attrs, disparity_source=[int(-dmax), int(-dmin)], side="L")
    new_right.attrs = dict(new_right.attrs, disparity_source=None, side="R")
    return new_left, new_right


def gen_pipeline(rng, validation=None, allow_refinement=True, allow_agg=True, allow_conf=True, census_ok=True):
    """a legal single-scale pipeline over the built-in classes; returns an ordered dict"""
    meths = ["sad", "ssd", "zncc"] + (["census"] if census_ok else [])
    meth = rng.choice(meths)
    mc = {"matching_cost_method": meth, "window_size": rng.choice([3, 5]) if meth == "census" else rng.choice([1, 3, 5]),
          "subpix": rng.choice([1, 1, 2, 4])}
    pipe = {"matching_cost": mc}
    if allow_agg and rng.random() < 0.25:
        pipe["aggregation"] = {"aggregation_method": "cbca", "cbca_intensity": rng.choice([5.0, 10.0, 30.0]),
                               "cbca_distance": rng.choice([2, 3, 5])}
    if allow_conf and rng.random() < 0.4:
        cm = rng.choice(["ambiguity", "std_intensity", "risk", "interval_bounds"])
        pipe["cost_volume_confidence"] = {"confidence_method": cm}
        if rng.random() < 0.3:
            pipe["cost_volume_confidence.2"] = {"confidence_method": rng.choice(["ambiguity", "std_intensity"])}
    pipe["disparity"] = {"disparity_method": "wta", "invalid_disparity": rng.choice([-9999, "NaN", -9999])}
    if allow_refinement and rng.random() < 0.4:
        pipe["refinement"] = {"refinement_method": "vfit"}
    if rng.random() < 0.5:
        pipe["filter"] = rng.choice([{"filter_method": "median", "filter_size": 3},
                                     {"filter_method": "bilateral", "sigma_color": 2.0, "sigma_space": 1.0}])
    use_val = validation if validation is not None else rng.random() < 0.7
    if use_val:
        v = {"validation_method": "cross_checking_accurate", "cross_checking_threshold": rng.choice([1.0, 0.0, 2.0])}
        if rng.random() < 0.35:
            v["interpolated_disparity"] = rng.choice(["mc-cnn", "sgm"])
        pipe["validation"] = v
        if rng.random() < 0.3:
            pipe["filter.after"] = {"filter_method": "median", "filter_size": 3}
    return pipe


def run_pipeline(left, right, pipe):
    """check + run on a fresh machine; returns (left_ds, right_ds) or raises"""
    import pandora
    from pandora.check_configuration import update_conf
    from pandora.state_machine import PandoraMachine

    from . import machine_stubs as ms

    cfg = {"pipeline": copy.deepcopy(pipe)}
    cfg = update_conf({"pipeline": {}}, cfg)  # turns "NaN" strings into floats as check_conf does
    m = ms.LoggedMachine()
    # check_conf works on the metadata datasets of get_metadata, which always carry a band_im coordinate
    meta = lambda ds: ds if "band_im" in ds.coords else ds.assign_coords(band_im=[None])
    m.check_conf(copy.deepcopy(cfg), meta(left), meta(right))
    cfg["pipeline"] = copy.deepcopy(m.pipeline_cfg["pipeline"])
    out_l, out_r = pandora.run(m, left, right, cfg)
    return out_l, out_r, m


def products(ds):
    """canonical products of a result dataset: name -> numpy array (None when absent)"""
    out = {}
    for var in ("disparity_map", "validity_mask"):
        out[var] = np.array(ds[var].data) if var in ds else None
    if "confidence_measure" in ds:
        names = [str(x) for x in ds["confidence_measure"].coords["indicator"].data]
        out["confidence_names"] = names
        out["confidence_measure"] = np.array(ds["confidence_measure"].data)
    else:
        out["confidence_names"] = []
        out["confidence_measure"] = None
    return out


def same_array(a, b):
    if a is None or b is None:
        return a is None and b is None
    if a.shape != b.shape:
        return False
    return bool(np.array_equal(a, b, equal_nan=True)) if a.dtype.kind == "f" or b.dtype.kind == "f" else bool(np.array_equal(a, b))


def first_diff(a, b):
    if a is None or b is None or a.shape != b.shape:
        return None
    neq = ~((a == b) | (np.isnan(a.astype(float)) & np.isnan(b.astype(float))))
    idx = np.argwhere(neq)
    if len(idx) == 0:
        return None
    i = tuple(int(x) for x in idx[0])
    return {"index": i, "a": float(a[i]), "b": float(b[i]), "count": int(neq.sum())}


# --------------------------------------------------------------------------------------------
# the public path with every intermediate product captured (C13: composed model run vs pandora.run)
# --------------------------------------------------------------------------------------------
def run_pipeline_traced(left, right, pipe):
    """`check_conf` + `pandora.run` (the public path) on a `PandoraMachine` whose `run(step, cfg)` — the method
    `pandora.run` calls for every step — snapshots what the step leaves behind:
      state cost_volume -> left/right cost volume (float64 copy), the `validity_mask` of the volume, `disp` coords
      state disp_map    -> left/right disparity map and validity mask
    Returns {"steps": [(name, snapshot)], "left": ds, "right": ds} or {"steps": [...], "error": type name, "at": step}."""
    import logging

    import pandora
    from pandora.check_configuration import update_conf
    from pandora.state_machine import PandoraMachine

    logging.getLogger("transitions").setLevel(logging.ERROR)
    steps = []
    at = ["check_conf"]

    class Traced(PandoraMachine):
        def run(self, input_step, cfg):  # pylint: disable=arguments-differ
            at[0] = input_step
            super().run(input_step, cfg)
            snap = {"state": self.state}
            two = self.right_disp_map == "cross_checking_accurate"
            if input_step == "matching_cost":
                # what this scale works on: the images of the pyramid level and the per-pixel interval grids
                snap["images"] = {sd: {"im": np.array(ds["im"].data, dtype=np.float64),
                                       "msk": np.array(ds["msk"].data).astype(np.int64) if "msk" in ds else None}
                                  for sd, ds in (("left", self.left_img), ("right", self.right_img))}
                snap["grids"] = (np.array(self.disp_min, dtype=np.float64), np.array(self.disp_max, dtype=np.float64))
            if self.state == "cost_volume":
                for side, cv in (("left", self.left_cv), ("right", self.right_cv if two else None)):
                    if cv is None:
                        continue
                    conf = {}
                    if "confidence_measure" in cv:
                        for k, nm in enumerate(cv["confidence_measure"].coords["indicator"].data):
                            conf[str(nm)] = np.array(cv["confidence_measure"].data[:, :, k], dtype=np.float64)
                    snap.setdefault("conf", {})[side] = conf
                    snap[side] = {"cv": np.array(cv["cost_volume"].data, dtype=np.float64),
                                  "mask": np.array(cv["validity_mask"].data).astype(np.int64) if "validity_mask" in cv else None,
                                  "disp": [float(d) for d in cv.coords["disp"].data]}
            elif self.state == "disp_map":
                for side, d in (("left", self.left_disparity), ("right", self.right_disparity if two else None)):
                    if d is None or "disparity_map" not in d:
                        continue
                    snap[side] = {"map": np.array(d["disparity_map"].data, dtype=np.float64),
                                  "mask": np.array(d["validity_mask"].data).astype(np.int64)}
            steps.append((input_step, snap))

    cfg = {"pipeline": copy.deepcopy(pipe)}
    cfg = update_conf({"pipeline": {}}, cfg)
    m = Traced()
    meta = lambda ds: ds if "band_im" in ds.coords else ds.assign_coords(band_im=[None])
    try:
        m.check_conf(copy.deepcopy(cfg), meta(left), meta(right))
        cfg["pipeline"] = copy.deepcopy(m.pipeline_cfg["pipeline"])
        at[0] = "run_prepare"
        out_l, out_r = pandora.run(m, left, right, cfg)
    except Exception as exc:  # pylint: disable=broad-except
        try:
            m.run_exit()
        except Exception:  # pylint: disable=broad-except
            pass
        return {"steps": steps, "error": type(exc).__name__, "message": str(exc)[:200], "at": at[0]}
    return {"steps": steps, "left": out_l, "right": out_r, "cfg": cfg}
