"""C19 — saved products equal the computed ones and the saved configuration replays.

Chain: pandora/common.py + pandora/__init__.py(main) + output_tree_design.py  ==translator T10 + correspondence==
Model/Save.lean  ==theorems (Properties/C19.lean)==>  spec.

Each case is a scenario run through the real `pandora.main` in a temporary directory: the datasets handed to
`save_results` are captured, every output file is read back with rasterio and compared (a) with the files the Lean
model of `save_results` (interpreting the table the translator read in the source) produces for those datasets and
(b) against the Lean specification; `cfg/config.json` is loaded, compared with the model of what `main` saves, and
fed back to `pandora.main`: acceptance and raster equality of the second run are checked.
"""
from __future__ import annotations

import copy
import json
import math

from .. import core
from ..impl import main_io as io

PROP = "C19"

CLAUSE_ID = {"files_present": "left_files"}


def translate():
    from translator import registry

    out = registry.generate("SaveTable")
    out.update(registry.generate("Transitions"))  # Properties/C19 imports C01's theorems
    # Audit/C19 also audits the compositions with C05 / C17 (Properties/C19C05) and C20 (Properties/C19C20), whose
    # theorems are stated about the schemas and the margin formulas of the source
    out.update(registry.generate("Schemas"))
    out.update(registry.generate("Margins"))
    return out


def source_facts():
    from translator import gen_save

    try:
        return gen_save.extract()
    except Exception:  # reported by build_and_audit
        return None


DOC_TABLE = [
    {"side": "left", "var": "disparityMap", "file": "left_disparity.tif", "dtype": "float32", "bandNames": False,
     "guardedByVar": False, "guardedByRight": False, "geoSide": "left"},
    {"side": "left", "var": "confidenceMeasure", "file": "left_confidence_measure.tif", "dtype": "float32", "bandNames": True,
     "guardedByVar": True, "guardedByRight": False, "geoSide": "left"},
    {"side": "left", "var": "validityMask", "file": "left_validity_mask.tif", "dtype": "uint16", "bandNames": False,
     "guardedByVar": False, "guardedByRight": False, "geoSide": "left"},
    {"side": "right", "var": "disparityMap", "file": "right_disparity.tif", "dtype": "float32", "bandNames": False,
     "guardedByVar": False, "guardedByRight": True, "geoSide": "right"},
    {"side": "right", "var": "confidenceMeasure", "file": "right_confidence_measure.tif", "dtype": "float32", "bandNames": True,
     "guardedByVar": True, "guardedByRight": True, "geoSide": "right"},
    {"side": "right", "var": "validityMask", "file": "right_validity_mask.tif", "dtype": "uint16", "bandNames": False,
     "guardedByVar": False, "guardedByRight": True, "geoSide": "right"},
]
DOC_OTD = [["left_disparity.tif", "."], ["right_disparity.tif", "."], ["left_confidence_measure.tif", "."],
           ["right_confidence_measure.tif", "."], ["left_validity_mask.tif", "."], ["right_validity_mask.tif", "."],
           ["config.json", "./cfg"], ["command_line.txt", "./cfg"]]
DOC_MAIN = {"writesRightDisp": True, "addsMargins": True, "runWritesIndicator": True}


def translator_cross_check(report, status, facts):
    """the output tree read in the source text equals the live OTD dict"""
    if facts is None:
        return
    from pandora.output_tree_design import OTD

    report.translator_checks += 1
    if [[k, v] for k, v in OTD.items()] != facts["otd"]:
        status.problem("translator", "OTD read in the source differs from the live pandora.output_tree_design.OTD")


# ------------------------------------------------------------------------------------------------
# generators
# ------------------------------------------------------------------------------------------------
def gen_scenario(rng, force=None):
    rows = rng.randrange(8, 13)
    cols = rng.randrange(10, 15)
    base = [[rng.randrange(0, 31) for _ in range(cols + 4)] for _ in range(rows)]
    shift = rng.choice([0, 1, 2])
    left = [row[2:2 + cols] for row in base]
    right = [[min(40, max(0, row[2 + shift + c] + (rng.randrange(-1, 2) if rng.random() < 0.15 else 0))) for c in range(cols)] for row in base]
    if rng.random() < 0.3:  # a uniform region (ties, zero variance)
        r0, c0 = rng.randrange(0, rows - 3), rng.randrange(0, cols - 4)
        for r in range(r0, r0 + 3):
            for c in range(c0, c0 + 4):
                left[r][c] = 7
                right[r][c] = 7
    validation = rng.random() < 0.5 if force is None else force.get("validation", False)
    kind = (rng.choice(["ints", "ints", "grids"]) if force is None else force.get("disp", "ints"))
    if kind == "ints":
        a = rng.choice([-3, -2, -1, 0])
        disp = {"kind": "ints", "value": [a, a + rng.choice([1, 2, 3, 4])]}
    else:
        dmin = [[rng.randrange(-3, 1) for _ in range(cols)] for _ in range(rows)]
        dmax = [[dmin[r][c] + rng.randrange(1, 4) for c in range(cols)] for r in range(rows)]
        disp = {"kind": "grids", "left": [dmin, dmax], "right": None}
        if validation or rng.random() < 0.4:
            disp["right"] = [[[-v for v in row] for row in dmax], [[-v for v in row] for row in dmin]]
    pipeline = {}
    method = rng.choice(["sad", "ssd", "census", "zncc"])
    pipeline["matching_cost"] = {"matching_cost_method": method, "window_size": rng.choice([3, 5]), "subpix": rng.choice([1, 1, 2])}
    conf = rng.choice(["none", "std", "amb", "both", "both"]) if force is None else force.get("conf", "none")
    if conf == "std":
        pipeline["cost_volume_confidence"] = {"confidence_method": "std_intensity"}
    elif conf == "amb":
        pipeline["cost_volume_confidence"] = {"confidence_method": "ambiguity", "eta_max": 0.5, "eta_step": 0.25}
    elif conf == "both":
        pipeline["cost_volume_confidence.std"] = {"confidence_method": "std_intensity"}
        pipeline["cost_volume_confidence.amb"] = {"confidence_method": "ambiguity", "eta_max": 0.5, "eta_step": 0.25}
    pipeline["disparity"] = {"disparity_method": "wta", "invalid_disparity": rng.choice(["NaN", "NaN", -9999, -15])}
    if rng.random() < 0.4:
        pipeline["filter"] = {"filter_method": "median", "filter_size": 3}
    if rng.random() < 0.4:
        pipeline["refinement"] = {"refinement_method": "vfit"}
    if validation:
        pipeline["validation"] = {"validation_method": "cross_checking_accurate"}
        if rng.random() < 0.3:
            pipeline["filter.after"] = {"filter_method": "median", "filter_size": 3}
    mask_left = None
    if rng.random() < 0.3:
        mask_left = [[(1 if rng.random() < 0.08 else 0) for _ in range(cols)] for _ in range(rows)]
    georef = rng.choice([None, "same", "different"]) if force is None else force.get("georef")
    return {
        "rows": rows, "cols": cols, "left": left, "right": right, "georef": georef,
        "nodata_left": rng.choice([None, "NaN", -9999, 7]), "nodata_right": rng.choice([None, None, "NaN"]),
        "mask_left": mask_left, "disp": disp, "pipeline": pipeline,
    }


def has_validation(sc):
    return any(k.split(".")[0] == "validation" for k in sc["pipeline"])


# ------------------------------------------------------------------------------------------------
# helpers
# ------------------------------------------------------------------------------------------------
def side_json(d):
    return {"img": d.get("img"), "nodata": d.get("nodata"), "mask": d.get("mask"), "classif": d.get("classif"),
            "segm": d.get("segm"), "disp": d.get("disp")}


def same_json(a, b):
    """deep equality of jsonable() values (NaN is the string "nan" there)"""
    return json.dumps(a, sort_keys=True) == json.dumps(b, sort_keys=True)


def contains(big, small, path=""):
    """every key/value of `small` appears identically in `big` (dicts recursively); returns the first offending path"""
    if isinstance(small, dict):
        if not isinstance(big, dict):
            return path or "/"
        for k, v in small.items():
            if k not in big:
                return f"{path}/{k}"
            bad = contains(big[k], v, f"{path}/{k}")
            if bad:
                return bad
        return None
    return None if same_json(big, small) else (path or "/")


def files_diff(a, b):
    na, nb = [f["name"] for f in a], [f["name"] for f in b]
    if na != nb:
        return f"file sets differ: {na} vs {nb}"
    for fa, fb in zip(a, b):
        for k in ("dir", "dtype", "rows", "cols", "geo"):
            if fa[k] != fb[k]:
                return f"{fa['name']}: {k} {fa[k]!r} vs {fb[k]!r}"
        if [x["name"] for x in fa["bands"]] != [x["name"] for x in fb["bands"]]:
            return f"{fa['name']}: band names {[x['name'] for x in fa['bands']]} vs {[x['name'] for x in fb['bands']]}"
        for i, (x, y) in enumerate(zip(fa["bands"], fb["bands"])):
            if x["px"] != y["px"]:
                return f"{fa['name']}: band {i + 1} values differ"
    return None


def fail(report, clause, trigger, case, impl=None, detail=""):
    seen = report.__dict__.setdefault("_c19_seen", {})
    n = seen.get((clause, trigger), 0)
    seen[(clause, trigger)] = n + 1
    if n < 3:
        report.fail(clause, trigger, case, impl, detail)
    else:
        report.count(f"more_failures:{clause}:{trigger}")


def brief(res):
    """what goes into a replay file as the implementation's output (rasters summarised)"""
    if res is None:
        return None
    out = {"error": res.get("error"), "others": res.get("others"), "saved_input": (res.get("saved") or {}).get("input"),
           "files": [{k: (f[k] if k != "bands" else [b["name"] for b in f["bands"]]) for k in ("dir", "name", "dtype", "rows", "cols", "bands", "geo")}
                     for f in res.get("files", [])]}
    if res.get("refeed"):
        out["refeed_error"] = res["refeed"]["error"]
    return out


# ------------------------------------------------------------------------------------------------
# one scenario
# ------------------------------------------------------------------------------------------------
def check_scenario(ctx, report, sc, facts, label=""):
    table = facts["table"] if facts else DOC_TABLE
    otd = facts["otd"] if facts else DOC_OTD
    mainf = facts["main"] if facts else DOC_MAIN
    res = io.run_scenario(sc)
    key = json.dumps(sc, sort_keys=True)
    case = sc
    validation = has_validation(sc)
    report.case(key, True, sample={"rows": sc["rows"], "cols": sc["cols"], "pipeline": list(sc["pipeline"]), "disp": sc["disp"]["kind"],
                                   "files": [f["name"] for f in res.get("files", [])]})
    report.count("disp_" + sc["disp"]["kind"])
    report.count("validation_" + str(validation))
    if res["error"] is not None:
        # the configuration was accepted (check_conf returned) but the run or the saving raised
        if res["checked"] is not None:
            fail(report, "left_files", "main_raises_on_accepted_cfg", case, brief(res), res["error"])
        else:
            report.count("scenario_refused_by_check_conf")
            report.notes.append(f"scenario refused by check_conf ({res['error'][:120]})")
        return
    left, right, files = res["left"], res["right"], res["files"]
    # ---------------- correspondence: the model's files == the files on disk
    m = ctx.lean.call("C19.save", table=table, otd=otd, left=left, right=right)
    d = files_diff(sorted(m["files"], key=lambda f: f["name"]), files)
    if d:
        report.disagree("save_results:" + d, case, brief(res), [f["name"] for f in m["files"]])
    # ---------------- specification on the files read back
    sp = ctx.lean.call("C19.spec_save", left=left, right=right, files=files)
    seen = set()
    for clause, ok in sp:
        cid = CLAUSE_ID.get(clause, clause)
        if ok:
            report.hit(cid)
        elif cid not in seen:
            seen.add(cid)
            fail(report, cid, "files_vs_products", case, brief(res), f"Lean spec clause {clause} false on the output directory")
    # in-memory dtypes (so that "value for value" is an exact statement)
    for side in ("left", "right"):
        fx = res.get(f"{side}_facts") or {}
        if fx and (fx["disparity_dtype"] != "float32" or fx.get("conf_dtype", "float32") != "float32"):
            report.count(f"in_memory_{side}_not_float32")
    # right products iff validation (pipeline level)
    report.hit("right_files_iff_validation:" + ("with" if validation else "without"))
    if right["non_empty"] != validation:
        fail(report, "right_files_iff_validation", "right_dataset_vs_validation_step", case, brief(res),
             f"right dataset non-empty={right['non_empty']} but validation step present={validation}")
    # georeferencing of the *input*
    for f in files:
        side = f["name"].split("_")[0]
        if side in res["input_geo"] and f["geo"] != res["input_geo"][side]:
            fail(report, "georeferencing", "file_vs_input_image", case, brief(res), f"{f['name']}: {f['geo']} vs input {res['input_geo'][side]}")
    if sc.get("georef"):
        report.hit("georeferencing:georeferenced_input")
    if any(o not in ("cfg/config.json",) for o in res["others"]):
        report.count("unexpected_entries:" + ",".join(res["others"]))
    # ---------------- the saved configuration
    if res["saved"] is None:
        fail(report, "config_json_loadable", "json_load_fails", case, brief(res), str(res["saved_error"]))
        return
    report.hit("config_json_loadable")
    saved, checked = res["saved"], res["checked"]
    if not same_json(saved.get("margins"), res["margins"]):
        fail(report, "config_has_margins", "margins_differ", case, brief(res), f"saved {saved.get('margins')} vs machine {res['margins']}")
    else:
        report.hit("config_has_margins")
    # completed configuration recorded (modulo the right interval, judged by the refeed clauses)
    chk2 = copy.deepcopy(checked)
    sav2 = copy.deepcopy(saved)
    chk2["input"]["right"].pop("disp", None)
    # pandora.run writes the band-name suffix of each confidence step into its configuration ("indicator": "" or
    # ".<suffix of the step name>"): that value is judged against this rule, not against check_conf's placeholder
    for step in list(chk2["pipeline"]):
        if step.split(".")[0] == "cost_volume_confidence":
            expect = "" if len(step.split(".")) < 2 else "." + step.split(".")[1]
            got = (sav2.get("pipeline", {}).get(step) or {}).pop("indicator", "<absent>")
            chk2["pipeline"][step].pop("indicator", None)
            if got != expect:
                fail(report, "config_records_completed", "indicator_suffix", case, brief(res), f"{step}: indicator {got!r}, expected {expect!r}")
    bad = contains({"input": sav2.get("input"), "pipeline": sav2.get("pipeline")}, {"input": chk2["input"], "pipeline": chk2["pipeline"]})
    if bad:
        fail(report, "config_records_completed", "key_missing_or_changed", case, brief(res), f"saved configuration differs from check_conf's at {bad}")
    else:
        report.hit("config_records_completed")
    if list(saved.get("pipeline", {})) != list(checked["pipeline"]):
        fail(report, "config_records_completed", "pipeline_order", case, brief(res), "pipeline steps reordered in the saved file")
    # model of what main saves
    lside, rside = side_json(checked["input"]["left"]), side_json(checked["input"]["right"])
    mc = ctx.lean.call("C19.main_cfg", facts=mainf, left=lside, right=rside)
    if not same_json(mc["saved_left"], side_json(saved["input"]["left"])) or not same_json(mc["saved_right"], side_json(saved["input"]["right"])):
        report.disagree("main:saved_input", case, {"left": saved["input"]["left"], "right": saved["input"]["right"]},
                        {"left": mc["saved_left"], "right": mc["saved_right"]})
    if mc["has_margins"] != ("margins" in saved):
        report.disagree("main:margins_key", case, "margins" in saved, mc["has_margins"])
    # the dictionary model of `main` (Model/SaveConfig.lean; theorems in Properties/C19C05.lean, C19C20.lean): the whole
    # saved file = check_conf's result, `indicator` of the confidence steps as `run` writes it, margins of C20's model
    # of the check callbacks on the checked pipeline — compared exactly, key order included
    if res.get("checked_wire") is not None and res.get("saved_wire") is not None:
        ms = ctx.lean.call("C20.saved_config", facts=mainf, cfg=res["checked_wire"], rows=sc["rows"], cols=sc["cols"])
        report.count("saved_config_compared")
        if not ms["ok"] or ms["saved"] != res["saved_wire"]:
            report.disagree("main:saved_config", case, res["saved"], ms.get("saved"))
        # specification on the implementation's file: its margins are the expected margins of *its own* pipeline
        sp2 = ctx.lean.call("C20.saved_config", facts=mainf, cfg=res["saved_wire"], rows=sc["rows"], cols=sc["cols"])
        saved_margins = dict(res["saved_wire"]["o"]).get("margins") if isinstance(res["saved_wire"], dict) else None
        if sp2["expected_margins"] != saved_margins:
            fail(report, "config_has_margins", "margins_not_expected_of_saved_pipeline", case, brief(res),
                 f"saved margins {saved.get('margins')} are not the documented margins of the saved pipeline")
        else:
            report.hit("config_has_margins:expected_of_saved_pipeline")
    # ---------------- feeding the saved file back
    rf = res["refeed"]
    accepted = rf["error"] is None or rf["checked"] is not None
    if (mc["refeed"] != "refused") != accepted:
        report.disagree("refeed:acceptance", case, rf["error"], mc["refeed"])
    obs = "refused"
    if rf["checked"] is not None:
        obs = {"left": side_json(rf["checked"]["input"]["left"]), "right": side_json(rf["checked"]["input"]["right"])}
    sr = ctx.lean.call("C19.spec_refeed", left=lside, right=rside, obs=obs, has_margins="margins" in saved)
    written = isinstance(checked["input"]["left"]["disp"], list) and checked["input"]["right"]["disp"] is None \
        and isinstance(saved["input"]["right"].get("disp"), list)
    for clause, ok in sr:
        if ok:
            report.hit(clause)
            continue
        if clause == "config_refeed_accepted":
            trig = "integer_disparity_right_interval_written" if (written and "right" in (rf["error"] or "") and "disp" in (rf["error"] or "")) else "refused"
            fail(report, clause, trig, case, brief(res), f"second run: {rf['error']}")
        else:
            fail(report, clause, "second_run_inputs", case, brief(res), f"Lean spec clause {clause} false")
    if accepted and rf["error"] is not None:
        fail(report, "config_refeed_accepted", "second_run_raises", case, brief(res), rf["error"])
    if rf["error"] is None:
        d2 = files_diff(files, rf["files"])
        if d2:
            fail(report, "config_refeed_same_rasters", "rasters_differ", case, brief(res), d2)
        else:
            report.hit("config_refeed_same_rasters:rasters")


def check_input_case(ctx, report, user_input, sc):
    """correspondence of the model of check_input_section (what the saved file meets when it is fed back)"""
    impl = io.real_check_input(user_input, sc)
    model = ctx.lean.call("C19.check_input", left=user_input["left"], right=user_input["right"])
    report.case(("check_input", json.dumps(user_input, sort_keys=True)), True)
    if (impl[0] == "ok") != (model != "refused"):
        report.disagree("check_input_section:acceptance", user_input, impl, model)
    elif impl[0] == "ok":
        got = {"left": side_json(impl[1]["left"]), "right": side_json(impl[1]["right"])}
        if not same_json(got, model):
            report.disagree("check_input_section:completed", user_input, got, model)
    report.hit("check_input:" + ("accepted" if impl[0] == "ok" else "refused"))


def input_variants():
    L, R = "left.tif", "right.tif"
    out = []
    for ldisp in ([-2, 2], [0, 0], [3, 1], [5], [1, 2, 3], "disp_left.tif", None, "absent"):
        for rdisp in (None, "absent", [-2, 2], "disp_right.tif"):
            left = {"img": L}
            right = {"img": R}
            if ldisp != "absent":
                left["disp"] = ldisp
            if rdisp != "absent":
                right["disp"] = rdisp
            out.append({"left": left, "right": right})
    out.append({"left": {"img": L, "disp": [-1, 1], "nodata": "NaN", "mask": None}, "right": {"img": R, "nodata": 5, "segm": None}})
    out.append({"left": {"img": L, "disp": [-1, 1], "nodata": 2.5}, "right": {"img": R}})
    out.append({"left": {"img": L, "disp": [-1, 1], "mask": "mask_left.tif"}, "right": {"img": R, "disp": None, "classif": None}})
    out.append({"left": {"disp": [-1, 1]}, "right": {"img": R}})
    return out


FIXED = [  # one scenario per mechanism, always run
    {"validation": False, "disp": "ints", "conf": "both", "georef": None},
    {"validation": True, "disp": "ints", "conf": "std", "georef": "different"},
    {"validation": False, "disp": "grids", "conf": "amb", "georef": "same"},
    {"validation": True, "disp": "grids", "conf": "none", "georef": "different"},
]


def run(ctx, report, status):
    facts = source_facts()
    translator_cross_check(report, status, facts)
    report.rule = (
        "scenarios run through the real pandora.main in a temporary directory: 8-12 x 10-14 integer-radiometry pairs (shifted "
        "copy + noise, uniform patches), optional georeferencing (same / different transform left-right), nodata NaN/-9999/7, "
        "left mask, disparity integer pair or left(/right) grids, matching cost sad/ssd/census/zncc window 3/5 subpix 1/2, "
        "0-2 confidence steps (std_intensity, ambiguity, suffixed names), wta with invalid_disparity NaN/-9999/-15, optional "
        "median filter, vfit refinement, cross-checking validation; every scenario is run twice (user file, then the saved "
        "cfg/config.json); plus the input-section variants of check_input_section; distinct by full scenario"
    )
    for name, case in core.load_corpus(PROP):
        check_scenario(ctx, report, case, facts, "corpus:" + name)
    sc0 = None
    for f in FIXED:
        sc = gen_scenario(ctx.rng, force=f)
        sc0 = sc0 or sc
        check_scenario(ctx, report, sc, facts, "fixed")
    for _ in range(ctx.n(20, 400)):
        check_scenario(ctx, report, gen_scenario(ctx.rng), facts, "rnd")
    # the model of check_input_section
    grid = [[[-2] * sc0["cols"] for _ in range(sc0["rows"])], [[1] * sc0["cols"] for _ in range(sc0["rows"])]]
    base = dict(sc0, grid=grid, grid_right=[[[-1] * sc0["cols"] for _ in range(sc0["rows"])], [[2] * sc0["cols"] for _ in range(sc0["rows"])]],
                mask_left=[[0] * sc0["cols"] for _ in range(sc0["rows"])])
    for ui in input_variants():
        check_input_case(ctx, report, ui, base)


def search(ctx, report, status):
    """Directed search after a broken obligation: one scenario per mechanism (with/without validation, integer/grid
    disparities, 0/1/2 confidence steps), then random scenarios, with the specification as oracle."""
    facts = source_facts()
    sub = core.Report(PROP, ctx.tier, ctx.seed)
    known = core.load_known(PROP)
    rng = core.random.Random(ctx.seed + 4242)

    def fresh():
        for f in sub.failures:
            if not any(k.get("clause") == f["clause"] and k.get("trigger") == f["trigger"] for k in known):
                return f
        return None

    for f in FIXED + [{"validation": True, "disp": "ints", "conf": "both"}, {"validation": False, "disp": "ints", "conf": "none"}]:
        check_scenario(ctx, sub, gen_scenario(rng, force=f), facts, "search")
        if fresh():
            return fresh()
    for _ in range(12):
        check_scenario(ctx, sub, gen_scenario(rng), facts, "search")
        if fresh():
            return fresh()
    return None


def replay(ctx, report, path):
    with open(path, encoding="utf-8") as f:
        data = json.load(f)
    case = data["input"] if "input" in data and "pipeline" in data["input"] and "left" in data["input"] else data
    check_scenario(ctx, report, case, source_facts(), "replay")
    for fl in report.failures:
        print("spec failure:", fl["clause"], fl["trigger"], fl["detail"][:300])
    for d in report.disagreements:
        print("disagreement:", d["what"], json.dumps(d["impl"])[:400])
    print("replayed: failures=%d disagreements=%d" % (len(report.failures), len(report.disagreements)))
    # a replay file written by a run names the clause that failed: the verdict is about that clause (the same input
    # may also exhibit a known finding, which is printed above but is not what is being replayed)
    wanted = data.get("clause") if isinstance(data, dict) and "input" in data else None
    if wanted:
        return 1 if any(fl["clause"] == wanted for fl in report.failures) else 0
    return 1 if report.failures else 0
