"""C17 — malformed inputs are refused up front; well-formed inputs never are.

Streams (real Pandora code, Lean model, Lean specification):
  D  dataset pairs through `check_datasets`: well-formed bases (mono/multi-band, masks, classif, segm,
     disparities on one or both sides) x every single violation x random pairs of violations;
     real `xarray.Dataset`s are built, a descriptor (which variables, shapes, all-NaN?, band-name types,
     attributes, disparity bands, min > max somewhere) is read off them for the model;
  I  input sections through `check_input_section` on small raster files: documented forms x every single
     violation x random pairs;
  M  `pandora.main` with `pandora.run` replaced by a recorder: a refused configuration never reaches the
     run, an accepted one does.
"""
from __future__ import annotations

import copy
import json
import math
import os
import shutil
import tempfile

import numpy as np

from .. import core

PROP = "C17"


def fail(report, clause, trigger, case, impl=None, detail=""):
    """report.fail, keeping at most 3 instances of each (clause, trigger): the list of failures is bounded
    and the many repetitions of a known finding must not crowd out a new one"""
    seen = report.__dict__.setdefault("_fail_counts", {})
    n = seen.get((clause, trigger), 0)
    seen[(clause, trigger)] = n + 1
    if n < 3:
        report.fail(clause, trigger, case, impl, detail)
    else:
        report.count(f"repeated_failure:{clause}:{trigger}")
NAN = float("nan")
MANDATORY = ["no_data_img", "valid_pixels", "no_data_mask", "crs", "transform"]


def translate():
    from translator import registry

    return registry.generate("Schemas")


class Env:
    def __init__(self, ctx):
        from translator import t4_schemas

        from ..impl import config_impl as ci

        self.ci = ci
        self.ctx = ctx
        self.lean = ctx.lean
        try:
            self.data = t4_schemas.extract()
            self.degraded = False
        except Exception:  # pylint: disable=broad-except
            empty = {k: [] for k in ("baseLeft", "baseRight", "integerLeft", "integerRight", "gridNoneLeft", "gridNoneRight",
                                     "gridGridLeft", "gridGridRight", "defaults")}
            self.data = {"input": empty, "flags": {}}
            self.degraded = True
        self.tmp = tempfile.mkdtemp(prefix="verif-c17-")
        self.files = ci.FileSet(self.tmp)

    def close(self):
        shutil.rmtree(self.tmp, ignore_errors=True)


# --------------------------------------------------------------------------------------------
# D: datasets
# --------------------------------------------------------------------------------------------
def base_recipe(rng, left: bool):
    rows, cols = rng.choice([(4, 5), (3, 6), (5, 5)])
    bands = rng.choice([None, None, ["r", "g", "b"], ["red", "nir"]])
    rec = {
        "rows": rows, "cols": cols, "bands": bands, "im": rng.choice(["ok", "ok", "some_nan"]),
        "vars": [], "attrs": list(MANDATORY) + (["disparity_source"] if rng.random() < 0.5 else []),
        "disparity": None,
        # how the (string) band names are stored: a plain list gives a '<U' coordinate, a pandas Index / an object array /
        # a dataset reloaded from netCDF give an object coordinate holding str objects (seed C17-5)
        "band_repr": rng.choice(["list", "list", "object", "index"]),
    }
    if rng.random() < 0.5:
        rec["vars"].append({"name": "msk", "shape": "same"})
    if rng.random() < 0.3:
        rec["vars"].append({"name": "classif", "shape": "same3"})
    if rng.random() < 0.3:
        rec["vars"].append({"name": "segm", "shape": "same"})
    if left or rng.random() < 0.5:
        rec["disparity"] = {"bands": ["min", "max"], "grid": rng.choice(["const", "ramp", "equal", "with_nan"]), "shape": "same"}
        # storage type of the grids (seed C17-4: a difference taken in a narrow integer type wraps around)
        rec["disparity"]["dtype"] = rng.choice(["float32", "float32", "float64", "int64", "int16", "int8", "uint8", "uint16"])
        if rec["disparity"]["dtype"] != "float32" and rec["disparity"]["grid"] == "with_nan":
            rec["disparity"]["grid"] = "const"
        if rec["disparity"]["dtype"] == "int8" and rng.random() < 0.5:
            rec["disparity"]["grid"] = "wide"
    return rec


VIOLATIONS = [
    "no_im", "all_nan", "band_not_str", "msk_other_rows", "msk_other_cols", "extra_var_1d", "classif_other",
    "attr_missing_crs", "attr_missing_transform", "attr_missing_no_data_img", "attr_missing_valid_pixels",
    "attr_missing_no_data_mask", "no_attrs", "disp_missing", "disp_no_coord", "disp_only_min", "disp_other_names",
    "disp_min_gt_max", "disp_min_gt_max_one_pixel", "disp_other_shape", "disp_extra_band", "other_size",
]


def apply_violation(rec, v, rng):
    rec = copy.deepcopy(rec)
    if v == "no_im":
        rec["im"] = "missing"
    elif v == "all_nan":
        rec["im"] = "all_nan"
    elif v == "band_not_str":
        rec["bands"] = ["r", 1] if rng.random() < 0.5 else [0, 1, 2]
    elif v == "msk_other_rows":
        rec["vars"] = [x for x in rec["vars"] if x["name"] != "msk"] + [{"name": "msk", "shape": "rows+1"}]
    elif v == "msk_other_cols":
        rec["vars"] = [x for x in rec["vars"] if x["name"] != "msk"] + [{"name": "msk", "shape": "cols-1"}]
    elif v == "extra_var_1d":
        rec["vars"].append({"name": "profile", "shape": "1d"})
    elif v == "classif_other":
        rec["vars"] = [x for x in rec["vars"] if x["name"] != "classif"] + [{"name": "classif", "shape": "other3"}]
    elif v.startswith("attr_missing_"):
        rec["attrs"] = [a for a in rec["attrs"] if a != v[len("attr_missing_"):]]
    elif v == "no_attrs":
        rec["attrs"] = []
    elif v == "disp_missing":
        rec["disparity"] = None
    else:
        d = rec["disparity"] or {"bands": ["min", "max"], "grid": "const", "shape": "same"}
        if v == "disp_no_coord":
            d["bands"] = None
        elif v == "disp_only_min":
            d["bands"] = ["min"]
        elif v == "disp_other_names":
            d["bands"] = ["lo", "hi"]
        elif v == "disp_min_gt_max":
            d["grid"] = "inverted"
        elif v == "disp_min_gt_max_one_pixel":
            d["grid"] = "one_bad"
        elif v == "disp_other_shape":
            d["shape"] = "rows+1"
        elif v == "disp_extra_band":
            d["bands"] = ["min", "max", "extra"]
        elif v == "other_size":
            rec["rows"] += 1
            return rec
        rec["disparity"] = d
    return rec


def build_dataset(rec):
    """recipe -> real xarray.Dataset"""
    import xarray as xr

    rows, cols = rec["rows"], rec["cols"]
    data_vars = {}
    coords = {"row": np.arange(rows), "col": np.arange(cols)}
    bands = rec["bands"]
    rs = np.random.RandomState(rows * 31 + cols)
    if rec["im"] != "missing":
        shape = (rows, cols) if bands is None else (len(bands), rows, cols)
        im = rs.randint(0, 50, size=shape).astype(np.float32)
        if rec["im"] == "all_nan":
            im[:] = np.nan
        elif rec["im"] == "some_nan":
            im[..., 0, 0] = np.nan
        data_vars["im"] = (["row", "col"] if bands is None else ["band_im", "row", "col"], im)
    if bands is not None:
        if not all(isinstance(b, str) for b in bands) or rec.get("band_repr") == "object":
            coords["band_im"] = np.array(bands, dtype=object)
        elif rec.get("band_repr") == "index":
            import pandas as pd

            coords["band_im"] = pd.Index(bands)
        else:
            coords["band_im"] = bands
    for var in rec["vars"]:
        sh = var["shape"]
        if sh == "same":
            data_vars[var["name"]] = (["row", "col"], np.zeros((rows, cols), dtype=np.int16))
        elif sh == "same3":
            data_vars[var["name"]] = (["band_classif", "row", "col"], np.zeros((2, rows, cols), dtype=np.int16))
            coords["band_classif"] = ["a", "b"]
        elif sh == "other3":
            data_vars[var["name"]] = (["band_classif", "row_x", "col"], np.zeros((2, rows + 2, cols), dtype=np.int16))
            coords["band_classif"] = ["a", "b"]
        elif sh == "rows+1":
            data_vars[var["name"]] = (["row_m", "col"], np.zeros((rows + 1, cols), dtype=np.int16))
        elif sh == "cols-1":
            data_vars[var["name"]] = (["row", "col_m"], np.zeros((rows, cols - 1), dtype=np.int16))
        elif sh == "1d":
            data_vars[var["name"]] = (["row"], np.zeros((rows,), dtype=np.float32))
    ds = xr.Dataset(data_vars, coords=coords)
    d = rec["disparity"]
    if d is not None:
        r2 = rows + 1 if d["shape"] == "rows+1" else rows
        n = len(d["bands"]) if d["bands"] is not None else 2
        dt = np.dtype(d.get("dtype", "float32"))
        base = 40.0 if dt.kind == "u" else 0.0  # unsigned storage: an all-positive interval
        lo = np.full((r2, cols), base - 2.0, dtype=np.float32)
        hi = np.full((r2, cols), base + 2.0, dtype=np.float32)
        g = d["grid"]
        if g == "wide":  # a legal interval wider than half the range of int8
            lo[:], hi[:] = -100.0, 100.0
        if g == "ramp":
            lo = lo + np.arange(cols, dtype=np.float32)[None, :]
            hi = lo + 3
        elif g == "equal":
            hi = lo.copy()
        elif g == "with_nan":
            lo[0, 0] = np.nan
            hi[-1, -1] = np.nan
        elif g == "inverted":
            lo, hi = hi, lo
        elif g == "one_bad":
            lo[r2 // 2, cols // 2] = base + 5.0
        planes = [lo, hi] + [hi] * (n - 2)
        arr = np.stack(planes[:n]).astype(dt)
        dims = ["band_disp", "row_d" if r2 != rows else "row", "col"]
        if d["bands"] is not None:
            ds["disparity"] = xr.DataArray(arr, dims=dims, coords={"band_disp": d["bands"]})
        else:
            ds["disparity"] = xr.DataArray(arr, dims=dims)
    for a in rec["attrs"]:
        ds.attrs[a] = None if a in ("crs", "transform", "disparity_source") else 0
    return ds


def describe(ds):
    """what the model is told about a dataset (read off the object, not through Pandora)"""
    out = {"vars": [[str(n), [int(x) for x in ds[n].data.shape]] for n in ds.data_vars], "attrs": [str(a) for a in ds.attrs]}
    out["im_all_nan"] = bool(np.isnan(ds["im"].data).all()) if "im" in ds.data_vars else False
    out["band_im"] = [isinstance(b, str) for b in ds.coords["band_im"].data] if "band_im" in ds.coords else None
    out["band_disp"] = None
    out["disp_min_gt_max"] = False
    if "disparity" in ds.data_vars and "band_disp" in ds["disparity"].coords:
        names = [str(b) for b in ds["disparity"].coords["band_disp"].data]
        out["band_disp"] = names
        if "min" in names and "max" in names:
            arr = ds["disparity"].data
            out["disp_min_gt_max"] = bool((arr[names.index("min")] > arr[names.index("max")]).any())
    return out


def dataset_case(env: Env, report, lrec, rrec, tags, label="datasets"):
    ci = env.ci
    case = {"stream": "datasets", "left": lrec, "right": rrec, "tags": tags}
    left, right = build_dataset(lrec), build_dataset(rrec)
    ldesc, rdesc = describe(left), describe(right)
    status, out = ci.check_datasets(left, right)
    impl = {"status": status, "out": out}
    model = env.lean.call("C17.datasets", left=ldesc, right=rdesc)
    mres = model["res"]
    if status == "ok":
        if "ok" not in mres:
            report.disagree("check_datasets", case, impl, model)
    elif mres.get("err") != out:
        report.disagree("check_datasets.error", case, impl, model)
    # check_dataset alone on the left one
    s1, o1 = ci.check_dataset(left)
    m1 = model["res_left"]
    if (s1 == "ok") != ("ok" in m1) or (s1 != "ok" and m1.get("err") != o1):
        report.disagree("check_dataset", case, {"status": s1, "out": o1}, m1)
    report.case(key=(label, json.dumps(case, sort_keys=True, default=str)), nontrivial=True,
                sample={"tags": tags, "impl": impl, "failing": model["failing"]})
    report.count("datasets." + ("accepted" if status == "ok" else out))
    wf = model["well_formed"]
    report.hit("dataset_accept_iff_wf")
    if wf:
        report.hit("dataset_accept_iff_wf:well_formed")
        if status != "ok":
            fail(report, "dataset_accept_iff_wf", "well_formed_refused", case, impl, "every requirement holds")
    else:
        for f in model["failing"]:
            report.hit("dataset_accept_iff_wf:" + f.split(".")[-1])
        if status == "ok":
            sub = model["failing"][0]
            fail(report, "dataset_accept_iff_wf", "accepted:" + sub.split(".")[-1], case, impl, f"requirements violated: {model['failing']}")
    return status


def datasets(env: Env, report):
    rng = env.ctx.rng
    for _ in range(env.ctx.n(40, 600)):
        lrec = base_recipe(rng, True)
        rrec = base_recipe(rng, False)
        rrec["rows"], rrec["cols"], rrec["bands"] = lrec["rows"], lrec["cols"], lrec["bands"]
        dataset_case(env, report, lrec, rrec, ["base"])
        for v in VIOLATIONS:
            for side in ("left", "right"):
                if rng.random() < env.ctx.n(35, 100) / 100.0:
                    l2 = apply_violation(lrec, v, rng) if side == "left" else lrec
                    r2 = apply_violation(rrec, v, rng) if side == "right" else rrec
                    dataset_case(env, report, l2, r2, [f"{side}:{v}"])
        for _ in range(3):
            v1, v2 = rng.sample(VIOLATIONS, 2)
            s1, s2 = rng.choice(["left", "right"]), rng.choice(["left", "right"])
            l2, r2 = lrec, rrec
            for s, v in ((s1, v1), (s2, v2)):
                if s == "left":
                    l2 = apply_violation(l2, v, rng)
                else:
                    r2 = apply_violation(r2, v, rng)
            dataset_case(env, report, l2, r2, [f"{s1}:{v1}", f"{s2}:{v2}"])


# --------------------------------------------------------------------------------------------
# I: input sections
# --------------------------------------------------------------------------------------------
def materialise(v, files):
    if isinstance(v, str) and v.startswith("@"):
        return getattr(files, v[1:])
    if isinstance(v, dict):
        return {k: materialise(x, files) for k, x in v.items()}
    if isinstance(v, list):
        return [materialise(x, files) for x in v]
    return v


BASES = {
    "list": {"left": {"img": "@img_a", "disp": [-2, 2]}, "right": {"img": "@img_a2"}},
    "list_full": {"left": {"img": "@img_a", "disp": [0, 0], "nodata": "NaN", "mask": "@mask_a", "classif": None, "segm": "@mask_a"},
                  "right": {"img": "@img_a2", "nodata": 255, "mask": "@mask_a", "disp": None}},
    "grid_none": {"left": {"img": "@img_a", "disp": "@grid_a"}, "right": {"img": "@img_a2"}},
    "grid_grid": {"left": {"img": "@img_a", "disp": "@grid_a", "nodata": -1}, "right": {"img": "@img_a2", "disp": "@grid_a_right"}},
    "rgb": {"left": {"img": "@img_rgb", "disp": [-5, -1], "classif": "@img_rgb"}, "right": {"img": "@img_rgb2", "classif": "@img_rgb2"}},
    "small": {"left": {"img": "@img_b", "disp": "@grid_b", "mask": "@mask_b"}, "right": {"img": "@img_b", "mask": "@mask_b"}},
}

# (path in the input section, value); "<del>" removes the key
EDITS = []
for side in ("left", "right"):
    for v in ["<del>", "@not_raster", "@missing", 5, None, "", ["@img_a"]]:
        EDITS.append(((side, "img"), v))
    for v in [0, -9999, 2 ** 40, 1.5, 5.0, "x", None, [NAN], [[NAN]], [1], True, "NaN", "inf", "-inf", NAN, {}, {"a": 1}, []]:
        EDITS.append(((side, "nodata"), v))
    for key in ("mask", "classif", "segm"):
        for v in ["@mask_a", "@mask_b", "@missing", "@not_raster", "none", "", 5, {}, [], None, "<del>", True]:
            EDITS.append(((side, key), v))
    EDITS.append(((side, "unknown_key"), 1))
for v in [[2, -2], [0, 0], [1], [], [1, 2, 3], [3, 2, 1], [1.0, 2.0], ["a", "b"], [True, 2], [None, 1], [2 ** 70, 2 ** 71], None, "<del>", 5, {},
          "@grid_a", "@grid_bad", "@grid_bad_nodata", "@grid_ok_nodata", "@grid_u8_bad", "@grid_u16_bad", "@grid_u8_ok", "@grid_i8_wide", "@grid_i16_wide", "@grid_i16_bad", "@grid_b", "@grid_1band", "@grid_3band", "@missing", "@not_raster", "none", "NaN", [-3, 3]]:
    EDITS.append((("left", "disp"), v))
for v in [None, "<del>", [-2, 2], [], 5, {}, "@grid_a_right", "@grid_bad", "@grid_bad_nodata", "@grid_ok_nodata", "@grid_u8_bad", "@grid_u16_bad", "@grid_u8_ok", "@grid_i8_wide", "@grid_i16_wide", "@grid_i16_bad", "@grid_b", "@grid_1band", "@missing", "none", True]:
    EDITS.append((("right", "disp"), v))
EDITS.append((("right", "img"), "@img_b"))
EDITS.append((("left", "img"), "@img_b"))
EDITS.append((("third",), {"img": "@img_a"}))
EDITS.append((("left",), 5))
EDITS.append((("left",), {}))
EDITS.append((("right",), None))
EDITS.append((("right",), "<del>"))
EDITS.append((("left",), "<del>"))
EDITS.append((("right",), {}))


def apply_edit(inp, path, value):
    inp = copy.deepcopy(inp)
    cur = inp
    for k in path[:-1]:
        if not isinstance(cur.get(k), dict):
            return None
        cur = cur[k]
    if value == "<del>":
        cur.pop(path[-1], None)
    else:
        cur[path[-1]] = copy.deepcopy(value)
    return inp


def is_nan_list(v):
    if not isinstance(v, list):
        return False
    cur = v
    while isinstance(cur, list) and len(cur) == 1:
        cur = cur[0]
    return isinstance(cur, float) and math.isnan(cur)


def input_trigger(user):
    """stable tag of the known deviations, from the input only"""
    inp = user.get("input") if isinstance(user, dict) else None
    if not isinstance(inp, dict):
        return None
    for side in ("left", "right"):
        s = inp.get(side)
        if not isinstance(s, dict):
            continue
        if is_nan_list(s.get("nodata")):
            return "nan_in_list"
        for k in ("nodata", "mask", "classif", "segm", "disp"):
            if k in s and s[k] == {} and not (side == "left" and k == "disp"):
                return "empty_dict_for_defaulted_key"
    left = inp.get("left")
    if isinstance(left, dict):
        d = left.get("disp")
        if isinstance(d, list) and len(d) > 2 and all(isinstance(x, int) for x in d):
            return "disp_list_longer_than_two"
    return None


# the documented defaults of the two sides (user guide, input.rst): what `checkInputSection_completed` proves of the
# model is evaluated here on the implementation's result
DOC_DEFAULTS = {
    "left": (("nodata", -9999), ("mask", None), ("classif", None), ("segm", None)),
    "right": (("nodata", -9999), ("mask", None), ("classif", None), ("segm", None), ("disp", None)),
}
MAGIC = {"NaN": float("nan"), "inf": float("inf"), "-inf": float("-inf")}


def completed_section(user):
    """the user's section completed with the documented defaults: defaults first (in place), then the user's new
    keys in the user's order, the three magic strings rewritten; None when the section has not the two-sides shape
    or holds a dictionary value (then nothing is claimed here)"""
    inp = user.get("input") if isinstance(user, dict) else None
    if not isinstance(inp, dict) or set(inp) != {"left", "right"}:
        return None
    sides = {}
    for side in ("left", "right"):
        s = inp[side]
        if not isinstance(s, dict) or any(isinstance(v, dict) for v in s.values()):
            return None
        d = dict(DOC_DEFAULTS[side])
        for k, v in s.items():
            d[k] = MAGIC[v] if isinstance(v, str) and v in MAGIC else v
        sides[side] = d
    return {"input": sides}


def input_case(env: Env, report, user_sym, tags, label="input"):
    ci = env.ci
    user = materialise(user_sym, env.files)
    case = {"stream": "input", "user_symbolic": ci.to_wire(user_sym), "tags": tags}
    before = ci.snapshot(user)
    cwd = os.getcwd()
    os.chdir(env.files.root)  # relative file names (the raster really called "NaN") are relative to the file set
    try:
        status, out = ci.check_input_section(user)
    finally:
        os.chdir(cwd)
    impl = {"status": status, "out": ci.to_wire(out) if status == "ok" else out}
    model = env.lean.call("C17.input", input_schemas=env.data["input"], flags=env.data["flags"], files=env.files.wire(),
                          user=ci.to_wire(user))
    mres = model["res"]
    if env.degraded:
        pass
    elif status == "ok":
        if mres.get("ok") != impl["out"]:
            report.disagree("check_input_section.result", case, impl, mres)
    elif mres.get("err") not in (out, "other"):
        report.disagree("check_input_section.error", case, impl, mres)
    report.case(key=(label, json.dumps(case, sort_keys=True, default=str)), nontrivial=True,
                sample={"tags": tags, "impl": impl["status"], "verdict": model["verdict"], "rejecting": model["rejecting"]})
    report.count("input." + ("accepted" if status == "ok" else out))
    if not ci.same_value(before, user):
        fail(report, "input_accept_iff_documented", "input_mutated", case, impl, "check_input_section changed the user's dictionary")
    if status == "ok":
        expected = completed_section(user)
        if expected is not None:
            report.hit("input_accept_iff_documented:completed_with_defaults")
            if ci.to_wire(expected) != impl["out"]:
                fail(report, "input_accept_iff_documented", "result_not_completed_with_defaults", case, impl,
                     "the returned section is not the user's section completed with the documented defaults")
    verdict = model["verdict"]
    if verdict != "undecided":
        report.hit("input_accept_iff_documented")
    if verdict == "accept":
        report.hit("input_accept_iff_documented:documented")
        if status != "ok":
            magic = any(isinstance(s_, dict) and any(isinstance(s_.get(k), str) and s_.get(k) in MAGIC for k in ("img", "mask", "classif", "segm", "disp"))
                        for s_ in (user.get("input", {}).get("left"), user.get("input", {}).get("right")))
            fail(report, "input_accept_iff_documented", "magic_image_name" if magic else "documented_form_refused", case, impl,
                 "every requirement of the documented forms holds")
    elif verdict == "reject":
        for c in model["rejecting"]:
            report.hit("input_accept_iff_documented:" + c)
        if status == "ok":
            trig = input_trigger(user) or ("accepted:" + model["rejecting"][0])
            fail(report, "input_accept_iff_documented", trig, case, impl, f"outside the documented forms: {model['rejecting']}")
    else:
        report.count("input.undecided")
    return status, model


def inputs(env: Env, report):
    rng = env.ctx.rng
    for name, base in BASES.items():
        input_case(env, report, {"input": copy.deepcopy(base)}, [name])
        for path, value in EDITS:
            e = apply_edit(base, path, value)
            if e is not None:
                input_case(env, report, {"input": e}, [name, "/".join(path) + "=" + json.dumps(value, default=str)[:30]])
    for user in [{}, {"input": 5}, {"input": None}, {"input": {}}, {"input": []}, {"pipeline": {}},
                 {"input": copy.deepcopy(BASES["list"]), "pipeline": {"matching_cost": {}}, "other": 1}]:
        input_case(env, report, user, ["structure"])
    names = list(BASES)
    for _ in range(env.ctx.n(250, 4000)):
        base = BASES[rng.choice(names)]
        e = base
        tags = []
        for _ in range(2):
            path, value = rng.choice(EDITS)
            e2 = apply_edit(e, path, value)
            if e2 is not None:
                e = e2
                tags.append("/".join(path))
        input_case(env, report, {"input": e}, ["pair"] + tags)


# --------------------------------------------------------------------------------------------
# M: refusal happens before any matching
# --------------------------------------------------------------------------------------------
class _Reached(Exception):
    pass


def main_case(env: Env, report, user_sym, tags):
    """pandora.main on a configuration file, with pandora.run replaced by a recorder"""
    import pandora

    ci = env.ci
    user = materialise(user_sym, env.files)
    case = {"stream": "main", "user_symbolic": ci.to_wire(user_sym), "tags": tags}
    cfg_path = os.path.join(env.tmp, "cfg.json")
    out_dir = os.path.join(env.tmp, "out")
    shutil.rmtree(out_dir, ignore_errors=True)
    with open(cfg_path, "w", encoding="utf-8") as f:
        json.dump(user, f)
    calls = []
    real_run = pandora.run

    def recorder(*args, **kwargs):
        calls.append(1)
        raise _Reached()

    pandora.run = recorder
    try:
        try:
            pandora.main(cfg_path, out_dir, False)
            outcome = "returned"
        except _Reached:
            outcome = "reached_run"
        except BaseException as exc:  # pylint: disable=broad-except
            if isinstance(exc, (KeyboardInterrupt, SystemExit)):
                raise
            outcome = "raised:" + ci.exc_name(exc)
    finally:
        pandora.run = real_run
    expected_ok = ci.check_conf(ci.PandoraMachine(), copy.deepcopy(user))[0] == "ok"
    impl = {"outcome": outcome, "run_calls": len(calls), "output_exists": os.path.exists(out_dir)}
    report.case(key=("main", json.dumps(case, sort_keys=True, default=str)), nontrivial=True, sample={"tags": tags, "impl": impl})
    report.hit("refused_before_matching")
    if expected_ok:
        if outcome != "reached_run":
            fail(report, "refused_before_matching", "accepted_configuration_does_not_run", case, impl)
    else:
        if not outcome.startswith("raised:") or calls or os.path.exists(out_dir):
            fail(report, "refused_before_matching", "refused_configuration_reaches_run", case, impl,
                        "a configuration check_conf refuses must raise before pandora.run and write nothing")


def mains(env: Env, report):
    pipe = {"matching_cost": {"matching_cost_method": "zncc"}, "disparity": {"disparity_method": "wta"}}
    good = [BASES["list"], BASES["grid_grid"], BASES["rgb"]]
    for b in good:
        p = copy.deepcopy(pipe)
        if b is BASES["rgb"]:
            p["matching_cost"]["band"] = "g"
        main_case(env, report, {"input": copy.deepcopy(b), "pipeline": p}, ["well_formed"])
    bad_edits = [(("left", "disp"), [2, -2]), (("left", "disp"), [1]), (("left", "img"), "@missing"), (("right", "img"), "@img_b"),
                 (("left", "mask"), "@mask_b"), (("left", "nodata"), 1.5), (("right", "disp"), [-2, 2]), (("left", "disp"), "@grid_bad"), (("left", "disp"), "@grid_bad_nodata"),
                 (("left", "disp"), "<del>"), (("right", "segm"), "none")]
    for path, value in bad_edits:
        main_case(env, report, {"input": apply_edit(BASES["list"], path, value), "pipeline": copy.deepcopy(pipe)},
                  ["/".join(path)])
    main_case(env, report, {"input": copy.deepcopy(BASES["list"]), "pipeline": {"disparity": {"disparity_method": "wta"}}}, ["bad_pipeline"])
    main_case(env, report, {"input": copy.deepcopy(BASES["list"]), "pipeline": {"matching_cost": {"matching_cost_method": "zncc", "window_size": 4}}}, ["bad_param"])


# --------------------------------------------------------------------------------------------
# entry points
# --------------------------------------------------------------------------------------------
def replay_case(env: Env, report, case):
    ci = env.ci
    stream = case.get("stream")
    if stream == "datasets":
        dataset_case(env, report, case["left"], case["right"], case.get("tags", []), "replay")
    elif stream == "input":
        input_case(env, report, ci.from_wire(case["user_symbolic"]), case.get("tags", []), "replay")
    elif stream == "main":
        main_case(env, report, ci.from_wire(case["user_symbolic"]), case.get("tags", []))
    else:
        raise ValueError(f"unknown case stream {stream}")


def run(ctx, report, status):
    env = Env(ctx)
    try:
        report.rule = (
            "dataset pairs: random well-formed bases (mono/multi-band, mask/classif/segm, disparities) x each of 22 single "
            "violations on either side x random pairs, built as real xarray Datasets; input sections: 6 documented base forms x "
            "~150 single edits (paths unreadable/other size, nodata types, disparity lists and grids, keys added/removed) x random "
            "pairs, on small GeoTIFF files; pandora.main with a recording pandora.run. Every case: implementation == Lean model "
            "(accept / exception class / returned section), well-formedness specification == accept/reject. "
            "distinct by canonical JSON of the case"
        )
        if env.degraded:
            report.notes.append("the translator could not read the source: no model comparison was made (see build_problems)")
            return
        translator_cross_check(env, report, status)
        for name, case in core.load_corpus(PROP):
            replay_case(env, report, case.get("input", case))
        datasets(env, report)
        inputs(env, report)
        mains(env, report)
    finally:
        env.close()


def translator_cross_check(env: Env, report, status):
    """the input schemas and defaults read from the source text equal the live module objects (on a value table)"""
    from pandora import check_configuration as cc

    ci = env.ci
    data = env.data["input"]
    live_defaults = ci.to_wire(cc.default_short_configuration_input)
    tr_defaults = {"o": [[k, v] for k, v in data["defaults"]]}
    report.translator_checks += 1
    if live_defaults != tr_defaults:
        status.problem("translator", "default_short_configuration_input differs from the live module object")
    f = env.files
    values = [0, -9999, True, 1.5, NAN, "x", None, [NAN], [1, 2], [1], [], {}, [1, 2, 3], [1.0, 2], f.img_a, f.missing, f.not_raster,
              "none", f.grid_a, [True, False]]
    wire_values = [ci.to_wire(v) for v in values]
    # the module-level base schema is mutated by check_input_section (.update): read the keys the source names
    live = {
        "base": {s: {k: v for k, v in cc.input_configuration_schema[s].items() if k != "disp"} for s in ("left", "right")},
        "integer": cc.input_configuration_schema_integer_disparity,
        "gridNone": cc.input_configuration_schema_left_disparity_grids_right_none,
        "gridGrid": cc.input_configuration_schema_left_disparity_grids_right_grids,
    }
    for fld, sides in live.items():
        for side, entries in sides.items():
            tr = data[fld + side.capitalize()]
            report.translator_checks += 1
            if sorted(entries) != sorted(e[0] for e in tr):
                status.problem("translator", f"input schema {fld}.{side}: keys {sorted(entries)} but translated {[e[0] for e in tr]}")
                continue
            for key, expected in entries.items():
                entry = next(e for e in tr if e[0] == key)
                model = env.lean.call("C05.accepts", schema=entry[2], values=wire_values, files=f.wire())
                for v, m in zip(values, model):
                    report.translator_checks += 1
                    if ci.live_accepts(expected, v) != m:
                        status.problem("translator", f"input schema {fld}.{side}.{key}: live and translated differ on {core.enc(str(v))[:60]}")
                        break


def search(ctx, report, status):
    known = core.load_known(PROP)
    env = Env(ctx)
    sub = core.Report(PROP, ctx.tier, ctx.seed)
    try:
        def first_unknown():
            for f in sub.failures:
                if not any(k.get("clause") == f["clause"] and k.get("trigger") == f["trigger"] for k in known):
                    return f
            return None

        for name, base in BASES.items():
            input_case(env, sub, {"input": copy.deepcopy(base)}, [name], "search")
            for path, value in EDITS:
                e = apply_edit(base, path, value)
                if e is not None:
                    input_case(env, sub, {"input": e}, [name], "search")
            f = first_unknown()
            if f:
                return f
        rng = ctx.rng
        for _ in range(60):
            lrec = base_recipe(rng, True)
            rrec = base_recipe(rng, False)
            rrec["rows"], rrec["cols"], rrec["bands"] = lrec["rows"], lrec["cols"], lrec["bands"]
            dataset_case(env, sub, lrec, rrec, ["base"], "search")
            for v in VIOLATIONS:
                for side in ("left", "right"):
                    l2 = apply_violation(lrec, v, rng) if side == "left" else lrec
                    r2 = apply_violation(rrec, v, rng) if side == "right" else rrec
                    dataset_case(env, sub, l2, r2, [f"{side}:{v}"], "search")
            f = first_unknown()
            if f:
                return f
        mains(env, sub)
        return first_unknown()
    finally:
        env.close()


def replay(ctx, report, path):
    with open(path, encoding="utf-8") as f:
        data = json.load(f)
    case = data.get("input", data)
    env = Env(ctx)
    try:
        replay_case(env, report, case)
    finally:
        env.close()
    for fl in report.failures:
        print("spec failure:", fl["clause"], fl["trigger"], json.dumps(fl["case"], default=str)[:500])
        print("   implementation:", json.dumps(fl["impl"], default=str)[:500])
    for d in report.disagreements:
        print("disagreement:", json.dumps(d, default=str)[:800])
    print("replayed: failures=%d disagreements=%d" % (len(report.failures), len(report.disagreements)))
    return 1 if report.failures else 0
