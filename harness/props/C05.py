"""C05 — configuration checking completes, preserves and polices every parameter.

Streams (all against the real Pandora code, the Lean model and the Lean specification):
  T  translator cross-check: live class constants and live json_checker schemas (captured from the
     classes) against the translated tables, on a value table;
  P  one-step probes: every parameter of every built-in method x every value of the table (+ pairs),
     through `Abstract<Kind>(**cfg)`;
  L  pipelines through `check_pipeline_section` on a fresh machine: sequencing x parameters x image
     bands x disparity sources; result specification, idempotence, user dictionary untouched;
  H  histories: several checks on one machine (the machine keeps `pipeline_cfg`);
  C  whole `check_conf(user_cfg, machine)` on small raster files;
  U  `update_conf` on random nested dictionaries.
"""
from __future__ import annotations

import copy
import json
import math
import os
import shutil
import tempfile

from .. import core

PROP = "C05"


def fail(report, clause, trigger, case, impl=None, detail=""):
    """report.fail, keeping at most 3 instances of each (clause, trigger): the list of failures is bounded
    and the many repetitions of a known finding must not crowd out a new one"""
    seen = report.__dict__.setdefault("_fail_counts", {})
    n = seen.get((clause, trigger), 0)
    seen[(clause, trigger)] = n + 1
    if n < 3:
        report.fail(clause, trigger, case, impl, detail)
    else:
        report.count(f"repeated_failure:{clause}:{trigger}")
NAN = float("nan")
INF = float("inf")

METHOD_KEY = {
    "matching_cost": "matching_cost_method",
    "aggregation": "aggregation_method",
    "optimization": "optimization_method",
    "semantic_segmentation": "segmentation_method",
    "cost_volume_confidence": "confidence_method",
    "disparity": "disparity_method",
    "filter": "filter_method",
    "refinement": "refinement_method",
    "validation": "validation_method",
    "multiscale": "multiscale_method",
}

# the value table of DESIGN.md §8 C05, extended
VALUES = [
    -1, 0, 1, 2, 3, 4, 5, 6, 7, 8, 9, 2 ** 70, 2 ** 70 + 1, -(2 ** 70) - 1,
    True, False,
    1.0, 0.5, 0.0, -0.5, 2.0, 0.99, 1.5, 30.0, 1e-9, -0.0, NAN, INF, -INF,
    "x", "", "NaN", "inf", "-inf", "r", "sgm", "mc-cnn", "mc_cnn", "1",
    None, [], [1], [NAN], [[NAN]], [1.0, NAN], [True], {}, {"a": 1},
]


def translate():
    from translator import registry

    return registry.generate("Schemas")


# --------------------------------------------------------------------------------------------
# shared state of a run
# --------------------------------------------------------------------------------------------
class Env:
    def __init__(self, ctx):
        from translator import t4_schemas

        from ..impl import config_impl as ci

        self.ci = ci
        self.ctx = ctx
        self.lean = ctx.lean
        # a source the translator cannot read is reported by build_and_audit; the check then only
        # searches for a failing input with the documentation as oracle (no model comparison)
        try:
            self.data = t4_schemas.extract()
            self.degraded = False
        except Exception:  # pylint: disable=broad-except
            self.data = {"kinds": [], "input": None, "flags": {}}
            self.degraded = True
        self.kinds = {k["kind"]: k for k in self.data["kinds"]}
        self.registry = [self.kind_wire(k) for k in self.kinds]
        self.doc = {}  # (kind, method) -> {param: default descriptor}
        for c in self.lean.call("C05.doc_table"):
            for m in c["methods"]:
                self.doc[(c["kind"], m)] = {p["name"]: p["default"] for p in c["params"]}
        self.tmp = None
        self.files = None

    def kind_wire(self, kind):
        if kind not in self.kinds:
            return {"kind": kind, "methodKey": METHOD_KEY[kind], "unicodeBranch": True, "classes": []}
        k = self.kinds[kind]
        return {
            "kind": k["kind"],
            "methodKey": k["methodKey"],
            "unicodeBranch": k["unicodeBranch"],
            "classes": [{f: c[f] for f in ("className", "names", "actions", "schema")} for c in k["classes"]],
        }

    def fileset(self):
        if self.files is None:
            self.tmp = tempfile.mkdtemp(prefix="verif-c05-")
            self.files = self.ci.FileSet(self.tmp)
        return self.files

    def close(self):
        if self.tmp:
            shutil.rmtree(self.tmp, ignore_errors=True)


def short(v):
    s = json.dumps(v, default=str)
    return s if len(s) <= 40 else s[:37] + "..."


def is_nan_list(v):
    """a (nested) list holding exactly one number, a NaN: np.isnan(v) is truthy"""
    if not isinstance(v, list):
        return False
    cur = v
    while isinstance(cur, list) and len(cur) == 1:
        cur = cur[0]
    return isinstance(cur, float) and math.isnan(cur)


def value_tag(v):
    if is_nan_list(v):
        return "nan_in_list"
    if isinstance(v, bool):
        return "bool"
    return short(v if not (isinstance(v, float) and v != v) else "nan")


# --------------------------------------------------------------------------------------------
# T: translator cross-check
# --------------------------------------------------------------------------------------------
def translator_cross_check(env: Env, report, status):
    ci = env.ci
    assert "pandora2d" not in __import__("sys").modules, "the checks model Pandora without pandora2d"
    wire_values = [ci.to_wire(v) for v in VALUES]
    for kind, k in env.kinds.items():
        live_names = ci.registered(kind)
        names = sorted(n for c in k["classes"] for n in c["names"])
        report.translator_checks += 1
        if live_names != names:
            status.problem("translator", f"{kind}: registered methods {live_names} but translated {names}")
            continue
        for c in k["classes"]:
            cls = ci.live_class(kind, c["names"][0])
            # class constants (defaults)
            for cname, cval in c["consts"].items():
                report.translator_checks += 1
                live = getattr(cls, cname, "<missing>")
                if live == "<missing>" or ci.to_wire(live) != cval:
                    status.problem("translator", f"{c['className']}.{cname}: source says {cval}, live class says {live!r}")
            # schema entries on the value table
            try:
                live = ci.live_schema(kind, c["names"][0])
            except RuntimeError as exc:
                status.problem("translator", str(exc))
                continue
            live_keys = []
            for key in live:
                opt = hasattr(key, "expected_data")
                live_keys.append((key.expected_data if opt else key, opt))
            tr_keys = [(e[0], e[1]) for e in c["schema"]]
            report.translator_checks += 1
            if sorted(live_keys) != sorted(tr_keys):
                status.problem("translator", f"{c['className']}: schema keys {live_keys} but translated {tr_keys}")
                continue
            for key, expected in live.items():
                name = key.expected_data if hasattr(key, "expected_data") else key
                entry = next(e for e in c["schema"] if e[0] == name)
                model = env.lean.call("C05.accepts", schema=entry[2], values=wire_values)
                for v, m in zip(VALUES, model):
                    report.translator_checks += 1
                    if ci.live_accepts(expected, v) != m:
                        status.problem(
                            "translator",
                            f"{c['className']}.{name}: live schema {'accepts' if not m else 'rejects'} {short(ci.to_wire(v))}, "
                            f"the translated one does not",
                        )
                        break


# --------------------------------------------------------------------------------------------
# P: one-step probes
# --------------------------------------------------------------------------------------------
MONO = {"bands": [None], "disp_source": [-2, 2]}


def probe(env: Env, report, kind, cfg, label="probe", left=None, right=None):
    """one `Abstract<Kind>(**cfg)` on the implementation and the model + the specification"""
    ci = env.ci
    left = left or MONO
    right = right or {"bands": left["bands"], "disp_source": None}
    lmeta = ci.meta(left["bands"], left["disp_source"])
    rmeta = ci.meta(right["bands"], right["disp_source"])
    case = {"stream": "probe", "kind": kind, "cfg": ci.to_wire(cfg), "left": left, "right": right}
    before = ci.snapshot(cfg)
    status, out = ci.construct(kind, cfg, lmeta, rmeta)
    impl = {"status": status, "out": ci.to_wire(out) if status == "ok" else out}
    model = env.lean.call(
        "C05.construct", kind=env.kind_wire(kind), cfg=case["cfg"],
        left=ci.img_info_wire(left["bands"], left["disp_source"]),
        right=ci.img_info_wire(right["bands"], right["disp_source"]),
    )
    mres = model["res"]
    # ---- correspondence
    if env.degraded:
        pass
    elif status == "ok":
        if "ok" not in mres or mres["ok"] != impl["out"]:
            report.disagree("construct.result", case, impl, mres)
    else:
        if "err" not in mres or (mres["err"] != out and mres["err"] != "other"):
            report.disagree("construct.error", case, impl, mres)
    # ---- specification on the implementation's behaviour
    doc = model["doc"]
    params = [k for k in cfg if k != METHOD_KEY[kind]]
    key = (label, kind, json.dumps(case["cfg"], sort_keys=True, default=str), json.dumps([left, right], default=str))
    report.case(key=key, nontrivial=True, sample={"kind": kind, "cfg": case["cfg"], "impl": impl})
    if not ci.same_value(before, cfg):
        fail(report, "user_dict_untouched", "construct_mutates", case, impl)
    if any(isinstance(v, str) and v in ("NaN", "inf", "-inf") for v in cfg.values()):
        # the strings update_conf rewrites are specified at the check_conf level (stream `magic`):
        # given directly to a class they are only compared with the model
        report.count("class_level_magic_string")
        return impl
    if doc.get("class") is None:
        if kind not in ("optimization", "semantic_segmentation"):
            report.hit("unknown_method")
            if status == "ok":
                fail(report, "unknown_method", f"{kind}:accepted", case, impl)
        return impl
    verdict = doc["verdict"]
    rejecting = [(p, d) for p, d in doc["params"] if d == "reject"]
    if verdict == "reject":
        report.hit("rejects_outside_domain")
        for p, _ in rejecting:
            report.hit(f"rejects_outside_domain:{doc['class']}.{p}")
        if status == "ok":
            p = rejecting[0][0]
            v = cfg.get(p)
            trig = "nan_in_list" if is_nan_list(v) else f"{doc['class']}.{p}={value_tag(v)}"
            clause = "rejects_outside_domain"
            if p == "step":
                clause = "step_not_1"
            elif not isinstance(v, (int, float)) or isinstance(v, bool):
                clause = "wrong_type" if not is_nan_list(v) else "rejects_outside_domain"
            fail(report, clause, trig, case, impl, f"documented domain refuses {p}={short(ci.to_wire(v))}")
    elif verdict == "accept":
        report.hit("accepts_inside_domain")
        for p in params:
            report.hit(f"accepts_inside_domain:{doc['class']}.{p}")
        if status != "ok":
            p = params[0] if params else "<none>"
            fail(report, "accepts_inside_domain", f"{doc['class']}.{p}={value_tag(cfg.get(p))}", case, impl,
                        "every parameter is inside its documented domain")
    else:
        report.count("undecided_probe")
        for p, d in doc["params"]:
            if d == "undecided":
                report.count(f"undecided:{doc['class']}.{p}:{'accepted' if status == 'ok' else 'refused'}")
    if status == "ok":
        spec = env.lean.call("C05.spec_step", kind=kind, user=case["cfg"], result=impl["out"])
        report.hit("user_keys_kept")
        if not spec["user_keys_kept"]:
            fail(report, "user_keys_kept", f"{doc['class']}", case, impl, "a user key changed value or position")
        report.hit("defaults_added")
        if not spec["defaults_added"]:
            fail(report, "defaults_added", f"{doc['class']}", case, impl,
                        "an omitted parameter is missing, has another value than documented, or something else was added")
        # idempotence on the step
        again = ci.construct(kind, ci.snapshot(out), lmeta, rmeta)
        report.hit("idempotent")
        if again[0] != "ok" or not ci.same_value(again[1], out):
            trig = "nan_in_list" if any(is_nan_list(v) for v in cfg.values()) else f"{doc['class']}"
            fail(report, "idempotent", trig, case, {"first": impl, "second": [again[0], ci.to_wire(again[1]) if again[0] == "ok" else again[1]]})
    return impl


def probes(env: Env, report):
    rng = env.ctx.rng
    for kind, k in env.kinds.items():
        mk = METHOD_KEY[kind]
        for c in k["classes"]:
            for method in c["names"]:
                probe(env, report, kind, {mk: method})
                params = [e[0] for e in c["schema"] if e[0] != mk]
                for p in params:
                    for v in VALUES:
                        probe(env, report, kind, {mk: method, p: copy.deepcopy(v)})
                # an unknown parameter, a parameter of another class
                probe(env, report, kind, {mk: method, "not_a_parameter": 1})
                probe(env, report, kind, {mk: method, "filter_size" if kind != "filter" else "window_size": 3})
                # pairs: two parameters with random table values, biased to legal ones
                for _ in range(env.ctx.n(6, 60)):
                    if len(params) < 2:
                        break
                    a, b = rng.sample(params, 2)
                    probe(env, report, kind, {mk: method, a: legalish(rng, method, a), b: legalish(rng, method, b)}, "pair")
        # method names
        for bad in ["nope", "", "SAD", 5, None, True, 1.5, [], {}]:
            probe(env, report, kind, {mk: copy.deepcopy(bad)})
        probe(env, report, kind, {})
        probe(env, report, kind, {"window_size": 3})
    # multiscale refuses disparity grids; band handling is exercised in the pipelines
    probe(env, report, "multiscale", {"multiscale_method": "fixed_zoom_pyramid"},
          left={"bands": [None], "disp_source": "grid.tif"})
    probe(env, report, "multiscale", {"multiscale_method": "fixed_zoom_pyramid", "num_scales": 3},
          left={"bands": [None], "disp_source": [-1, 1]}, right={"bands": [None], "disp_source": "grid.tif"})


LEGAL = {
    "window_size": [1, 3, 5, 7, 11], "subpix": [1, 2, 4], "band": [None], "step": [1],
    "cbca_intensity": [30.0, 0.5, 5.5], "cbca_distance": [1, 5, 9],
    "invalid_disparity": [-9999, 0, NAN, "NaN", -1.5, 2 ** 40],
    "filter_size": [1, 3, 5], "sigma_color": [2.0, 0.25], "sigma_space": [6.0, 1.5],
    "interval_indicator": ["", "a"], "regularization": [True, False], "ambiguity_indicator": ["", "amb"],
    "ambiguity_threshold": [0.6, 0.25], "ambiguity_kernel_size": [1, 5, 7], "vertical_depth": [0, 2],
    "quantile_regularization": [1.0, 0.9, 0.0], "cross_checking_threshold": [1.0, 1, 0.5, 0, 2],
    "interpolated_disparity": ["sgm"], "eta_max": [0.7, 0.5], "eta_step": [0.01, 0.1],
    "normalization": [True, False], "indicator": ["", "x"], "possibility_threshold": [0.9, 0.0, 1.0],
    "num_scales": [2, 3], "scale_factor": [2, 3], "marge": [0, 1, 4],
}
BOUNDARY = {
    "window_size": [0, -1, 2, 4, 6, 5.0, "5", None], "subpix": [0, 3, 5, -2, 6, 8, 2.0],
    "step": [0, 2, 1.0, -1], "cbca_intensity": [0.0, -1.0, 30, NAN, INF], "cbca_distance": [0, -3, 5.0],
    "invalid_disparity": ["x", None, [NAN]], "filter_size": [0, 2, -3, 3.0], "sigma_color": [0.0, -2.0, 2],
    "sigma_space": [0.0, 6, -INF], "ambiguity_threshold": [0.0, 1.0, 1.5, -0.1, 1],
    "ambiguity_kernel_size": [0, 2, -1, 4], "vertical_depth": [-1, 0.0], "quantile_regularization": [1.1, -0.5, 1],
    "cross_checking_threshold": ["1", None, True], "interpolated_disparity": ["mc-cnn", "mc_cnn", "none", 1],
    "eta_max": [0.0, 1.0, -0.7, 1, 1.5], "eta_step": [0.0, 1.0, -0.01, 2.0], "normalization": [1, 0, "true"],
    "indicator": [1, None], "possibility_threshold": [-0.1, 1.1, 1], "num_scales": [1, 0, -2, 2.0],
    "scale_factor": [1, 0, 2.0], "marge": [-1, 1.0], "regularization": [1, "false"], "band": ["r", 1],
    "interval_indicator": [0], "ambiguity_indicator": [None],
}


def legalish(rng, method, param, p_bad=0.25):
    if param == "window_size" and method == "census":
        pool = [3, 5]
    else:
        pool = LEGAL.get(param, [1])
    if rng.random() < p_bad:
        return copy.deepcopy(rng.choice(BOUNDARY.get(param, VALUES)))
    return copy.deepcopy(rng.choice(pool))


# --------------------------------------------------------------------------------------------
# L / H: pipelines
# --------------------------------------------------------------------------------------------
COST_KINDS = ["aggregation", "cost_volume_confidence", "optimization", "semantic_segmentation"]
DISP_KINDS = ["filter", "refinement", "validation", "multiscale"]
ALL_KINDS = list(METHOD_KEY)


def random_kinds(rng):
    r = rng.random()
    if r < 0.8:
        ks = ["matching_cost"]
        for _ in range(rng.choice([0, 0, 1, 1, 2])):
            ks.append(rng.choice(["aggregation", "cost_volume_confidence", "cost_volume_confidence", "aggregation",
                                  "optimization" if rng.random() < 0.15 else "aggregation"]))
        if rng.random() < 0.93:
            ks.append("disparity")
            for _ in range(rng.choice([0, 1, 1, 2, 3])):
                ks.append(rng.choice(["filter", "filter", "refinement", "validation", "multiscale"]))
        if rng.random() < 0.12 and ks:
            i = rng.randrange(len(ks))
            m = rng.random()
            if m < 0.3:
                del ks[i]
            elif m < 0.6:
                ks.insert(i, rng.choice(ALL_KINDS))
            else:
                ks[i] = rng.choice(ALL_KINDS)
        return ks
    return [rng.choice(ALL_KINDS) for _ in range(rng.randrange(0, 5))]


def decorate(rng, kinds):
    used = set()
    out = []
    for k in kinds:
        name = k
        if name in used or rng.random() < 0.15:
            i = 1
            while f"{k}.{i}" in used:
                i += 1
            name = f"{k}.{i}"
        used.add(name)
        out.append(name)
    return out


def random_step(env: Env, rng, kind, bands, p_bad):
    k = env.kinds[kind]
    mk = METHOD_KEY[kind]
    names = [n for c in k["classes"] for n in c["names"]]
    if not names or rng.random() < 0.04:
        return {mk: rng.choice(["sgm", "nope", 3])} if rng.random() < 0.8 else {}
    method = rng.choice(names)
    c = next(c for c in k["classes"] if method in c["names"])
    cfg = {mk: method}
    params = [e[0] for e in c["schema"] if e[0] != mk]
    rng.shuffle(params)
    for p in params[: rng.randrange(0, len(params) + 1)]:
        cfg[p] = legalish(rng, method, p, p_bad)
    if rng.random() < 0.03:
        cfg["typo_param"] = 1
    if kind == "matching_cost":
        named = [b for b in bands if b is not None]
        if len(bands) > 1 or rng.random() < 0.2:
            r = rng.random()
            if r < 0.75 and named:
                cfg["band"] = rng.choice(named)
            elif r < 0.85:
                cfg["band"] = rng.choice(["zz", "", "x"])
            elif "band" in cfg:
                del cfg["band"]
    if rng.random() < 0.5:
        items = list(cfg.items())
        rng.shuffle(items)
        cfg = dict(items)
    return cfg


BAND_SETS = [[None], [None], [None], ["r", "g", "b"], ["r", "g", "b"], ["red", "nir"], [None, None], ["p"]]


def random_images(rng):
    bands = rng.choice(BAND_SETS)
    rbands = bands if rng.random() < 0.9 else rng.choice(BAND_SETS)
    r = rng.random()
    if r < 0.8:
        ld, rd = [-3, 3], None
    elif r < 0.9:
        ld, rd = "left_grid.tif", None
    else:
        ld, rd = "left_grid.tif", "right_grid.tif"
    return {"bands": bands, "disp_source": ld}, {"bands": rbands, "disp_source": rd}


def random_pipeline(env: Env, rng, bands, p_bad=0.12):
    names = decorate(rng, random_kinds(rng))
    out = {}
    for n in names:
        kind = n.split(".")[0]
        r = rng.random()
        if r < 0.02:
            out[n] = rng.choice([5, None, "x", []])
        else:
            out[n] = random_step(env, rng, kind, bands, p_bad)
    return out


def doc_pipeline(env: Env, rng, bands):
    """a random pipeline using the documentation table only (degraded mode)"""
    out = {}
    for n in decorate(rng, random_kinds(rng)):
        kind = n.split(".")[0]
        methods = [(m, ps) for (k, m), ps in env.doc.items() if k == kind]
        if not methods:
            out[n] = {METHOD_KEY[kind]: "sgm"}
            continue
        m, ps = rng.choice(methods)
        cfg = {METHOD_KEY[kind]: m}
        names = list(ps)
        rng.shuffle(names)
        for p in names[: rng.randrange(0, len(names) + 1)]:
            cfg[p] = legalish(rng, m, p, 0.15)
        if kind == "matching_cost" and len(bands) > 1:
            cfg["band"] = rng.choice([b for b in bands if b is not None] or ["x"])
        out[n] = cfg
    return out


def wire_state(env, machine):
    return env.ci.machine_state_wire(machine)


def check_pipeline(env: Env, report, machine, state, user, left, right, label, fresh=True, extra=None):
    """one `check_pipeline_section` on the implementation (given machine) and the model (given state).
    Returns (impl status, model state after) — the state is None when either side refused."""
    ci = env.ci
    lmeta = ci.meta(left["bands"], left["disp_source"])
    rmeta = ci.meta(right["bands"], right["disp_source"])
    case = {"stream": label, "user": ci.to_wire(user), "left": left, "right": right, "state": state}
    case.update(extra or {})
    before = ci.snapshot(user)
    status, out = ci.check_pipeline_section(machine, user, lmeta, rmeta)
    impl = {"status": status, "out": ci.to_wire(out) if status == "ok" else out}
    model = env.lean.call(
        "C05.pipeline", registry=env.registry, flags=env.data["flags"], user=case["user"], state=state or {},
        left=ci.img_info_wire(left["bands"], left["disp_source"]),
        right=ci.img_info_wire(right["bands"], right["disp_source"]),
    )
    mres = model["res"]
    new_state = None
    if env.degraded:
        new_state = wire_state(env, machine) if status == "ok" else None
    elif status == "ok":
        if "ok" not in mres or mres["ok"]["cfg"] != impl["out"]:
            report.disagree("pipeline.result", case, impl, mres)
        else:
            new_state = mres["ok"]["state"]
            live = wire_state(env, machine)
            if live != new_state:
                report.disagree("pipeline.machine_state", case, live, new_state)
    else:
        if "err" not in mres or (mres["err"] != out and mres["err"] != "other"):
            report.disagree("pipeline.error", case, impl, mres)
    pipe = user.get("pipeline") if isinstance(user, dict) else None
    steps = list(pipe) if isinstance(pipe, dict) else []
    report.case(key=(label, json.dumps(case, sort_keys=True, default=str)), nontrivial=len(steps) > 0,
                sample={"pipeline": case["user"], "impl": impl["status"]})
    report.count(f"{label}.len_{min(len(steps), 6)}")
    report.count(f"{label}.{'accepted' if status == 'ok' else out}")
    if not ci.same_value(before, user):
        fail(report, "user_dict_untouched", "pipeline_mutated", case, impl)
    else:
        report.hit("user_dict_untouched")
    if fresh and isinstance(user, dict) and isinstance(user.get("pipeline"), dict):
        # the other observation point: PandoraMachine.check_conf called directly on the user's dictionary
        direct = ci.snapshot(user)
        try:
            ci.PandoraMachine().check_conf(direct, lmeta, rmeta)
        except BaseException as exc:  # pylint: disable=broad-except
            if isinstance(exc, (KeyboardInterrupt, SystemExit)):
                raise
        if not ci.same_value(direct, before):
            fail(report, "user_dict_untouched", "machine_check_conf_mutates", case, {"after": ci.to_wire(direct)},
                        "PandoraMachine.check_conf changed the dictionary it was given")
    verdict = model["verdict"]
    if fresh:
        if verdict == "accept":
            report.hit("accepts_inside_domain:pipeline")
            if status != "ok":
                fail(report, "accepts_inside_domain", pipeline_trigger(user, left, right), case, impl,
                            "the documentation accepts every step and parameter of this pipeline")
        elif verdict == "reject":
            report.hit("rejects_outside_domain:pipeline")
            if status == "ok":
                trig = "nan_in_list" if any_nan_list(user) else pipeline_trigger(user, left, right)
                fail(report, "rejects_outside_domain", trig, case, impl, "the documentation refuses this pipeline")
        else:
            report.count("undecided_pipeline")
    if status == "ok" and isinstance(pipe, dict):
        result = out["pipeline"]
        spec = env.lean.call("C05.spec_pipeline", user=ci.to_wire(pipe), result=ci.to_wire(result))
        if fresh:
            report.hit("defaults_added:pipeline")
            if not spec["result_ok"]:
                bad = [n for n, ok in spec["kept"] if not ok]
                fail(report, "user_keys_kept" if bad else "defaults_added", "pipeline:" + (bad[0].split(".")[0] if bad else "completion"),
                            case, impl, f"same_steps={spec['same_steps']} kept={spec['kept']}")
        else:
            report.count("history.same_steps" if spec["same_steps"] else "history.extra_steps")
            bad = [n for n, ok in spec["kept"] if not ok]
            if bad:
                fail(report, "user_keys_kept", "history:" + bad[0].split(".")[0], case, impl)
        # idempotence: the returned configuration, checked again (fresh machine), comes back unchanged
        m2 = ci.PandoraMachine()
        s2, o2 = ci.check_pipeline_section(m2, ci.snapshot(out), lmeta, rmeta)
        report.hit("idempotent")
        if s2 != "ok" or not ci.same_value(o2, out):
            if not fresh and not spec["same_steps"]:
                trig = "reused_machine_stale_steps"
            elif any_nan_list(user):
                trig = "nan_in_list"
            else:
                trig = pipeline_trigger(user, left, right)
            fail(report, "idempotent", trig, case,
                        {"first": impl, "second": [s2, ci.to_wire(o2) if s2 == "ok" else o2]},
                        "checking the returned configuration again does not return it unchanged")
    return status, new_state


def any_nan_list(user):
    pipe = user.get("pipeline") if isinstance(user, dict) else None
    if not isinstance(pipe, dict):
        return False
    return any(isinstance(s, dict) and any(is_nan_list(v) for v in s.values()) for s in pipe.values())


def pipeline_trigger(user, left, right):
    """a short stable tag of the situation (computed from the input only)"""
    pipe = user.get("pipeline") if isinstance(user, dict) else None
    if isinstance(pipe, dict):
        for n, s in pipe.items():
            if n.split(".")[0] == "matching_cost" and isinstance(s, dict):
                b = s.get("band")
                if isinstance(b, str) and len(b) > 1 and b in left["bands"] and b in right["bands"]:
                    return "band_multichar"
    return "pipeline"


PREFIX = {
    "matching_cost": [],
    "aggregation": ["matching_cost"], "cost_volume_confidence": ["matching_cost"], "disparity": ["matching_cost"],
    "filter": ["matching_cost", "disparity"], "refinement": ["matching_cost", "disparity"],
    "validation": ["matching_cost", "disparity"], "multiscale": ["matching_cost", "disparity"],
}
MINIMAL = {"matching_cost": {"matching_cost_method": "sad"}, "disparity": {"disparity_method": "wta"}}


def magic_strings(env: Env, report):
    """every parameter of every method given as "NaN" / "inf" / "-inf" inside a minimal legal pipeline"""
    ci = env.ci
    for kind, k in env.kinds.items():
        mk = METHOD_KEY[kind]
        for c in k["classes"]:
            method = c["names"][0]
            for p in [e[0] for e in c["schema"] if e[0] != mk]:
                for s in ("NaN", "inf", "-inf"):
                    pipe = {n: dict(MINIMAL[n]) for n in PREFIX[kind]}
                    pipe[kind] = {mk: method, p: s}
                    st, _ = check_pipeline(env, report, ci.PandoraMachine(), None, {"pipeline": pipe}, MONO,
                                           {"bands": [None], "disp_source": None}, "magic")
                    report.hit("nan_inf_strings")


def pipelines(env: Env, report):
    ci = env.ci
    rng = env.ctx.rng
    magic_strings(env, report)
    # fixed cases first
    mc = {"matching_cost_method": "zncc", "window_size": 5}
    base = {"matching_cost": mc, "disparity": {"disparity_method": "wta", "invalid_disparity": "NaN"}}
    fixed = [
        ({}, MONO, None),
        ({"pipeline": {}}, MONO, None),
        ({"pipeline": base}, MONO, None),
        ({"pipeline": {**base, "filter": {"filter_method": "median"}, "validation": {"validation_method": "cross_checking_accurate"}}}, MONO, None),
        ({"pipeline": {**base, "validation": {"validation_method": "cross_checking_accurate"}}}, {"bands": [None], "disp_source": "g.tif"}, None),
        ({"pipeline": {**base, "multiscale": {"multiscale_method": "fixed_zoom_pyramid"}}}, {"bands": [None], "disp_source": "g.tif"}, None),
        ({"pipeline": {"matching_cost": {**mc, "band": "g"}, "disparity": {"disparity_method": "wta"}}}, {"bands": ["r", "g", "b"], "disp_source": [-1, 1]}, None),
        ({"pipeline": {"matching_cost": {**mc, "band": "red"}, "disparity": {"disparity_method": "wta"}}}, {"bands": ["red", "nir"], "disp_source": [-1, 1]}, None),
        ({"pipeline": {"matching_cost": {**mc, "band": "x"}}}, {"bands": ["r", "g", "b"], "disp_source": [-1, 1]}, None),
        ({"pipeline": {"matching_cost": mc}}, {"bands": ["r", "g", "b"], "disp_source": [-1, 1]}, None),
        ({"pipeline": {"matching_cost": {**mc, "band": "r"}}}, {"bands": ["r", "g"], "disp_source": [-1, 1]}, {"bands": ["g", "b"], "disp_source": None}),
        ({"pipeline": 5}, MONO, None), ({"pipeline": []}, MONO, None), ({"pipeline": None}, MONO, None),
        ({"pipeline": {"disparity": {"disparity_method": "wta"}}}, MONO, None),
        ({"pipeline": {"matching_cost": mc, "optimization": {"optimization_method": "sgm"}}}, MONO, None),
    ]
    for user, left, right in fixed:
        right = right or {"bands": left["bands"], "disp_source": None}
        check_pipeline(env, report, ci.PandoraMachine(), None, copy.deepcopy(user), left, right, "pipeline")
    for _ in range(env.ctx.n(700, 12000)):
        left, right = random_images(rng)
        user = {"pipeline": random_pipeline(env, rng, left["bands"])}
        check_pipeline(env, report, ci.PandoraMachine(), None, user, left, right, "pipeline")


def histories(env: Env, report):
    ci = env.ci
    rng = env.ctx.rng
    fixed = [[
        {"matching_cost": {"matching_cost_method": "zncc"}, "aggregation": {"aggregation_method": "cbca"},
         "disparity": {"disparity_method": "wta"}, "filter": {"filter_method": "median"}},
        {"matching_cost": {"matching_cost_method": "sad", "window_size": 3}, "disparity": {"disparity_method": "wta"}},
    ]]
    for seq in fixed:
        run_history(env, report, [copy.deepcopy(p) for p in seq], MONO, {"bands": [None], "disp_source": None})
    for _ in range(env.ctx.n(80, 1500)):
        left, right = random_images(rng)
        seq = [random_pipeline(env, rng, left["bands"], p_bad=0.02) for _ in range(rng.choice([2, 2, 3]))]
        run_history(env, report, seq, left, right)


def run_history(env: Env, report, seq, left, right):
    machine = env.ci.PandoraMachine()
    state = {}
    wire_seq = [env.ci.to_wire(p) for p in seq]
    for i, pipe in enumerate(seq):
        status, state = check_pipeline(env, report, machine, state, {"pipeline": pipe}, left, right, "history",
                                       fresh=(i == 0), extra={"sequence": wire_seq[: i + 1]})
        if status != "ok" or state is None:
            break  # behaviour of a machine after a failed check is out of scope (C01)


# --------------------------------------------------------------------------------------------
# C: whole check_conf on files
# --------------------------------------------------------------------------------------------
def materialise(v, files):
    """replace "@name" by the path of that file of the FileSet"""
    if isinstance(v, str) and v.startswith("@"):
        return getattr(files, v[1:])
    if isinstance(v, dict):
        return {k: materialise(x, files) for k, x in v.items()}
    if isinstance(v, list):
        return [materialise(x, files) for x in v]
    return v


def check_conf_case(env: Env, report, user_sym, label="check_conf", state=None, machine=None):
    ci = env.ci
    files = env.fileset()
    user = materialise(user_sym, files)
    case = {"stream": label, "user_symbolic": ci.to_wire(user_sym)}
    before = ci.snapshot(user)
    machine = machine or ci.PandoraMachine()
    status, out = ci.check_conf(machine, user)
    impl = {"status": status, "out": ci.to_wire(out) if status == "ok" else out}
    model = env.lean.call("C05.check_conf", registry=env.registry, flags=env.data["flags"], input_schemas=env.data["input"],
                          files=files.wire(), user=ci.to_wire(user), state=state or {})
    mres = model["res"]
    if status == "ok":
        if "ok" not in mres or mres["ok"]["cfg"] != impl["out"]:
            report.disagree("check_conf.result", case, impl, mres)
    else:
        if "err" not in mres or (mres["err"] != out and mres["err"] != "other"):
            report.disagree("check_conf.error", case, impl, mres)
    report.case(key=(label, json.dumps(case, sort_keys=True, default=str)), nontrivial=True,
                sample={"user": case["user_symbolic"], "impl": impl["status"]})
    report.count(f"{label}.{'accepted' if status == 'ok' else out}")
    if not ci.same_value(before, user):
        fail(report, "user_dict_untouched", "check_conf_mutated", case, impl)
    if status == "ok":
        # every user leaf under input / pipeline keeps its (rewritten) value at the same key path
        report.hit("user_keys_kept:check_conf")
        miss = lost_paths(user, out)
        if miss:
            fail(report, "user_keys_kept", "check_conf:" + miss[0].split("/")[0], case, impl, f"lost or changed: {miss[:3]}")
        # documented input defaults
        report.hit("defaults_added:input")
        for side in ("left", "right"):
            got = out["input"][side]
            uside = user["input"][side]
            for k, d in (("nodata", -9999), ("mask", None), ("classif", None), ("segm", None)):
                if k not in uside and not (k in got and ci.same_value(got[k], d)):
                    fail(report, "defaults_added", f"input.{side}.{k}", case, impl)
        s2, o2 = ci.check_conf(ci.PandoraMachine(), ci.snapshot(out))
        report.hit("idempotent:check_conf")
        if s2 != "ok" or not ci.same_value(o2, out):
            trig = "band_multichar" if False else "check_conf"
            fail(report, "idempotent", trig, case, {"first": impl, "second": [s2, ci.to_wire(o2) if s2 == "ok" else o2]})
    return status, out


def lost_paths(user, out, prefix=""):
    ci_nan = lambda v: {"NaN": NAN, "inf": INF, "-inf": -INF}.get(v, v) if isinstance(v, str) else v  # noqa: E731
    missing = []
    for k, v in user.items():
        if prefix == "" and k not in ("input", "pipeline"):
            continue
        path = f"{prefix}{k}"
        if not isinstance(out, dict) or k not in out:
            missing.append(path)
        elif isinstance(v, dict):
            missing.extend(lost_paths(v, out[k], path + "/"))
        else:
            from ..impl import config_impl as ci

            if not ci.same_value(ci_nan(v), out[k]):
                missing.append(path)
    return missing


def check_confs(env: Env, report):
    rng = env.ctx.rng
    mc = {"matching_cost_method": "zncc"}
    pipe = {"matching_cost": mc, "disparity": {"disparity_method": "wta", "invalid_disparity": "NaN"},
            "filter": {"filter_method": "bilateral"}}
    mono = {"left": {"img": "@img_a", "disp": [-2, 2]}, "right": {"img": "@img_a2"}}
    inputs = [
        mono,
        {"left": {"img": "@img_a", "disp": [-2, 2], "nodata": "NaN", "mask": "@mask_a"}, "right": {"img": "@img_a2", "nodata": 0, "mask": None}},
        {"left": {"img": "@img_a", "disp": "@grid_a"}, "right": {"img": "@img_a2", "disp": "@grid_a_right"}},
        {"left": {"img": "@img_a", "disp": "@grid_a"}, "right": {"img": "@img_a2"}},
        {"left": {"img": "@img_rgb", "disp": [-2, 2]}, "right": {"img": "@img_rgb2"}},
        {"left": {"img": "@img_named", "disp": [0, 2]}, "right": {"img": "@img_named2"}},
        {"left": {"img": "@img_a", "disp": [2, -2]}, "right": {"img": "@img_a2"}},
        {"left": {"img": "@img_a", "disp": [-2, 2]}, "right": {"img": "@img_b"}},
        {"left": {"img": "@missing", "disp": [-2, 2]}, "right": {"img": "@img_a2"}},
        {"left": {"img": "@img_a"}, "right": {"img": "@img_a2"}},
    ]
    pipes = [
        pipe,
        {"matching_cost": {**mc, "band": "r"}, "disparity": {"disparity_method": "wta"}},
        {"matching_cost": {**mc, "band": "red"}, "disparity": {"disparity_method": "wta"}},
        {**pipe, "validation": {"validation_method": "cross_checking_accurate", "cross_checking_threshold": 2}},
        {**pipe, "multiscale": {"multiscale_method": "fixed_zoom_pyramid"}},
        {"matching_cost": {**mc, "window_size": 4}},
        {},
    ]
    for inp in inputs:
        for p in pipes:
            check_conf_case(env, report, {"input": copy.deepcopy(inp), "pipeline": copy.deepcopy(p)})
    check_conf_case(env, report, {"pipeline": copy.deepcopy(pipe), "input": copy.deepcopy(mono)})
    check_conf_case(env, report, {"input": copy.deepcopy(mono)})
    check_conf_case(env, report, {"pipeline": copy.deepcopy(pipe)})
    check_conf_case(env, report, {})
    for _ in range(env.ctx.n(40, 600)):
        inp = copy.deepcopy(rng.choice(inputs[:6]))
        bands = {"@img_rgb": ["r", "g", "b"], "@img_named": ["red", "nir"]}.get(inp["left"]["img"], [None])
        check_conf_case(env, report, {"input": inp, "pipeline": random_pipeline(env, rng, bands, p_bad=0.05)})


# --------------------------------------------------------------------------------------------
# U: update_conf
# --------------------------------------------------------------------------------------------
def random_tree(rng, depth=0):
    n = rng.randrange(0, 4)
    out = {}
    for _ in range(n):
        k = rng.choice(["a", "b", "c", "left", "nodata", "x"])
        r = rng.random()
        if r < 0.35 and depth < 3:
            out[k] = random_tree(rng, depth + 1)
        else:
            out[k] = copy.deepcopy(rng.choice([1, -9999, None, "NaN", "inf", "-inf", "s", 2.5, True, [1, "NaN"], [], NAN]))
    return out


def update_confs(env: Env, report):
    ci = env.ci
    rng = env.ctx.rng
    for _ in range(env.ctx.n(300, 5000)):
        d, u = random_tree(rng), random_tree(rng)
        d0, u0 = ci.snapshot(d), ci.snapshot(u)
        status, out = ci.update_conf(d, u)
        impl = {"status": status, "out": ci.to_wire(out) if status == "ok" else out}
        model = env.lean.call("C05.update_conf", default=ci.to_wire(d), user=ci.to_wire(u), flags=env.data["flags"])
        case = {"stream": "update_conf", "default": ci.to_wire(d0), "user": ci.to_wire(u0)}
        if status == "ok":
            if model.get("ok") != impl["out"]:
                report.disagree("update_conf.result", case, impl, model)
        elif model.get("err") != out:
            report.disagree("update_conf.error", case, impl, model)
        report.case(key=("update_conf", json.dumps(case, sort_keys=True, default=str)), nontrivial=bool(u), sample=None)
        if not (ci.same_value(d, d0) and ci.same_value(u, u0)):
            fail(report, "user_dict_untouched", "update_conf_mutates", case, impl)
        if status == "ok":
            report.hit("nan_inf_strings:update_conf")
            miss = lost_paths_all(u0, out)
            if miss:
                fail(report, "user_keys_kept", "update_conf", case, impl, f"{miss[:3]}")


def lost_paths_all(user, out, prefix=""):
    from ..impl import config_impl as ci

    rewrite = lambda v: {"NaN": NAN, "inf": INF, "-inf": -INF}.get(v, v) if isinstance(v, str) else v  # noqa: E731
    missing = []
    for k, v in user.items():
        path = f"{prefix}{k}"
        if not isinstance(out, dict) or k not in out:
            missing.append(path)
        elif isinstance(v, dict):
            if isinstance(out[k], dict):
                missing.extend(lost_paths_all(v, out[k], path + "/"))
            elif v:
                missing.append(path)
        elif not ci.same_value(rewrite(v), out[k]):
            missing.append(path)
    return missing


# --------------------------------------------------------------------------------------------
# entry points
# --------------------------------------------------------------------------------------------
def replay_case(env: Env, report, case):
    ci = env.ci
    stream = case.get("stream")
    if stream == "probe":
        probe(env, report, case["kind"], ci.from_wire(case["cfg"]), "replay", case.get("left"), case.get("right"))
    elif stream in ("pipeline", "replay", "magic"):
        check_pipeline(env, report, ci.PandoraMachine(), None, ci.from_wire(case["user"]), case["left"], case["right"], "pipeline")
    elif stream == "history":
        # rebuild the machine from the recorded state by replaying is not possible: a history case
        # records the sequence
        seq = case.get("sequence")
        if seq:
            run_history(env, report, [ci.from_wire(p) for p in seq], case["left"], case["right"])
        else:
            m = ci.PandoraMachine()
            st = case.get("state") or {}
            if st.get("pipeline_cfg"):
                m.pipeline_cfg = {"pipeline": ci.from_wire(st["pipeline_cfg"])}
                m.right_disp_map = "cross_checking_accurate" if st.get("right_disp_map") else None
            check_pipeline(env, report, m, st, ci.from_wire(case["user"]), case["left"], case["right"], "history", fresh=not st.get("pipeline_cfg"))
    elif stream == "check_conf":
        check_conf_case(env, report, ci.from_wire(case["user_symbolic"]))
    elif stream == "update_conf":
        pass
    else:
        raise ValueError(f"unknown case stream {stream}")


def run(ctx, report, status):
    env = Env(ctx)
    try:
        report.rule = (
            "every parameter of every built-in method x a 48-value table (boundaries, wrong types, NaN/inf, big ints) "
            "and random pairs through Abstract<Kind>(**cfg); random and fixed pipelines (legal-biased sequencing, random "
            "parameter subsets, band sets, disparity sources) through check_pipeline_section on fresh and reused machines; "
            "check_conf on small raster files; update_conf on random trees. Every case: implementation == Lean model, "
            "documented verdict == accept/reject, result specification, idempotence, user dictionary untouched. "
            "non-trivial = at least one step/parameter; distinct by canonical JSON of the case"
        )
        if env.degraded:
            report.notes.append("the translator could not read the source: no model comparison was made (see build_problems)")
            return
        translator_cross_check(env, report, status)
        for name, case in core.load_corpus(PROP):
            replay_case(env, report, case.get("input", case))
        probes(env, report)
        pipelines(env, report)
        histories(env, report)
        check_confs(env, report)
        update_confs(env, report)
    finally:
        env.close()


def search(ctx, report, status):
    """Directed search after a broken obligation: the boundary table on every parameter of the real
    classes and random pipelines, with the documented domains as oracle."""
    known = core.load_known(PROP)
    env = Env(ctx)
    sub = core.Report(PROP, ctx.tier, ctx.seed)
    try:
        def first_unknown():
            for f in sub.failures:
                if not any(k.get("clause") == f["clause"] and k.get("trigger") == f["trigger"] for k in known):
                    return f
            return None

        # the documentation table (not the source) names the methods and parameters to probe
        for (kind, method), params in env.doc.items():
            mk = METHOD_KEY[kind]
            for p in params:
                for v in VALUES + BOUNDARY.get(p, []) + LEGAL.get(p, []):
                    probe(env, sub, kind, {mk: method, p: copy.deepcopy(v)}, "search")
            probe(env, sub, kind, {mk: method}, "search")
            f = first_unknown()
            if f:
                return f
        rng = ctx.rng
        if env.degraded:
            # pipelines built from the documentation table only
            for _ in range(1500):
                left, right = random_images(rng)
                check_pipeline(env, sub, env.ci.PandoraMachine(), None, {"pipeline": doc_pipeline(env, rng, left["bands"])},
                               left, right, "pipeline")
                f = first_unknown()
                if f:
                    return f
            return None
        for _ in range(3000):
            left, right = random_images(rng)
            check_pipeline(env, sub, env.ci.PandoraMachine(), None, {"pipeline": random_pipeline(env, rng, left["bands"])},
                           left, right, "pipeline")
            f = first_unknown()
            if f:
                return f
        for _ in range(300):
            left, right = random_images(rng)
            seq = [random_pipeline(env, rng, left["bands"], p_bad=0.02) for _ in range(2)]
            run_history(env, sub, seq, left, right)
            f = first_unknown()
            if f:
                return f
        return None
    finally:
        env.close()


def replay(ctx, report, path):
    with open(path, encoding="utf-8") as f:
        data = json.load(f)
    case = data.get("input", data)
    env = Env(ctx)
    try:
        replay_case(env, report, case)
    finally:
        env.close()
    for fl in report.failures:
        print("spec failure:", fl["clause"], fl["trigger"], json.dumps(fl["case"], default=str)[:500])
        print("   implementation:", json.dumps(fl["impl"], default=str)[:500])
    for d in report.disagreements:
        print("disagreement:", json.dumps(d, default=str)[:800])
    print("replayed: failures=%d disagreements=%d" % (len(report.failures), len(report.disagreements)))
    return 1 if report.failures else 0
