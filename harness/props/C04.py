"""C04 — validity flags, NaN costs and invalid disparities tell one coherent story.

Three streams, all against the real Pandora code (harness/impl/criteria_pipeline.py):
  A. criteria: image pairs with masks -> real `matching_cost` (+ `disparity`) steps through the real
     PandoraMachine; the mask returned by `criteria.validity_mask`, the mask after `cv_masked`, the NaN
     pattern of the cost volume and the disparity map are compared with the Lean model
     (Model/Criteria.lean) cell by cell, and the Lean specification is evaluated on them.
  B. pipelines: random legal pipelines of post-disparity steps (repeated refinement / filter /
     validation with and without interpolation); every observed mask transition is compared with the
     model of the flag arithmetic (Model/FlagSteps.lean) and checked against the specification.
  C. kernels: the two interpolations, the cross-checking and the refinement loop called directly on
     crafted flag arrays (every documented bit combination, also the unreachable ones).
  W. wide intervals: `criteria.validity_mask` (then `mask_invalid_variable_disparity_range`, `mask_border`) called
     directly on narrow cost-volume datasets whose global interval holds 255 / 256 / 257 / 300 / 513 integer
     disparities (all three sign cases, a fully masked and a fully nodata line in the right mask): the widths at which
     a narrow per-pixel counter would wrap (seed C04-6).  The full matching cost refuses disparities beyond the image
     width, so the cost volume here is synthetic: NaN exactly where the model says the cost is not computable.
"""
from __future__ import annotations

import ast
import inspect
import itertools
import json
import textwrap

import numpy as np

from .. import core

PROP = "C04"
BITS_PRE = (1, 2, 4, 64, 128)


def translate():
    from translator import registry

    # Constants, FlagOps; and the decisions of criteria.py regenerated expression by expression
    # (translator/gen_kernels_criteria.py -> Generated/KernelsCriteria.lean, Properties/C04Kernels.lean)
    return registry.generate("Constants", "FlagOps", "KernelsCriteria")


# --------------------------------------------------------------------------------------------
# translator cross-check and the operators of the source
# --------------------------------------------------------------------------------------------
def ops_of_sites(sites):
    """`add` unless every bit-raising site of the group is written with `|=` (mirrors Properties/C04.lean)"""

    def grp(funcs):
        ops = [s["op"] for s in sites if s["func"] in funcs and s["op"] != "sub"]
        return "or" if ops and all(o == "or" for o in ops) else "add"

    return {
        "refine": grp({"loop_refinement", "loop_approximate_refinement"}),
        "cc": grp({"disparity_checking"}),
        "fill": grp({"interpolate_occlusion_mc_cnn", "interpolate_mismatch_mc_cnn", "interpolate_occlusion_sgm", "interpolate_mismatch_sgm"}),
        "reg": grp({"filter_disparity"}),
    }


def live_function(rel, cls, func):
    import importlib

    mod = importlib.import_module(rel[:-3].replace("/", "."))
    obj = getattr(mod, cls) if cls else mod
    f = inspect.getattr_static(obj, func) if cls else getattr(obj, func)
    if isinstance(f, (staticmethod, classmethod)):
        f = f.__func__
    f = getattr(f, "py_func", f)
    while hasattr(f, "__wrapped__"):
        f = f.__wrapped__
    return f


def translator_cross_check(report, status):
    """the sites read from the source text equal the sites of the live (imported) functions, and the
    generated constants equal the live constants"""
    from translator import gen_constants, gen_flagops

    try:
        data = gen_flagops.extract()
        consts = gen_constants.extract()
    except Exception:  # already reported by build_and_audit
        return {"refine": "add", "cc": "add", "fill": "add", "reg": "or"}
    import pandora.constants as cst

    report.translator_checks += 1
    live_c = {k: getattr(cst, k) for k in dir(cst) if k.startswith("PANDORA_MSK_")}
    if live_c != consts:
        status.problem("translator", "generated constants differ from the live pandora.constants")
    live_sites = []
    try:
        for rel, cls, func in gen_flagops.FUNCTIONS:
            src = textwrap.dedent(inspect.getsource(live_function(rel, cls, func)))
            fn = ast.parse(src).body[0]
            for op, rhs in gen_flagops.sites_of(fn, func):
                live_sites.append({"func": func, "op": op, "rhs": rhs})
        report.translator_checks += 1
        if live_sites != data["sites"]:
            status.problem("translator", "flag sites read from the source differ from the live functions")
    except Exception as exc:  # pylint: disable=broad-except
        status.problem("translator", f"cannot read the live flag sites: {type(exc).__name__}: {exc}")
    return ops_of_sites(data["sites"])


# --------------------------------------------------------------------------------------------
# the regenerated decisions of criteria.py (translator/gen_kernels_criteria.py): the translator's reading against
# the REAL functions, cell by cell
# --------------------------------------------------------------------------------------------
def crit_geometries(rng, count):
    """(rows, cols, col0, off, dmin, dmax, subpix, left mask style, right mask style): the three sign cases, an end at 0,
    single disparities, offsets 0-2, ROI coordinates not starting at 0, images narrower than the interval and than the
    window, intervals entirely beyond the image"""
    out = []
    for off in (0, 1, 2):
        for col0 in (0, 3, 10):
            for cols in (1, 2, 3, 5, 8):
                for a, b in ((-3, -1), (-1, -1), (-9, -7), (1, 3), (2, 2), (7, 9), (-2, 2), (0, 0), (-2, 0), (0, 3), (-6, 6),
                             (-4, -1), (1, 5)):
                    out.append((rng.randrange(1, 4), cols, col0, off, a, b, rng.choice([1, 1, 2, 4])))
    rng.shuffle(out)
    out = out[: max(count, 300)]
    while len(out) < count:
        cols = rng.randrange(1, 11)
        a = rng.randrange(-cols - 3, cols + 3)
        out.append((rng.randrange(1, 5), cols, rng.choice([0, 2, 5, 117]), rng.randrange(0, 3), a, a + rng.randrange(0, 6),
                    rng.choice([1, 2, 4])))
    return out


def kernels_cross_check(ctx, report, status):
    """every run: (1) the generator's self-test (refused constructs, accepted expressions against numpy's own reading,
    the slice reading against Python's slicing); (2) `pyexpr.evaluate` on the regenerated kernels against the REAL
    `validity_mask` (with and without masks: validityMaskCol, allocLeftPx, rightMaskCell + the fold of rightIterPx over
    range(*rightLoopBounds), reading the right cells at the gathered column — the composition Properties/C04KernelsComp.lean
    proves equal to the model), `mask_invalid_variable_disparity_range`
    and `mask_border`, cell by cell"""
    from fractions import Fraction  # noqa: F401

    from translator import gen_kernels_criteria as gk
    from translator import pyexpr
    from translator.common import Unsupported

    from ..impl import criteria_pipeline as cp

    try:
        for what in gk.selftest_problems():
            status.problem("translator", f"gen_kernels_criteria self-test: {what}")
        report.translator_checks += 1
        ks, errors = gk.kernels()
    except Unsupported:
        return
    except Exception as exc:  # pylint: disable=broad-except
        status.problem("translator", f"gen_kernels_criteria crashed: {type(exc).__name__}: {exc}")
        return
    if errors:
        return  # already reported by build_and_audit (the kernel is not translated)
    from pandora import criteria

    def ev(name, *args):
        res, vals = pyexpr.evaluate(ks[name], *args)
        if res != "ok":
            raise RuntimeError(f"{name}{args}: {res}")
        return vals

    rng = ctx.rng
    n_cells = 0
    problems = 0

    def problem(msg):
        nonlocal problems
        problems += 1
        if problems <= 5:
            status.problem("translator", msg)

    geos = crit_geometries(rng, ctx.n(320, 1500))
    signs = set()
    for gi, (rows, cols, col0, off, a, b, subpix) in enumerate(geos):
        signs.add("neg" if b < 0 else "pos" if a > 0 else "straddle")
        masked = gi % 2 == 1
        vv, nd, inv = rng.choice([[0, 1, [2]], [0, 1, [2, 3, 255]], [5, 7, [0, 1, 9]]])
        ml = gen_mask(rng, rows, cols, rng.choice(["none", "sparse", "dense", "columns", "border"])) if masked else None
        mr = gen_mask(rng, rows, cols, rng.choice(["sparse", "dense", "columns", "border", "all_invalid"])) if masked else None
        im = np.zeros((rows, cols), dtype=np.float32)
        left = cp.make_image(im, ml, col0=col0, valid_value=vv, nodata_value=nd, invalid_values=tuple(inv))
        right = cp.make_image(im, mr, col0=col0, valid_value=vv, nodata_value=nd, invalid_values=tuple(inv))
        cv = crit_cv(rows, cols, col0, off, a, b, subpix)
        geo = {"rows": rows, "cols": cols, "col0": col0, "offset": off, "interval": [a, b], "subpix": subpix, "masks": masked}
        try:
            real = np.array(criteria.validity_mask(left, right, cv)["validity_mask"].data)
        except Exception as exc:  # pylint: disable=broad-except
            real = f"{type(exc).__name__}"
        try:
            want = np.zeros((rows, cols), dtype=np.int64)
            dil_l = criteria.binary_dilation_msk(left, 2 * off + 1) if ml is not None else None
            dil_r = criteria.binary_dilation_msk(right, 2 * off + 1) if mr is not None else None
            for c in range(cols):
                flag0, bit1 = ev("validityMaskCol", col0 + c, col0, col0 + cols - 1, a, b, off)
                for r in range(rows):
                    f = flag0
                    if ml is not None:
                        f = ev("allocLeftPx", f, bool(dil_l[r, c]), int(left["msk"].data[r, c]), nd, vv)[0]
                    if mr is not None:
                        b27, ndr = 0, 0
                        lo, hi = ev("rightLoopBounds", a, b)  # the translated bounds of `for dsp in range(LO, HI)`
                        for dsp in range(lo, hi):
                            g = ev("rightIterPx", c, 0, cols - 1, dsp, off, a, b, bit1, 0, False, b27, ndr, f)[3]
                            inside = -cols <= g < cols  # numpy's own index rule (a negative index wraps)
                            rm = ev("rightMaskCell", int(right["msk"].data[r, g]), nd, vv)[0] if inside else 0
                            dl = bool(dil_r[r, g]) if inside else False
                            if ev("validIndex", c, 0, cols - 1, dsp, off)[0] and not inside:
                                raise IndexError("the translated valid_index reads outside the image")
                            b27, ndr, f, _ = ev("rightIterPx", c, 0, cols - 1, dsp, off, a, b, bit1, rm, dl, b27, ndr, f)
                    want[r, c] = f
                    n_cells += 1
        except Exception as exc:  # pylint: disable=broad-except
            want = f"{type(exc).__name__}"
        if isinstance(real, str) or isinstance(want, str):
            if not (isinstance(real, str) and isinstance(want, str)):
                problem(f"validity_mask: real function -> {real if isinstance(real, str) else 'a mask'}, translated kernels -> "
                        f"{want if isinstance(want, str) else 'a mask'} on {geo}")
            continue
        if real.shape != want.shape or (real != want).any():
            d = first_diff(real, want)
            problem(f"translated criteria kernels evaluate differently from the real validity_mask on {geo}: {d}")
    report.count("kernels_geometries", len(geos))
    for sgn in signs:
        report.count("kernels_sign_" + sgn)
    if len(signs) < 3:
        status.problem("translator", "kernels cross-check: a sign case of the interval was not generated")
    # mask_invalid_variable_disparity_range and mask_border
    for k in range(ctx.n(40, 200)):
        rows, cols = rng.randrange(1, 8), rng.randrange(1, 8)
        off = rng.choice([0, 1, 1, 2, 3])
        flags = np.array([[rng.choice([0, 2, 4, 6, 64, 66, 70, 128, 130, 134, 192, 255, 1, 3]) for _ in range(cols)] for _ in range(rows)],
                         dtype=np.int64)
        cv = crit_cv(rows, cols, 0, off, -1, 1, 1)
        data = np.zeros((rows, cols, 3), dtype=np.float32)
        allnan = np.array([[rng.random() < 0.4 for _ in range(cols)] for _ in range(rows)])
        data[allnan] = np.nan
        part = np.array([[rng.random() < 0.3 for _ in range(cols)] for _ in range(rows)]) & ~allnan
        data[part, 0] = np.nan
        cv["cost_volume"].data[:] = data
        import xarray as xr

        cv["validity_mask"] = xr.DataArray(flags.copy(), dims=["row", "col"])
        criteria.mask_invalid_variable_disparity_range(cv)
        got = np.array(cv["validity_mask"].data)
        want = np.array([[ev("maskInvalidPx", int(flags[r, c]))[0] if allnan[r, c] else int(flags[r, c]) for c in range(cols)]
                         for r in range(rows)]).reshape(rows, cols)
        if (got != want).any():
            problem(f"translated mask_invalid_variable_disparity_range differs from the real function: {first_diff(got, want)} "
                    f"flags={flags.tolist()} all_nan={allnan.tolist()}")
        cv["validity_mask"] = xr.DataArray(flags.copy(), dims=["row", "col"])
        got = np.array(criteria.mask_border(cv).data)
        want = np.array([[ev("maskBorderPx", r, c, rows, cols, off, int(flags[r, c]))[0] for c in range(cols)] for r in range(rows)]
                        ).reshape(rows, cols)
        if (got != want).any():
            problem(f"translated mask_border differs from the real function: {first_diff(got, want)} rows={rows} cols={cols} "
                    f"offset={off}")
        n_cells += 2 * rows * cols
    report.translator_checks += 2
    report.count("kernels_cells_compared", n_cells)


# --------------------------------------------------------------------------------------------
# generators
# --------------------------------------------------------------------------------------------
def gen_mask(rng, rows, cols, style):
    """classes 0 valid / 1 nodata / 2 invalid"""
    if style == "none":
        return None
    m = [[0] * cols for _ in range(rows)]
    if style in ("sparse", "dense"):
        p = 0.12 if style == "sparse" else 0.45
        for r in range(rows):
            for c in range(cols):
                if rng.random() < p:
                    m[r][c] = rng.choice([1, 2, 2])
    elif style == "columns":  # full columns / rows of one class: "every candidate masked" situations
        for c in range(cols):
            if rng.random() < 0.35:
                cls = rng.choice([1, 2])
                for r in range(rows):
                    m[r][c] = cls
        if rng.random() < 0.4:
            r = rng.randrange(rows)
            cls = rng.choice([1, 2])
            for c in range(cols):
                m[r][c] = cls
    elif style == "border":  # blobs touching the borders
        for _ in range(rng.randrange(1, 4)):
            cls = rng.choice([1, 2])
            r0 = rng.choice([0, rows - 1, rng.randrange(rows)])
            c0 = rng.choice([0, cols - 1, rng.randrange(cols)])
            for dr in range(rng.randrange(1, 3)):
                for dc in range(rng.randrange(1, 3)):
                    if 0 <= r0 + dr < rows and 0 <= c0 + dc < cols:
                        m[r0 + dr][c0 + dc] = cls
    elif style == "all_invalid":
        m = [[2] * cols for _ in range(rows)]
    elif style == "all_nodata":
        m = [[1] * cols for _ in range(rows)]
    return m


def gen_interval(rng, cols):
    kind = rng.choice(["neg", "pos", "straddle", "straddle", "single", "wide", "zero_end"])
    if kind == "neg":
        b = -rng.randrange(1, 4)
        a = b - rng.randrange(0, 4)
    elif kind == "pos":
        a = rng.randrange(1, 4)
        b = a + rng.randrange(0, 4)
    elif kind == "straddle":
        a = -rng.randrange(0, 4)
        b = rng.randrange(0, 4)
    elif kind == "single":
        a = b = rng.randrange(-3, 4)
    elif kind == "wide":
        a = -cols - rng.randrange(0, 3) if rng.random() < 0.6 else rng.randrange(-2, 1)
        b = cols + rng.randrange(0, 3) if rng.random() < 0.6 else rng.randrange(0, 3)
        if a > b:
            a, b = b, a
    else:  # an end exactly at 0
        if rng.random() < 0.5:
            a, b = -rng.randrange(1, 4), 0
        else:
            a, b = 0, rng.randrange(1, 4)
    return a, b


def gen_criteria_case(rng, big=False, validation=None):
    win = rng.choice([1, 3, 3, 3, 5])
    rows = rng.randrange(1, 8) if not big else rng.randrange(2, 12)
    cols = rng.randrange(2, 11) if not big else rng.randrange(6, 15)
    if rng.random() < 0.7:  # mostly images with a non-empty interior
        rows = max(rows, win)
        cols = max(cols, win + 1)
    a, b = gen_interval(rng, cols)
    measure = rng.choice(["sad", "sad", "ssd", "census", "zncc"])
    if measure == "census" and win == 1:
        win = 3
        rows, cols = max(rows, 3), max(cols, 4)
    if measure == "zncc" and win == 1:
        measure = "sad"
    subpix = rng.choice([1, 1, 2, 4])
    rows, cols = max(rows, win), max(cols, win)
    styles = ["none", "sparse", "dense", "columns", "border", "all_invalid", "all_nodata"]
    weights = [3, 5, 2, 4, 4, 1, 1]
    ml = gen_mask(rng, rows, cols, rng.choices(styles, weights)[0])
    mr = gen_mask(rng, rows, cols, rng.choices(styles, weights)[0])
    grids = None
    if rng.random() < 0.3:
        gmin = [[rng.randrange(a, b + 1) for _ in range(cols)] for _ in range(rows)]
        gmax = [[rng.randrange(gmin[r][c], b + 1) for c in range(cols)] for r in range(rows)]
        grids = [gmin, gmax]
    case = {
        "kind": "criteria",
        "rows": rows,
        "cols": cols,
        "window": win,
        "dmin": a,
        "dmax": b,
        "subpix": subpix,
        "measure": measure,
        "mask_left": ml,
        "mask_right": mr,
        "grids": grids,
        "invalid_disparity": -9999,
        "col0": rng.choice([0, 0, 0, 3]),
        "codes": rng.choice([[0, 1, [2]], [0, 1, [2, 3, 255]], [5, 7, [0, 1, 9]]]),
        "validation": (rng.random() < 0.5) if validation is None else validation,
        "im_seed": rng.randrange(1 << 30),
    }
    return legalise(rng, case)


def legalise(rng, case):
    """keep the case inside what the cost-volume kernels accept and inside the quantifier of the property:
    * the kernels raise on images smaller than the window and on disparities beyond the image width
      (sad/ssd: |d| > cols; census/zncc: |d| > cols - 2*offset) -- outside this property, see DESIGN_NOTES/C04.md;
    * invalid_disparity is NaN or lies outside the searched interval of both sides ([dmin, dmax] and [-dmax, -dmin])."""
    win = case["window"]
    case["rows"], case["cols"] = max(case["rows"], win), max(case["cols"], win)
    lim = case["cols"] if case["measure"] in ("sad", "ssd") else case["cols"] - (win - 1)
    a, b = max(case["dmin"], -lim), min(case["dmax"], lim)
    if a > b:
        a = b = max(-lim, min(lim, case["dmin"]))
    case["dmin"], case["dmax"] = a, b
    if case["grids"] is not None:
        gmin = [[min(max(v, a), b) for v in row] for row in case["grids"][0]]
        gmax = [[min(max(v, gmin[r][c]), b) for c, v in enumerate(row)] for r, row in enumerate(case["grids"][1])]
        case["grids"] = [gmin, gmax]
    for k in ("mask_left", "mask_right"):
        m = case[k]
        if m is not None and (len(m) != case["rows"] or len(m[0]) != case["cols"]):
            case[k] = gen_mask(rng, case["rows"], case["cols"], "sparse")
    big = max(abs(a), abs(b))
    case["invalid_disparity"] = rng.choice([-9999, -9999, "NaN", big + 3, -big - 2, big + 1.5, -big - 0.25])
    return case


POST_KINDS = ["filter_median", "filter_bilateral", "filter_intervals", "refinement_vfit", "refinement_vfit", "validation",
              "validation_mc_cnn", "validation_sgm"]


def gen_pipeline_case(rng):
    case = gen_criteria_case(rng, big=True, validation=True)
    case["kind"] = "pipeline"
    case["measure"] = rng.choice(["sad", "ssd", "census"]) if case["window"] > 1 else rng.choice(["sad", "ssd"])
    case["rows"] = max(case["rows"], case["window"] + 2)
    case["cols"] = max(case["cols"], case["window"] + 4)
    for k in ("mask_left", "mask_right"):
        case[k] = gen_mask(rng, case["rows"], case["cols"], rng.choice(["none", "sparse", "border", "columns"]))
    if case["grids"] is not None:
        case["grids"] = None
    if case["dmax"] - case["dmin"] < 2 and rng.random() < 0.7:  # refinement needs an interior sample
        case["dmin"], case["dmax"] = -2, 2
    n = rng.randrange(1, 6)
    case["post"] = [rng.choice(POST_KINDS) for _ in range(n)]
    if rng.random() < 0.35:  # planted repeats
        k = rng.choice(["refinement_vfit", "validation_mc_cnn", "validation_sgm", "validation", "filter_median"])
        case["post"] = [k, k] + case["post"][:2]
    case["threshold"] = rng.choice([0, 0, 1, 1, 2])
    case["amb_threshold"] = rng.choice([0.6, 0.9, 1.0])
    return legalise(rng, case)


# --------------------------------------------------------------------------------------------
# running a case on the implementation
# --------------------------------------------------------------------------------------------
def build_images(case):
    from ..impl import criteria_pipeline as cp

    rows, cols = case["rows"], case["cols"]
    g = np.random.default_rng(case["im_seed"])
    base = g.integers(0, 12, size=(rows, cols + 8))
    shift = 1
    left_im = base[:, 4 : 4 + cols]
    right_im = base[:, 4 - shift : 4 - shift + cols] + g.integers(0, 2, size=(rows, cols))
    if case["grids"] is None:
        gmin = np.full((rows, cols), case["dmin"])
        gmax = np.full((rows, cols), case["dmax"])
    else:
        gmin, gmax = np.array(case["grids"][0]), np.array(case["grids"][1])
    vv, nd, inv = case["codes"]
    left = cp.make_image(left_im, case["mask_left"], gmin, gmax, col0=case["col0"], valid_value=vv, nodata_value=nd,
                         invalid_values=tuple(inv), source=[case["dmin"], case["dmax"]])
    right = cp.make_image(right_im, case["mask_right"], col0=case["col0"], valid_value=vv, nodata_value=nd,
                          invalid_values=tuple(inv))
    return left, right


def pipeline_cfg(case):
    pipe = {
        "matching_cost": {"matching_cost_method": case["measure"], "window_size": case["window"], "subpix": case["subpix"]},
    }
    if "filter_intervals" in case.get("post", []):  # median_for_intervals needs the interval bounds and the ambiguity
        pipe["cost_volume_confidence"] = {"confidence_method": "ambiguity", "eta_max": 0.7, "eta_step": 0.01}
        pipe["cost_volume_confidence.int"] = {"confidence_method": "interval_bounds"}
    pipe["disparity"] = {"disparity_method": "wta", "invalid_disparity": case["invalid_disparity"]}
    counts = {}
    has_validation = False
    for k in case.get("post", []):
        kind = k.split("_")[0]
        i = counts.get(kind, 0)
        counts[kind] = i + 1
        name = kind if i == 0 else f"{kind}.{i}"
        if k == "filter_median":
            pipe[name] = {"filter_method": "median", "filter_size": 3}
        elif k == "filter_bilateral":
            pipe[name] = {"filter_method": "bilateral", "sigma_color": 2.0, "sigma_space": 6.0}
        elif k == "filter_intervals":
            pipe[name] = {"filter_method": "median_for_intervals", "interval_indicator": "int", "regularization": True,
                          "ambiguity_threshold": case.get("amb_threshold", 0.9), "ambiguity_kernel_size": 3}
        elif k.startswith("refinement"):
            pipe[name] = {"refinement_method": k.split("_", 1)[1]}
        else:
            has_validation = True
            pipe[name] = {"validation_method": "cross_checking_accurate", "cross_checking_threshold": case.get("threshold", 1)}
            if k == "validation_mc_cnn":
                pipe[name]["interpolated_disparity"] = "mc-cnn"
            elif k == "validation_sgm":
                pipe[name]["interpolated_disparity"] = "sgm"
    if case.get("validation") and not has_validation:
        pipe["validation"] = {"validation_method": "cross_checking_accurate"}
    return pipe


def side_payload(case, side, cvsnap):
    """the Lean input for one side (left, or right = the mirrored problem the machine sets up)"""
    rows, cols = case["rows"], case["cols"]
    dc = cvsnap["disp_coords"]
    dmin, dmax = int(dc[0]), int(dc[-1])
    if case["grids"] is None:
        gmin = [[case["dmin"]] * cols for _ in range(rows)]
        gmax = [[case["dmax"]] * cols for _ in range(rows)]
    else:
        gmin, gmax = case["grids"]
    if side == "left":
        ml, mr = case["mask_left"], case["mask_right"]
        pmin, pmax = gmin, gmax
    else:
        ml, mr = case["mask_right"], case["mask_left"]
        pmin = [[-v for v in row] for row in gmax]
        pmax = [[-v for v in row] for row in gmin]
    return {
        "rows": rows,
        "cols": cols,
        "off": cvsnap["offset"],
        "col0": int(cvsnap["col_coords"][0]),
        "dmin": dmin,
        "dmax": dmax,
        "subpix": case["subpix"],
        "mask_left": ml,
        "mask_right": mr,
        "pix_min": pmin,
        "pix_max": pmax,
    }


def invalid_value(case):
    v = case["invalid_disparity"]
    return "nan" if isinstance(v, str) else core.enc(float(np.float32(v)))


def grid(a):
    return [[int(v) for v in row] for row in a]


def first_diff(a, b):
    a = np.asarray(a)
    b = np.asarray(b)
    if a.shape != b.shape:
        return {"shape_impl": list(a.shape), "shape_model": list(b.shape)}
    idx = np.argwhere(a != b)
    if len(idx) == 0:
        return None
    i = tuple(int(x) for x in idx[0])
    return {"at": list(i), "impl": a[i].item(), "model": b[i].item(), "n": int(len(idx))}


def fail_limited(report, clause, trigger, case, impl, detail, per_pair=3):
    """`core.Report` keeps at most 200 failures: report at most `per_pair` of each (clause, trigger) so that a flood of
    occurrences of one situation can never push a different one out of the report"""
    counts = report.__dict__.setdefault("_c04_counts", {})
    n = counts.get((clause, trigger), 0)
    counts[(clause, trigger)] = n + 1
    report.count(f"spec_failure:{clause}:{trigger}")
    if n < per_pair:
        report.fail(clause, trigger, case, impl, detail)


def pre_trigger(clause, payload, r, c):
    """a stable tag naming the situation of a failing pixel (input only)"""
    off, rows, cols = payload["off"], payload["rows"], payload["cols"]
    border = off > 0 and (r < off or r + off >= rows or c < off or c + off >= cols)
    sign = "neg" if payload["dmax"] < 0 else ("pos" if payload["dmin"] > 0 else "straddle")
    return f"{'border' if border else 'interior'}_{sign}_sub{payload['subpix']}"


def check_criteria_side(ctx, report, case, side, stage1, cvsnap, dispsnap, label):
    payload = side_payload(case, side, cvsnap)
    model = ctx.lean.call("C04.criteria", **payload)
    rc = {"case": case, "side": side}
    # ---- correspondence
    d = first_diff(stage1, np.array(model["stage1"]).reshape(np.asarray(stage1).shape))
    if d:
        report.disagree("validity_mask(stage1)", rc, d, None)
    d = first_diff(cvsnap["mask"], np.array(model["final"]).reshape(cvsnap["mask"].shape))
    if d:
        report.disagree("validity_mask(after cv_masked)", rc, d, None)
    nan_impl = np.isnan(cvsnap["cv"])
    nan_model = np.array(model["nan"], dtype=bool).reshape(nan_impl.shape) if nan_impl.size else nan_impl
    d = first_diff(nan_impl, nan_model)
    if d:
        report.disagree("cost volume NaN pattern", rc, d, None)
    nan_all = nan_impl.all(axis=2)
    inv = invalid_value(case)
    disp_enc = None
    if dispsnap is not None:
        d = first_diff(dispsnap["mask"], cvsnap["mask"])
        if d:
            fail_limited(report, "later_steps_own_bits", "disparity_step_changes_mask", rc, d, "the disparity step must copy the mask")
        disp_enc = [[core.enc(float(v)) for v in row] for row in dispsnap["disp"]]
        is_max = cvsnap["type_measure"] == "max"
        md = ctx.lean.call(
            "C04.to_disp", cv=[[[core.enc(float(v)) for v in px] for px in row] for row in cvsnap["cv"]],
            is_max=is_max, dmin=payload["dmin"], subpix=payload["subpix"], invalid_disp=inv,
        )
        if md != disp_enc:
            bad = [(r, c) for r in range(len(md)) for c in range(len(md[0])) if md[r][c] != disp_enc[r][c]]
            report.disagree("disparity map (wta + invalid value)", rc, {"at": bad[:3], "impl": [disp_enc[r][c] for r, c in bad[:3]]},
                            [md[r][c] for r, c in bad[:3]])
    # ---- specification on the implementation's outputs
    fails = ctx.lean.call("C04.spec_pre", mask=grid(cvsnap["mask"]), nan_all=[[bool(v) for v in row] for row in nan_all],
                          disp=disp_enc, invalid_disp=inv, **payload)
    for cl, r, c, f in fails:
        fail_limited(report, cl, pre_trigger(cl, payload, r, c), rc, {"pixel": [r, c], "flag": f, "side": side},
                     f"clause {cl} false at pixel ({r},{c}) flag={f}")
    # ---- bookkeeping
    m = cvsnap["mask"]
    off = payload["off"]
    interior = m[off : m.shape[0] - off, off : m.shape[1] - off] if off else m
    for bit, name in ((1, "bit0_cause"), (2, "bit1_cause"), (4, "bit2_cause"), (64, "bit6_cause"), (128, "bit7_cause")):
        n = int(((interior & bit) != 0).sum())
        if n:
            report.hit(name, n)
    if off and m.size:
        report.hit("border_bit0_only", int(m.size - interior.size))
    report.hit("invalid_iff_all_nan", int(nan_all.sum()))
    if dispsnap is not None:
        report.hit("invalid_iff_invalid_disp", int(m.size))
    return payload


def run_criteria_case(ctx, report, case, label):
    from ..impl import criteria_pipeline as cp

    left, right = build_images(case)
    pipe = pipeline_cfg(case)
    out = cp.run_pipeline(left, right, pipe)
    key = json.dumps({k: case[k] for k in ("rows", "cols", "window", "dmin", "dmax", "subpix", "mask_left", "mask_right", "grids", "col0")}, sort_keys=True)
    if out["error"] is not None:
        report.count("error:" + out["error"].split(":")[0])
        report.case(key=None, nontrivial=False)
        report.notes.append(f"{label}: {out['error'][:200]}") if len(report.notes) < 10 else None
        return out
    steps = dict(out["steps"])
    mc = steps["matching_cost"]
    dsp = steps["disparity"]
    check_criteria_side(ctx, report, case, "left", out["stage1"][0], mc["left_cv"], dsp["left"], label)
    if mc["right_cv"] is not None and len(out["stage1"]) > 1:
        check_criteria_side(ctx, report, case, "right", out["stage1"][1], mc["right_cv"], dsp["right"], label)
        report.count("right_side")
    nontrivial = case["mask_left"] is not None or case["mask_right"] is not None or case["dmin"] > 0 or case["dmax"] < 0
    report.case(key=key, nontrivial=nontrivial,
                sample={"rows": case["rows"], "cols": case["cols"], "window": case["window"], "interval": [case["dmin"], case["dmax"]],
                        "subpix": case["subpix"], "measure": case["measure"], "final_mask_left": grid(mc["left_cv"]["mask"])})
    report.count(f"window_{case['window']}")
    report.count(f"subpix_{case['subpix']}")
    report.count(f"measure_{case['measure']}")
    report.count("interval_" + ("neg" if case["dmax"] < 0 else "pos" if case["dmin"] > 0 else "straddle"))
    report.count("grids" if case["grids"] else "scalar_interval")
    return out


# ---- stream B -------------------------------------------------------------------------------
def repeat_trigger(kinds_so_far):
    """which bit-raising step kinds have run at least twice up to (and including) the current step"""
    rep = []
    if sum(1 for k in kinds_so_far if k == "refinement") >= 2:
        rep.append("refinement")
    if sum(1 for k in kinds_so_far if k in ("mc_cnn", "sgm")) >= 2:
        rep.append("interpolation")
    return "repeated_" + "+".join(rep) if rep else None


def check_step(ctx, report, ops, case, side, kind, off, before, after, history, label, spec=True):
    res = ctx.lean.call("C04.step", kind=kind, ops=ops, off=off, before=grid(before), after=grid(after))
    rc = {"case": case, "side": side, "step_index": len(history) - 1, "step_kind": kind}
    if res["exact"] is not None and res["exact"] != grid(after):
        report.disagree(f"flags after {kind}", rc, first_diff(after, np.array(res["exact"])), None)
    elif res["not_in_outcomes"]:
        r, c, f, a = res["not_in_outcomes"][0]
        report.disagree(f"flags after {kind}: not a model outcome", rc, {"pixel": [r, c], "before": f, "after": a}, None)
    if spec:
        rep = repeat_trigger(history)
        for cl, r, c, f, a in res["failing"]:
            trig = rep if rep else f"single_{kind}"
            if cl == "border_bit0_only" and "filter_intervals" in history:
                trig = "border_regularized"
            fail_limited(report, cl, trig, rc, {"pixel": [r, c], "before": f, "after": a, "side": side},
                         f"{kind}: flag {f} -> {a} at ({r},{c}) violates {cl}")
    changed = int((np.asarray(before) != np.asarray(after)).sum())
    if changed:
        report.hit(f"later_steps_own_bits:{kind}", changed)
    return res


def run_pipeline_case(ctx, report, ops, case, label):
    from ..impl import criteria_pipeline as cp

    left, right = build_images(case)
    pipe = pipeline_cfg(case)
    rec = []
    with cp.observed_cross_checking(rec):
        out = cp.run_pipeline(left, right, pipe)
    key = json.dumps({k: case[k] for k in ("rows", "cols", "window", "dmin", "dmax", "subpix", "mask_left", "mask_right", "post", "threshold", "im_seed")}, sort_keys=True)
    if out["error"] is not None:
        report.count("error:" + out["error"].split(":")[0])
        report.case(key=None, nontrivial=False)
        if len(report.notes) < 10:
            report.notes.append(f"{label}: {out['error'][:200]}")
        return out
    steps = out["steps"]
    if len(steps) > [n for n, _ in steps].index("disparity") + 1:
        report.hit("later_steps_own_bits:cost_volume_flags_untouched")
    if "cv_mask_changed_by" in out:
        # a step working on the disparity map wrote into the flags of the cost volume (the two masks share memory):
        # another winner-takes-all on that cost volume would start from flags that no longer describe the costs
        report.fail("later_steps_own_bits", "cost_volume_mask_written_by_later_step", {"case": case, "label": label},
                    {"step": out["cv_mask_changed_by"], "first_changed_pixel": out["cv_mask_diff"]})
    mc = dict(steps)["matching_cost"]
    off = mc["left_cv"]["offset"]
    check_criteria_side(ctx, report, case, "left", out["stage1"][0], mc["left_cv"], dict(steps)["disparity"]["left"], label)
    prev = dict(steps)["disparity"]
    hist = {"left": [], "right": []}
    cc_iter = iter(rec)
    i_disp = [n for n, _ in steps].index("disparity")
    for name, snap in steps[:i_disp]:  # the steps before the disparity step leave the cost-volume mask alone
        pass
    for name, snap in steps[i_disp + 1 :]:
        kind0 = name.split(".")[0]
        cfgk = out["cfg"]["pipeline"][name]
        for side in ("left", "right"):
            if prev[side] is None or snap[side] is None:
                continue
            before, after = prev[side]["mask"], snap[side]["mask"]
            if kind0 == "refinement":
                hist[side].append("refinement")
                check_step(ctx, report, ops, case, side, "refinement", off, before, after, hist[side], label)
            elif kind0 == "filter":
                k = "filter_intervals" if cfgk["filter_method"] == "median_for_intervals" else "filter"
                hist[side].append(k)
                check_step(ctx, report, ops, case, side, k, off, before, after, hist[side], label)
            elif kind0 == "validation":
                mid = next(cc_iter)
                hist[side].append("cross_checking")
                check_step(ctx, report, ops, case, side, "cross_checking", off, before, mid, hist[side], label)
                if "interpolated_disparity" in cfgk:
                    k = "mc_cnn" if cfgk["interpolated_disparity"] == "mc-cnn" else "sgm"
                    hist[side].append(k)
                    check_step(ctx, report, ops, case, side, k, off, mid, after, hist[side], label)
                else:
                    d = first_diff(mid, after)
                    if d:
                        report.disagree("validation without interpolation changes the mask after cross-checking", {"case": case}, d, None)
        prev = snap
    report.case(key=key, nontrivial=True, sample={"post": case["post"], "final_left": grid(steps[-1][1]["left"]["mask"])})
    report.count("pipeline_len_%d" % len(case["post"]))
    for k in case["post"]:
        report.count("post_" + k)
    rep = repeat_trigger(hist["left"])
    report.count("pipeline_" + (rep or "no_repeat"))
    return out


# ---- stream W: wide global intervals on narrow images, criteria.py called directly --------------
WIDE_COUNTS = (255, 256, 257, 300, 513)


def gen_wide_case(rng, i):
    """interval of WIDE_COUNTS[i % 5] integer disparities, sign case (i // 5) % 3; narrow image (most candidates fall
    outside the right image); the right mask has a fully invalid line and (3 rows and more) a fully nodata line"""
    n = WIDE_COUNTS[i % len(WIDE_COUNTS)]
    sign = ("neg", "pos", "straddle")[(i // len(WIDE_COUNTS)) % 3]
    win = rng.choice([1, 3, 3])
    rows = rng.randrange(max(2, win), max(2, win) + 3)
    cols = rng.randrange(win + 3, win + 8)
    if sign == "neg":
        b = -rng.randrange(1, 3)
        a = b - (n - 1)
    elif sign == "pos":
        a = rng.randrange(1, 3)
        b = a + (n - 1)
    else:
        a = -rng.choice([0, 1, 2, n // 2, n - 3, n - 2, n - 1])
        b = a + (n - 1)
    mr = gen_mask(rng, rows, cols, rng.choice(["none", "sparse", "sparse"])) or [[0] * cols for _ in range(rows)]
    full = rng.sample(range(rows), min(rows, 2))
    mr[full[0]] = [2] * cols
    if rows >= 3:
        mr[full[1]] = [1] * cols
    return {
        "kind": "wide", "rows": rows, "cols": cols, "window": win, "dmin": a, "dmax": b, "subpix": 1,
        "mask_left": gen_mask(rng, rows, cols, rng.choice(["none", "none", "sparse", "border"])), "mask_right": mr,
        "grids": None, "col0": rng.choice([0, 0, 3, 40]), "codes": rng.choice([[0, 1, [2]], [0, 1, [2, 3, 255]], [5, 7, [0, 1, 9]]]),
    }


def crit_cv(rows, cols, col0, off, dmin, dmax, subpix):
    """a cost-volume dataset as `allocate_cost_volume` lays it out (coordinates, attributes), all costs 0"""
    import xarray as xr

    disp = np.arange(dmin * subpix, dmax * subpix + 1, dtype=np.float64) / subpix
    cv = xr.Dataset({"cost_volume": (["row", "col", "disp"], np.zeros((rows, cols, len(disp)), dtype=np.float32))},
                    coords={"row": np.arange(rows), "col": np.arange(col0, col0 + cols), "disp": disp})
    cv.attrs = {"offset_row_col": off, "window_size": 2 * off + 1, "subpixel": subpix}
    return cv


def run_wide_case(ctx, report, case, label):
    from pandora import criteria

    from ..impl import criteria_pipeline as cp

    rows, cols, off = case["rows"], case["cols"], (case["window"] - 1) // 2
    a, b = case["dmin"], case["dmax"]
    vv, nd, inv = case["codes"]
    im = np.zeros((rows, cols), dtype=np.float32)
    left = cp.make_image(im, case["mask_left"], col0=case["col0"], valid_value=vv, nodata_value=nd, invalid_values=tuple(inv))
    right = cp.make_image(im, case["mask_right"], col0=case["col0"], valid_value=vv, nodata_value=nd, invalid_values=tuple(inv))
    cv = crit_cv(rows, cols, case["col0"], off, a, b, case["subpix"])
    payload = {
        "rows": rows, "cols": cols, "off": off, "col0": case["col0"], "dmin": a, "dmax": b, "subpix": case["subpix"],
        "mask_left": case["mask_left"], "mask_right": case["mask_right"],
        "pix_min": [[a] * cols for _ in range(rows)], "pix_max": [[b] * cols for _ in range(rows)],
    }
    rc = {"case": case, "side": "left"}
    key = json.dumps(case, sort_keys=True)
    try:
        stage1 = np.array(criteria.validity_mask(left, right, cv)["validity_mask"].data, copy=True)
    except Exception as exc:  # pylint: disable=broad-except
        report.count("error:" + type(exc).__name__)
        report.case(key=None, nontrivial=False)
        if len(report.notes) < 10:
            report.notes.append(f"{label}: validity_mask raised {type(exc).__name__}: {exc}"[:200])
        return None
    model = ctx.lean.call("C04.criteria", **payload)
    d = first_diff(stage1, np.array(model["stage1"]).reshape(stage1.shape))
    if d:
        report.disagree("validity_mask(stage1), wide interval", rc, d, None)
    # the rest of what cv_masked does to the mask, on a cost volume that is NaN exactly where the model says so
    nan = np.array(model["nan"], dtype=bool).reshape(rows, cols, -1)
    cv["cost_volume"].data[nan] = np.nan
    criteria.mask_invalid_variable_disparity_range(cv)
    if off > 0:
        criteria.mask_border(cv)
    final = np.array(cv["validity_mask"].data, copy=True)
    d = first_diff(final, np.array(model["final"]).reshape(final.shape))
    if d:
        report.disagree("validity_mask(after mask_invalid_variable_disparity_range, mask_border), wide interval", rc, d, None)
    nan_all = nan.all(axis=2)
    fails = ctx.lean.call("C04.spec_pre", mask=grid(final), nan_all=[[bool(v) for v in row] for row in nan_all], disp=None,
                          invalid_disp="nan", **payload)
    sign = "neg" if b < 0 else ("pos" if a > 0 else "straddle")
    for cl, r, c, f in fails:
        fail_limited(report, cl, f"wide_interval_{sign}", rc, {"pixel": [r, c], "flag": f, "n_disparities": b - a + 1},
                     f"clause {cl} false at pixel ({r},{c}) flag={f} with {b - a + 1} disparities in the global interval")
    interior = final[off: rows - off, off: cols - off] if off else final
    for bit, name in ((1, "bit0_cause"), (2, "bit1_cause"), (4, "bit2_cause"), (64, "bit6_cause"), (128, "bit7_cause")):
        n = int(((interior & bit) != 0).sum())
        if n:
            report.hit(name, n)
    report.case(key=key, nontrivial=True, sample={"rows": rows, "cols": cols, "window": case["window"], "interval": [a, b],
                                                  "final_mask": grid(final)})
    report.count(f"wide_{b - a + 1}_disparities")
    report.count("wide_interval_" + sign)
    if int(((interior & 128) != 0).sum()):
        report.count("wide_bit7_raised")
    return final


# ---- stream C -------------------------------------------------------------------------------
def gen_flag_grid(rng, rows, cols, reachable, kernel=""):
    """`reachable`: flags a pipeline without a repeated bit-raising step can present to the kernel (bit 3 clear before
    the refinement, bits 4/5 clear before an interpolation); otherwise any combination of the 12 documented bits"""
    g = []
    for _ in range(rows):
        row = []
        for _ in range(cols):
            if reachable:
                valid_bases = [0, 0, 0, 4, 2048, 2052] if kernel == "refinement" else [0, 0, 0, 4, 8, 12, 2048]
                base = rng.choice(valid_bases + [1, 2, 6, 64, 66, 128, 130])
                r = rng.random()
                if base in valid_bases and r < 0.5 and kernel != "cross_checking":
                    base += rng.choice([256, 512])
                row.append(base)
            else:
                f = 0
                for b in range(12):
                    if rng.random() < 0.25:
                        f |= 1 << b
                row.append(f)
        g.append(row)
    return g


def run_kernel_case(ctx, report, ops, case, label):
    from ..impl import criteria_pipeline as cp

    k = case["kernel"]
    off = case["off"]
    before = np.array(case["flags"], dtype=np.int64)
    rows, cols = before.shape
    g = np.random.default_rng(case["seed"])
    disp = g.integers(-2, 3, size=(rows, cols)).astype(np.float32)
    reachable = case["reachable"]
    hist = [k]
    if k == "mc_cnn":
        after = cp.direct_mc_cnn(disp, before, off)
    elif k == "sgm":
        after = cp.direct_sgm(disp, before, off)
    elif k == "cross_checking":
        disp_r = g.integers(-2, 3, size=(rows, cols)).astype(np.float32)
        mask_r = np.array(gen_flag_grid(ctx.rng.__class__(case["seed"]), rows, cols, True, k))
        after = cp.direct_cross_checking(disp, before, disp_r, mask_r, off, -2, 2, threshold=case.get("threshold", 1))
    else:  # refinement
        nd = 5
        cv = g.integers(0, 9, size=(rows, cols, nd)).astype(np.float32)
        cv[g.random(size=cv.shape) < 0.15] = np.nan
        after = cp.direct_refinement(cv, disp, before, -2, 2, 1, method="vfit")
    check_step(ctx, report, ops, {"kernel_case": case}, "direct", k, off, before, after, hist, label, spec=reachable)
    report.case(key=json.dumps(case, sort_keys=True), nontrivial=True)
    report.count("kernel_" + k + ("_reachable" if reachable else "_arbitrary"))


def gen_kernel_case(rng):
    k = rng.choice(["mc_cnn", "sgm", "cross_checking", "refinement"])
    rows, cols = rng.randrange(1, 6), rng.randrange(1, 8)
    reachable = rng.random() < 0.6
    off = rng.choice([0, 0, 1])
    flags = gen_flag_grid(rng, rows, cols, reachable, k)
    if reachable and off:  # a reachable mask has exactly bit 0 on the border
        for r in range(rows):
            for c in range(cols):
                if r < off or r + off >= rows or c < off or c + off >= cols:
                    flags[r][c] = 1
    return {
        "kind": "kernel",
        "kernel": k,
        "off": off,
        "reachable": reachable,
        "flags": flags,
        "seed": rng.randrange(1 << 30),
        "threshold": rng.choice([0, 1]),
    }


# --------------------------------------------------------------------------------------------
# entry points
# --------------------------------------------------------------------------------------------
def run_case(ctx, report, ops, case, label):
    if case["kind"] == "criteria":
        return run_criteria_case(ctx, report, case, label)
    if case["kind"] == "pipeline":
        return run_pipeline_case(ctx, report, ops, case, label)
    if case["kind"] == "kernel":
        return run_kernel_case(ctx, report, ops, case, label)
    if case["kind"] == "wide":
        return run_wide_case(ctx, report, case, label)
    if case["kind"] == "lean_run":  # counterexample of Properties/C04.lean replayed on the model (documentation)
        return ctx.lean.call("C04.run", **case["payload"])
    raise ValueError(case["kind"])


def run(ctx, report, status):
    ops = translator_cross_check(report, status)
    kernels_cross_check(ctx, report, status)
    report.rule = (
        "A: random image pairs (1-11 x 2-14, windows 1/3/5, subpix 1/2/4, sad/ssd/census/zncc, intervals negative/positive/"
        "straddling/single/wider than the image/ending at 0, scalar or per-pixel grids, nodata+invalid masks sparse/dense/"
        "full columns/border blobs/all-masked, non-zero first column coordinate) through the real matching_cost and disparity "
        "steps; B: the same scenes followed by 1-5 random post-disparity steps with planted repeats, every mask transition "
        "observed (cross-checking and interpolation separately); C: the interpolation / cross-checking / refinement kernels "
        "called directly on crafted flag grids; W: criteria.validity_mask + mask_invalid_variable_disparity_range + mask_border "
        "called directly on narrow datasets (4-10 columns) whose global interval holds 255/256/257/300/513 integer disparities, "
        "negative/positive/straddling, right mask with a fully invalid and a fully nodata line, cost volume NaN where the model "
        "says not computable. Non-trivial = a mask is present or the interval does not contain 0 (A), "
        "always (B, C, W); distinct by the full input."
    )
    rng = ctx.rng
    for name, case in core.load_corpus(PROP):
        run_case(ctx, report, ops, case.get("input", case), "corpus:" + name)
    for i in range(ctx.n(90, 1500)):
        run_case(ctx, report, ops, gen_criteria_case(rng, big=(i % 5 == 4)), f"A{i}")
    for i in range(ctx.n(40, 600)):
        run_case(ctx, report, ops, gen_pipeline_case(rng), f"B{i}")
    for i in range(ctx.n(150, 3000)):
        run_case(ctx, report, ops, gen_kernel_case(rng), f"C{i}")
    for i in range(ctx.n(15, 150)):
        run_case(ctx, report, ops, gen_wide_case(rng, i), f"W{i}")
    if ctx.thorough:
        for case in thorough_strips(rng):
            run_case(ctx, report, ops, case, "strip")


def thorough_strips(rng):
    out = []
    for rows, cols in ((1, 230), (3, 205), (103, 3), (40, 40)):
        for _ in range(3):
            c = gen_criteria_case(rng, big=True)
            c["rows"], c["cols"] = rows, cols
            c["window"] = rng.choice([1, 3]) if min(rows, cols) < 5 else rng.choice([1, 3, 5])
            if c["measure"] in ("census", "zncc") and c["window"] == 1:
                c["measure"] = "sad"
            for k in ("mask_left", "mask_right"):
                c[k] = gen_mask(rng, rows, cols, rng.choice(["sparse", "columns", "border"]))
            c["grids"] = None
            out.append(c)
    return out


def directed_cases():
    """small-scope enumeration used by `search`: every single-cell mask layout on a 3x6 scene with a 3-window (and a
    1-window), every interval inside [-3, 3], subpix 1 and 2; then every pipeline of <= 3 post-disparity steps"""
    rows, cols = 3, 6
    for win, subpix in ((3, 1), (1, 1), (3, 2)):
        for a in range(-3, 4):
            for b in range(a, 4):
                layouts = [(None, None)]
                for cls in (1, 2):
                    for c in range(cols):
                        m = [[0] * cols for _ in range(rows)]
                        m[1][c] = cls
                        layouts.append((m, None))
                        layouts.append((None, m))
                    col = [[cls if c in (2, 3) else 0 for c in range(cols)] for _ in range(rows)]
                    layouts.append((None, col))
                for ml, mr in layouts:
                    yield {
                        "kind": "criteria", "rows": rows, "cols": cols, "window": win, "dmin": a, "dmax": b, "subpix": subpix,
                        "measure": "sad", "mask_left": ml, "mask_right": mr, "grids": None, "invalid_disparity": -9999,
                        "col0": 0, "codes": [0, 1, [2]], "validation": True, "im_seed": 7,
                    }
    kinds = ["filter_median", "filter_intervals", "refinement_vfit", "validation", "validation_mc_cnn", "validation_sgm"]
    for n in (1, 2, 3):
        for post in itertools.product(kinds, repeat=n):
            for seed in (3, 11):
                yield {
                    "kind": "pipeline", "rows": 6, "cols": 9, "window": 3, "dmin": -2, "dmax": 2, "subpix": 1, "measure": "sad",
                    "mask_left": None, "mask_right": [[2 if (r, c) == (2, 4) else 0 for c in range(9)] for r in range(6)],
                    "grids": None, "invalid_disparity": -9999, "col0": 0, "codes": [0, 1, [2]], "validation": True,
                    "im_seed": seed, "post": list(post), "threshold": 0,
                }


def search(ctx, report, status):
    """Directed search after a broken obligation or a disagreement: the specification as oracle on the real code."""
    ops = translator_cross_check(core.Report(PROP, ctx.tier, ctx.seed), core.BuildStatus())
    known = core.load_known(PROP)

    def unknown(sub):
        for f in sub.failures:
            if not any(k.get("clause") == f["clause"] and k.get("trigger") == f["trigger"] for k in known):
                return f
        return None

    sub = core.Report(PROP, ctx.tier, ctx.seed)
    for d in report.disagreements:  # 1. the disagreeing cases already found
        case = d["case"].get("case") or d["case"].get("kernel_case")
        if case:
            run_case(ctx, sub, ops, case, "search:disagreement")
            f = unknown(sub)
            if f:
                return f
    for i in range(30):  # 2. wide intervals (cheap: criteria.py alone), every width x sign case twice
        run_case(ctx, sub, ops, gen_wide_case(ctx.rng, i), "search:wide")
        f = unknown(sub)
        if f:
            return f
        del sub.failures[:]
    for case in directed_cases():  # 3. the small-scope enumeration
        run_case(ctx, sub, ops, case, "search:directed")
        f = unknown(sub)
        if f:
            return f
        del sub.failures[:]
    rng = ctx.rng
    for i in range(400):  # 4. the random stream
        case = [gen_criteria_case, gen_pipeline_case, gen_kernel_case][i % 3](rng)
        run_case(ctx, sub, ops, case, "search:random")
        f = unknown(sub)
        if f:
            return f
        del sub.failures[:]
    return None


def replay(ctx, report, path):
    with open(path, encoding="utf-8") as f:
        data = json.load(f)
    case = data.get("input", data)
    kinds = ("criteria", "pipeline", "kernel", "lean_run", "wide")
    while isinstance(case, dict) and case.get("kind") not in kinds and ("case" in case or "kernel_case" in case):
        case = case.get("case") or case.get("kernel_case")
    if not isinstance(case, dict) or case.get("kind") not in kinds:
        # a replay file of a broken obligation with no failing input: show what no longer checks
        print("no input to replay; broken obligations:", json.dumps(data.get("broken_theorems_or_translator", data.get("broken")), default=str)[:2000])
        for d in data.get("correspondence_disagreements", [])[:3]:
            print("disagreement:", json.dumps(d, default=str)[:600])
        return 1
    status = core.BuildStatus()
    ops = translator_cross_check(report, status)
    res = run_case(ctx, report, ops, case, "replay")
    if case.get("kind") == "lean_run":
        print("model run:", json.dumps(res))
    known = core.load_known(PROP)
    unknown = 0
    for fl in report.failures:
        is_known = any(k.get("clause") == fl["clause"] and k.get("trigger") == fl["trigger"] for k in known)
        unknown += 0 if is_known else 1
        print("spec failure%s:" % (" (known finding)" if is_known else ""), fl["clause"], fl["trigger"], json.dumps(fl["impl"])[:300], fl["detail"])
    for d in report.disagreements:
        print("disagreement:", d["what"], json.dumps(d["impl"], default=str)[:300])
    print("replayed: failures=%d (unknown %d) disagreements=%d" % (len(report.failures), unknown, len(report.disagreements)))
    return 1 if report.failures else 0
