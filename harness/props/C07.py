"""C07 — cross-checking flags exactly the left-right inconsistent pixels, nothing else.

Correspondence: the real `CrossCheckingAccurate.disparity_checking` and the real
`PandoraMachine.validation_run` against the Lean model `Pandora.CrossCheck.check` / `validationRun`
(exact comparison: disparities are small dyadic numbers, every float32 operation is exact); the Lean
specification `Pandora.CrossCheck.clausesPix` is evaluated on the implementation's outputs.

Streams: (1) small scope, exhaustive: every left row over {-1,-1/2,0,1/2,1,NaN}^3 against every right row
over {-1,0,1/2,NaN}^3, two thresholds; (2) random pairs of maps (integer / half / quarter / eighth
disparities, NaN and invalid entries, correspondents outside on both sides, thresholds of both types,
intervals of any sign, border offsets, already existing confidence bands); (3) the machine callback
`validation_run` (left, then right against the checked left); (4) validation steps observed inside real
pipelines (`pandora.run`).
"""
from __future__ import annotations

import hashlib
import itertools
import json
from fractions import Fraction

from .. import core
from ..impl import crosscheck_adapter as ca
from ..impl import refine_adapter as ra

PROP = "C07"
VARIANT = {"name": "asis"}  # which of the model's variants the implementation follows (detect_variant)
INVALID_MASK = 963
BAND = "confidence_from_left_right_consistency"


def translate():
    from translator import registry

    return registry.generate("Constants", "RefineCC", "KernelsCrossCheck")


def wire(q):
    if q is None:
        return "nan"
    q = Fraction(q)
    return q.numerator if q.denominator == 1 else f"{q.numerator}/{q.denominator}"


def key_of(case):
    return hashlib.sha1(json.dumps(case, sort_keys=True).encode()).hexdigest()[:16]


def add_failure(report, clause, trigger, case, impl, detail):
    n = sum(1 for f in report.failures if f["clause"] == clause and f["trigger"] == trigger)
    if n < 3:
        report.fail(clause, trigger, case, impl, detail)


def detect_variant(report):
    """The Lean model follows the code as it is ("asis") and also the two repairs of finding C07-F1
    (proposed_fixes/C07-outside-right.diff -> "rule"; the one-character `|` repair -> "or").  One probe
    decides which one the implementation under test is to be compared with: a valid pixel whose correspondent
    is outside the right image and for which some d has round(dR(p+d)) = -d."""
    probe = {"threshold": 1, "threshold_is_int": True, "dmin": -2, "dmax": 3, "offset": 0, "interval_dtype": "float",
             "bands_a": 0, "disp_a": [[0, 0, 0, 3]], "mask_a": [[0, 0, 0, 0]], "disp_b": [[2, 2, 2, 2]],
             "mask_b": [[0, 0, 0, 0]]}
    impl = ca.run_check(probe)
    name = "asis"
    if impl["res"] == "ok":
        name = {0: "asis", 256: "or", 512: "rule"}.get(impl["mask"][0][3], "asis")
    VARIANT["name"] = name
    report.notes.append(f"model variant compared with the implementation: {name}")
    return name


def extra_evidence():
    return {"model_variant": VARIANT["name"]}


def model_payload(case):
    return {"threshold": case["threshold"], "dmin": case["dmin"], "dmax": case["dmax"], "offset": case["offset"],
            "disp_a": case["disp_a"], "mask_a": case["mask_a"], "disp_b": case["disp_b"], "mask_b": case["mask_b"]}


def same_grid(a, b):
    if a is None or b is None:
        return a is b
    if len(a) != len(b):
        return False
    for ra_, rb in zip(a, b):
        if len(ra_) != len(rb):
            return False
        for x, y in zip(ra_, rb):
            if not core.same_cell(core.dec(x), core.dec(y)):
                return False
    return True


def one_row(case, r):
    out = dict(case)
    for k in ("disp_a", "mask_a", "disp_b", "mask_b"):
        out[k] = [case[k][r]]
    return out


def check_outputs(ctx, report, case, impl, label, clause_prefix=None, report_case=None):
    """spec on the implementation's output of disparity_checking(A, B); returns the number of failing pixels.
    `report_case`: the case to record for a replay when `case` was derived from it (validation_run)."""
    # "The step itself does not modify any disparity": judged first, cell by cell, on the raw output — an infinite value
    # written over a NaN (seed C07-5) is not even expressible in the model's cells
    for name in ("disp_a", "disp_b"):
        # the generators never produce infinite disparities: one found in a map that enters the check (second half of
        # validation_run) was written by the first half
        bad = [(r, c, v) for r, row in enumerate(case[name]) for c, v in enumerate(row) if v in ("inf", "-inf")]
        if bad:
            report.hit("disp_unchanged")
            report.fail((clause_prefix + ":" if clause_prefix else "") + "disp_unchanged", "nonfinite_value_written",
                        report_case or case, {"map": name, "pixel": list(bad[0][:2]), "after": bad[0][2]},
                        "a disparity map holds an infinite value after a cross-checking pass that must not modify any disparity")
            return 1
    for r, (row_in, row_out) in enumerate(zip(case["disp_a"], impl["disp"])):
        for c, (x, y) in enumerate(zip(row_in, row_out)):
            if y in ("inf", "-inf") and x != y:
                report.hit("disp_unchanged")
                report.fail((clause_prefix + ":" if clause_prefix else "") + "disp_unchanged", "nonfinite_value_written",
                            report_case or case, {"pixel": [r, c], "before": x, "after": y},
                            "the disparity map handed to the cross-checking holds another value after the step")
                return 1
    spec = ctx.lean.call("C07.spec", **model_payload(case), out_mask=impl["mask"], out_conf=impl["conf"], out_disp=impl["disp"])
    for k, v in spec["situations"].items():
        report.count("situation_" + k, v)
        if k == "border":
            report.hit("border_bit0_only", v)
        elif k == "invalid_pixel":
            report.hit("invalid_not_reexamined", v)
        elif k == "consistent":
            report.hit("kept_iff_consistent:kept", v)
            report.hit("conf_band_value", v)
        elif k in ("mismatch", "tie_witness"):
            report.hit("mismatch_iff_witness", v)
            report.hit("never_both", v)
        elif k == "occlusion":
            report.hit("occlusion_otherwise", v)
            report.hit("never_both", v)
        elif k in ("correspondent_outside_right_image", "nan_disparity_on_valid_pixel"):
            report.hit("kept_iff_consistent:outside", v)
        elif k == "half_integer_tie":
            report.hit("kept_iff_consistent:tie", v)
    report.hit("disp_unchanged")
    # the half-even reading of `round` (clausesPixEven): evaluated on every pixel next to the loose clauses
    report.hit("half_even:every_pixel")
    if spec.get("tie_pixels"):
        report.hit("half_even:tie_pixels", spec["tie_pixels"])
        report.count("tie_pixels", spec["tie_pixels"])

    def documented(names, trigger):
        return all(sum(1 for g in report.failures if g["clause"] == nm and g["trigger"] == trigger) >= 3 for nm in names)

    def shrink(r, c, clauses, field):
        """the case to record for pixel (r, c): its row alone when the same clauses still fail there"""
        rep_case = dict(case, focus=[r, c]) if report_case is None else dict(report_case, focus=[r, c])
        rep_impl = {"mask": impl["mask"][r][c], "conf": impl["conf"][r][c], "disp": impl["disp"][r][c]}
        if report_case is None and int(case["offset"]) == 0 and len(case["disp_a"]) > 1:
            small = one_row(case, r)
            alone = ca.run_check(small)
            if alone["res"] == "ok":
                sp = ctx.lean.call("C07.spec", **model_payload(small), out_mask=alone["mask"], out_conf=alone["conf"],
                                   out_disp=alone["disp"])
                hit = [g for g in sp.get(field, []) if g["col"] == c and set(g["clauses"]) & set(clauses)]
                if hit:
                    rep_case = dict(small, focus=[0, c])
                    rep_impl = {"mask": alone["mask"][0][c], "conf": alone["conf"][0][c], "disp": alone["disp"][0][c]}
        return rep_case, rep_impl

    loose = {}
    for f in spec["failures"]:
        r, c = f["row"], f["col"]
        loose[(r, c)] = set(f["clauses"])
        names = [cl if clause_prefix is None else clause_prefix for cl in f["clauses"]]
        if documented(names, f["trigger"]):
            continue  # this kind is already documented three times
        rep_case, rep_impl = shrink(r, c, f["clauses"], "failures")
        for cl in f["clauses"]:
            name = cl if clause_prefix is None else clause_prefix
            add_failure(report, name, f["trigger"], rep_case, rep_impl,
                        f"pixel ({r},{c}) clause {cl} [{label}]")
    n_even = 0
    for f in spec.get("failing_even", []):
        r, c = f["row"], f["col"]
        # a half-even clause is reported when the loose clause of the same name does not already fail at that pixel
        # (it is then reported above, once).  Away from a tie the two readings are the same clauses
        # (Pandora.C07.clausesPixEven_eq_of_no_tie) and nothing is left; on a tie pixel what is left is what only the
        # half-even reading rejects: trigger half_integer_tie, or the structural situation of the pixel
        clauses = [cl for cl in f["clauses"] if cl not in loose.get((r, c), ())]
        if not clauses:
            continue
        n_even += 1
        names = [(cl if clause_prefix is None else clause_prefix) + ":half_even" for cl in clauses]
        if documented(names, f["trigger"]):
            continue
        rep_case, rep_impl = shrink(r, c, clauses, "failing_even")
        for cl, name in zip(clauses, names):
            add_failure(report, name, f["trigger"], rep_case, rep_impl,
                        f"pixel ({r},{c}) clause {cl} with round = round half to even [{label}]")
    return len(spec["failures"]) + n_even


def check_case(ctx, report, case, label, captured=None):
    impl = ca.run_check(case)
    model = ctx.lean.call("C07.check", variant=VARIANT["name"], **model_payload(case))
    n_pix = sum(len(r) for r in case["disp_a"])
    valid = sum(1 for row in case["mask_a"] for v in row if (v & INVALID_MASK) == 0)
    report.case(key=key_of(case), nontrivial=valid > 0,
                sample={"label": label, "shape": [len(case["disp_a"]), len(case["disp_a"][0])], "threshold": case["threshold"],
                        "interval": [case["dmin"], case["dmax"]], "offset": case["offset"], "impl_res": impl["res"]})
    report.count("pixels", n_pix)
    report.count("valid_pixels", valid)
    report.count(f"offset_{case['offset']}")
    report.count("threshold_" + str(case["threshold"]))
    if impl["res"] != "ok":
        report.disagree("raises", case, impl, {"res": "ok"})
        add_failure(report, "total", "unexpected_exception", case, impl, f"the step raised: {impl.get('exception')}")
        return
    # ---- correspondence (exact)
    for fld in ("mask", "conf", "disp"):
        if not same_grid(impl[fld], model[fld]):
            report.disagree(fld, case, impl[fld], model[fld])
    if captured is not None:
        for fld in ("mask", "conf", "disp"):
            if not same_grid(captured[fld], impl[fld]):
                report.disagree("pipeline_vs_direct_call." + fld, case, captured[fld], impl[fld])
    # ---- one-line clauses evaluated here
    report.hit("conf_band_name")
    if not impl["bands"] or impl["bands"][-1] != BAND:
        add_failure(report, "conf_band_value", "band_name", case, impl["bands"], "the last band is not " + BAND)
    if case.get("bands_a") and not impl.get("old_bands_same", True):
        add_failure(report, "conf_band_value", "existing_bands_modified", case, impl["bands"], "an existing band changed")
    if not impl["other_unchanged"]:
        add_failure(report, "disp_unchanged", "other_dataset_modified", case, None, "the dataset checked against was modified")
    # ---- the specification on the implementation's output
    check_outputs(ctx, report, case, impl, label)


def check_run_filled_case(ctx, report, case, label):
    """validation_run with `interpolated_disparity`: the filling comes after BOTH cross-checks, so the consistency band
    of either map is still the left-right distance on the maps that entered the step, and a pixel that is consistent
    on those maps carries none of the bits 4, 5, 8, 9 afterwards"""
    impl = ca.run_validation(case)
    plain = dict(case)
    plain.pop("interpolated_disparity")
    lft, rgt = case["left"], case["right"]
    payload = {"left": {"threshold": case["threshold"], "dmin": lft["dmin"], "dmax": lft["dmax"], "offset": case["offset"],
                        "disp": lft["disp"], "mask": lft["mask"]},
               "right": {"threshold": case["threshold"], "dmin": rgt["dmin"], "dmax": rgt["dmax"], "offset": case["offset"],
                         "disp": rgt["disp"], "mask": rgt["mask"]}}
    model = ctx.lean.call("C07.run", variant=VARIANT["name"], **payload)
    report.case(key=key_of(case), nontrivial=True, sample={"label": label, "interpolated_disparity": case["interpolated_disparity"]})
    report.count("validation_run_filled_cases")
    if impl["res"] != "ok":
        report.count("validation_run_filled_raises")
        return
    for side in ("left", "right"):
        report.hit("conf_band_value:with_interpolation")
        if not same_grid(impl[side]["conf"], model[side]["conf"]):
            add_failure(report, "conf_band_value" if side == "left" else "right_same_rule:conf_band_value", "with_interpolation:" + side, case,
                        {"conf": impl[side]["conf"]},
                        f"the consistency band of the {side} map is not the left-right distance on the maps that entered the step "
                        f"(model: {json.dumps(model[side]['conf'])[:200]})")
        bad = []
        src = (lft if side == "left" else rgt)["mask"]
        for r, row in enumerate(model[side]["mask"]):
            for c, mflag in enumerate(row):
                got = int(impl[side]["mask"][r][c])
                if int(mflag) == int(src[r][c]) and (int(mflag) & 963) == 0 and (got & (16 + 32 + 256 + 512)) != (int(mflag) & (16 + 32 + 256 + 512)):
                    bad.append([r, c, got])
        report.hit("kept_iff_consistent:with_interpolation")
        if bad:
            add_failure(report, "kept_iff_consistent" if side == "left" else "right_same_rule:kept_iff_consistent", "with_interpolation:" + side,
                        case, {"pixels": bad[:5]}, f"{len(bad)} pixels consistent on the maps that entered the step are flagged or filled")


def check_run_case(ctx, report, case, label):
    """validation_run: left against right, then right against the checked left"""
    if case.get("interpolated_disparity"):
        return check_run_filled_case(ctx, report, case, label)
    impl = ca.run_validation(case)
    lft, rgt = case["left"], case["right"]
    payload = {"left": {"threshold": case["threshold"], "dmin": lft["dmin"], "dmax": lft["dmax"], "offset": case["offset"],
                        "disp": lft["disp"], "mask": lft["mask"]},
               "right": {"threshold": case["threshold"], "dmin": rgt["dmin"], "dmax": rgt["dmax"], "offset": case["offset"],
                         "disp": rgt["disp"], "mask": rgt["mask"]}}
    model = ctx.lean.call("C07.run", variant=VARIANT["name"], **payload)
    report.case(key=key_of(case), nontrivial=True,
                sample={"label": label, "shape": [len(lft["disp"]), len(lft["disp"][0])], "impl_res": impl["res"]})
    report.count("validation_run_cases")
    if impl["res"] != "ok":
        report.disagree("raises", case, impl, {"res": "ok"})
        add_failure(report, "total", "unexpected_exception", case, impl, f"validation_run raised: {impl.get('exception')}")
        return
    for side in ("left", "right"):
        for fld in ("mask", "conf", "disp"):
            if not same_grid(impl[side][fld], model[side][fld]):
                report.disagree(f"validation_run.{side}.{fld}", case, impl[side][fld], model[side][fld])
    base = {"threshold": case["threshold"], "threshold_is_int": case.get("threshold_is_int", False), "offset": case["offset"]}
    left_case = dict(base, dmin=lft["dmin"], dmax=lft["dmax"], disp_a=lft["disp"], mask_a=lft["mask"],
                     disp_b=rgt["disp"], mask_b=rgt["mask"])
    check_outputs(ctx, report, left_case, impl["left"], label + ":left", report_case=case)
    # the right map against the left one, by the same rule (the left disparities are those left by the first check)
    right_case = dict(base, dmin=rgt["dmin"], dmax=rgt["dmax"], disp_a=rgt["disp"], mask_a=rgt["mask"],
                      disp_b=impl["left"]["disp"], mask_b=impl["left"]["mask"])
    report.hit("right_same_rule")
    check_outputs(ctx, report, right_case, impl["right"], label + ":right", clause_prefix="right_same_rule",
                  report_case=case)


# ------------------------------------------------------------------------------------------------
# generators
# ------------------------------------------------------------------------------------------------
def exhaustive_cases(thorough=False):
    lvals = [-1, Fraction(-1, 2), 0, Fraction(1, 2), 1, None]
    rvals = [-1, 0, Fraction(1, 2), None] if not thorough else [-1, Fraction(-1, 2), 0, Fraction(1, 2), 1, None]
    rrows = [[wire(v) for v in t] for t in itertools.product(rvals, repeat=3)]
    for thr in ([0, "1/2"] if not thorough else [0, "1/2", 1]):
        for lrow in itertools.product(lvals, repeat=3):
            n = len(rrows)
            yield {"threshold": thr, "threshold_is_int": thr == 0, "dmin": -1, "dmax": 1, "offset": 0,
                   "interval_dtype": "float", "bands_a": 0,
                   "disp_a": [[wire(v) for v in lrow] for _ in range(n)], "mask_a": [[0, 0, 0] for _ in range(n)],
                   "disp_b": rrows, "mask_b": [[0, 0, 0] for _ in range(n)]}


FRACS = {
    "int": [0],
    "half": [0, Fraction(1, 2), Fraction(-1, 2)],
    "quarter": [0, Fraction(1, 4), Fraction(-1, 4), Fraction(1, 2), Fraction(3, 4)],
    "refined": [0, Fraction(1, 8), Fraction(-3, 8), Fraction(5, 16), Fraction(-7, 16), Fraction(1, 2), Fraction(3, 32)],
}


def random_maps(rng, rows, cols, dmin, dmax, kind):
    fr = FRACS[kind]
    dl, dr, ml, mr = [], [], [], []
    for _ in range(rows):
        # a scene: piecewise constant true disparity
        true_d = []
        d0 = rng.randrange(dmin, dmax + 1)
        for c in range(cols):
            if rng.random() < 0.25:
                d0 = rng.randrange(dmin, dmax + 1)
            true_d.append(d0)
        lrow = [Fraction(true_d[c]) + rng.choice(fr) for c in range(cols)]
        rrow = [Fraction(-rng.randrange(dmin, dmax + 1)) + rng.choice(fr) for _ in range(cols)]
        for c in range(cols):
            q = c + true_d[c]
            if 0 <= q < cols and rng.random() < 0.7:
                rrow[q] = -lrow[c] + rng.choice([0, 0, 0, 0, Fraction(1, 4), Fraction(-1, 2), Fraction(1, 2), 1, -1, Fraction(3, 2), 2, -3])
        lmask, rmask = [], []
        for c in range(cols):
            f = rng.choice([0, 0, 0, 0, 0, 0, 4, 8, 16, 2048, 12])
            if rng.random() < 0.12:
                f = rng.choice([1, 2, 64, 128, 256, 512, 2 + 64, 1 + 4, 128 + 8, 512 + 16, 256 + 4])
                if rng.random() < 0.5:
                    lrow[c] = rng.choice([None, -9999])
            elif rng.random() < 0.04:
                lrow[c] = rng.choice([None, -9999, Fraction(cols + 3), Fraction(-cols - 2)])  # valid, but no correspondent
            elif rng.random() < 0.08:
                lrow[c] = lrow[c] + rng.choice([cols, -cols, 3, -3])  # points outside (or far away)
            lmask.append(f)
            g = rng.choice([0, 0, 0, 0, 4, 8, 2048])
            if rng.random() < 0.1:
                g = rng.choice([1, 2, 64, 128, 256, 512])
                if rng.random() < 0.6:
                    rrow[c] = rng.choice([None, -9999])
            elif rng.random() < 0.03:
                rrow[c] = None
            rmask.append(g)
        dl.append([wire(v) for v in lrow])
        dr.append([wire(v) for v in rrow])
        ml.append(lmask)
        mr.append(rmask)
    return dl, ml, dr, mr


def random_params(rng):
    dmin = rng.choice([-4, -3, -2, -1, 0, 1, 2])
    dmax = dmin + rng.randrange(0, 5)
    thr = rng.choice([0, "1/2", 1, 1, 1, "3/2", 2, "1/4", -1, "5/2"])
    is_int = isinstance(thr, int) and rng.random() < 0.5
    return dmin, dmax, thr, is_int


def random_check_case(rng):
    rows, cols = rng.randrange(1, 7), rng.randrange(3, 13)
    dmin, dmax, thr, is_int = random_params(rng)
    kind = rng.choice(["int", "int", "half", "quarter", "refined"])
    dl, ml, dr, mr = random_maps(rng, rows, cols, dmin, dmax, kind)
    return {"threshold": thr, "threshold_is_int": is_int, "dmin": dmin, "dmax": dmax,
            "offset": rng.choice([0, 0, 0, 1, 1, 2]), "interval_dtype": rng.choice(["int", "float"]),
            "bands_a": rng.choice([0, 0, 1, 2]), "disp_a": dl, "mask_a": ml, "disp_b": dr, "mask_b": mr}


def random_run_case(rng):
    rows, cols = rng.randrange(1, 6), rng.randrange(3, 11)
    dmin, dmax, thr, is_int = random_params(rng)
    kind = rng.choice(["int", "half", "quarter", "refined"])
    dl, ml, dr, mr = random_maps(rng, rows, cols, dmin, dmax, kind)
    return {"threshold": thr, "threshold_is_int": is_int, "offset": rng.choice([0, 0, 1]),
            "left": {"dmin": dmin, "dmax": dmax, "disp": dl, "mask": ml},
            "right": {"dmin": -dmax, "dmax": -dmin, "disp": dr, "mask": mr}}


def grid_exact(a):
    def cell(v):
        v = float(v)
        if v != v:
            return "nan"
        if v in (float("inf"), float("-inf")):
            return "inf" if v > 0 else "-inf"
        return wire(Fraction(v))

    return [[cell(v) for v in row] for row in a]


def case_of_record(rec):
    import numpy as np

    thr = rec["threshold"]
    case = {"threshold": wire(Fraction(thr)), "threshold_is_int": isinstance(thr, int) and not isinstance(thr, bool),
            "dmin": int(rec["interval"][0]), "dmax": int(rec["interval"][1]), "offset": rec["offset"],
            "interval_dtype": "float", "bands_a": 0,
            "disp_a": grid_exact(rec["disp_left"]), "mask_a": [[int(v) for v in row] for row in rec["mask_left"]],
            "disp_b": grid_exact(rec["disp_right"]), "mask_b": [[int(v) for v in row] for row in rec["mask_right"]]}
    captured = {"mask": [[int(v) for v in row] for row in rec["out_mask"]],
                "conf": core.enc(np.asarray(rec["out_conf"], dtype=np.float64)),
                "disp": core.enc(np.asarray(rec["out_disp"], dtype=np.float64))}
    return case, captured


def pipeline_cases(ctx, report, count):
    """validation steps observed inside real pipelines; only pipelines whose disparities stay dyadic
    (no refinement, no bilateral filter) so that every float32 sum is exact"""
    rng = ctx.rng
    for _ in range(count):
        rows, cols = rng.randrange(5, 9), rng.randrange(7, 12)
        dmin = rng.choice([-3, -2, -1, 0])
        dmax = dmin + rng.choice([1, 2, 3])
        base = [[rng.randrange(0, 16) for _ in range(cols + 8)] for _ in range(rows)]
        shift = rng.choice([0, 1, -1, 2])
        left_data = [[base[r][c + 4] for c in range(cols)] for r in range(rows)]
        right_data = [[base[r][c + 4 + shift] for c in range(cols)] for r in range(rows)]
        left = ra.make_image(rng, rows, cols, dmin, dmax, data=left_data)
        right = ra.make_image(rng, rows, cols, dmin, dmax, data=right_data, with_disp=False)
        measure = rng.choice(["sad", "ssd", "census"])
        window = 3 if measure == "census" else rng.choice([1, 3])
        pipe = {"matching_cost": {"matching_cost_method": measure, "window_size": window, "subpix": rng.choice([1, 2, 4])},
                "disparity": {"disparity_method": "wta", "invalid_disparity": rng.choice([-9999, "NaN"])}}
        if rng.random() < 0.4:
            pipe["filter"] = {"filter_method": "median", "filter_size": 3}
        thr = rng.choice([0, 0.5, 1, 1.0, 2])
        pipe["validation"] = {"validation_method": "cross_checking_accurate", "cross_checking_threshold": thr}
        log, res = ra.run_pipeline_capture(pipe, left, right)
        report.count("pipelines")
        report.count("pipeline_result_" + res.split(" ")[0])
        for rec in log:
            if rec["step"] == "validation":
                case, captured = case_of_record(rec)
                yield case, captured, "pipeline:" + "+".join(pipe)


# ------------------------------------------------------------------------------------------------
def translator_cross_check(report, status):
    import pandora.constants as cst
    from translator import gen_constants

    try:
        gen = gen_constants.extract()
    except Exception:  # already reported by build_and_audit
        return
    report.translator_checks += 1
    live = {k: int(getattr(cst, k)) for k in dir(cst) if k.startswith("PANDORA_MSK_")}
    if gen != live:
        status.problem("translator", "generated flag constants differ from pandora.constants")
    if (live.get("PANDORA_MSK_PIXEL_OCCLUSION"), live.get("PANDORA_MSK_PIXEL_MISMATCH"),
            live.get("PANDORA_MSK_PIXEL_INVALID")) != (256, 512, INVALID_MASK):
        status.problem("translator", "bits 8 / 9 / invalid mask are not the documented values")


def variant_cross_check(report, status):
    """what the translator read in the source text (the operator of `outside_right`, whether the outside pixels go
    through the mismatch search) agrees with what the probe observed on the running code"""
    t11 = (status.generated or {}).get("T11")
    if not t11:
        return
    report.translator_checks += 1
    if t11["variant"]["cross_check"] != VARIANT["name"]:
        status.problem("translator", f"variant read in the source ({t11['variant']['cross_check']}) differs from the "
                                     f"behaviour observed ({VARIANT['name']})")


def kernel_cross_check(ctx, report, status):
    """T14i: the row body of disparity_checking as translator/pyvec_idx.py reads it (the tree behind
    Generated/KernelsCrossCheck.lean: crossCheckRow) evaluated exactly, against the REAL disparity_checking, row by row and
    cell by cell (flag word and confidence band), plus the translator's self-test of refused constructs."""
    from translator import gen_kernels_crosscheck as gk
    from translator import pyvec_idx
    from translator.common import Unsupported

    report.translator_checks += 1
    for problem in pyvec_idx.selftest():
        status.problem("translator", f"pyvec_idx self-test: {problem}")
    try:
        k = gk.kernel()
    except Unsupported as exc:
        status.problem("translator", f"Unsupported: {exc}")
        return

    def fl(v):
        if v is None or v == "nan":
            return pyvec_idx.FNAN
        return v if v in (pyvec_idx.PINF, pyvec_idx.NINF) else Fraction(v)

    def dec(v):
        if v in ("nan", "inf", "-inf"):
            return v
        return Fraction(v)

    rows = cells = 0
    for i in range(ctx.n(160, 1500)):
        case = random_check_case(ctx.rng)
        impl = ca.run_check(case)
        if impl.get("res") != "ok":
            continue
        off, nrow, ncol = int(case["offset"]), len(case["disp_a"]), len(case["disp_a"][0])
        rng_d = list(range(int(case["dmin"]), int(case["dmax"]) + 1))
        for r in range(nrow):
            res, vals = pyvec_idx.evaluate(k, {
                "maskL": [int(x) for x in case["mask_a"][r]], "dispL": [fl(x) for x in case["disp_a"][r]],
                "dispR": [fl(x) for x in case["disp_b"][r]], "threshold": fl(case["threshold"]), "disparity_range": rng_d})
            rows += 1
            if res != "ok":
                status.problem("translator", f"translated row body reports {res} ({vals}) where the real disparity_checking "
                               f"returns normally, row {r} of {json.dumps(case)[:300]}")
                return
            for c in range(ncol):
                border = off > 0 and (r < off or r >= nrow - off or c < off or c >= ncol - off)
                got_m, got_c = vals[0][c], vals[1][c]
                want_m, want_c = impl["mask"][r][c], dec(impl["conf"][r][c])
                cells += 1
                if (not border and got_m != want_m) or got_c != want_c:
                    status.problem("translator", f"translated row body evaluates differently from the real disparity_checking "
                                   f"at row {r} col {c}: translated flag={got_m} conf={got_c}, real flag={want_m} conf={want_c}; "
                                   f"case {json.dumps(case)[:400]}")
                    return
    report.count("kernel_rows_vs_real", rows)
    report.hit("translator:row_body_vs_real")


def run(ctx, report, status):
    translator_cross_check(report, status)
    detect_variant(report)
    variant_cross_check(report, status)
    report.rule = (
        "one call of the real disparity_checking(A, B) per case, compared cell by cell (exactly) with the Lean model, the "
        "Lean specification evaluated on the implementation's output; small scope exhaustively (left rows over "
        "{-1,-1/2,0,1/2,1,NaN}^3 x right rows over {-1,0,1/2,NaN}^3 x 2 thresholds), random pairs of maps with "
        "planted consistent / inconsistent / outside / NaN / invalid pixels, the machine's validation_run callback (also with interpolated_disparity: band and consistent pixels judged on the maps that entered the step), "
        "validation steps observed in real pipelines. Non-trivial = at least one valid pixel; distinct by canonical input."
    )
    rng = ctx.rng
    for name, case in core.load_corpus(PROP):
        c = case.get("input", case)
        if "left" in c:
            check_run_case(ctx, report, c, "corpus:" + name)
        else:
            check_case(ctx, report, {k: v for k, v in c.items() if k != "focus"}, "corpus:" + name)
    for case in exhaustive_cases(ctx.thorough):
        check_case(ctx, report, case, "exhaustive")
    for _ in range(ctx.n(400, 6000)):
        check_case(ctx, report, random_check_case(rng), "random")
    for _ in range(ctx.n(80, 1500)):
        check_run_case(ctx, report, random_run_case(rng), "validation_run")
    for _ in range(ctx.n(60, 1000)):
        c = random_run_case(rng)
        c["offset"] = 0
        c["interpolated_disparity"] = rng.choice(["mc-cnn", "sgm"])
        check_run_case(ctx, report, c, "validation_run_filled")
    for case, captured, label in pipeline_cases(ctx, report, ctx.n(5, 50)):
        check_case(ctx, report, case, label, captured=captured)
    kernel_cross_check(ctx, report, status)


def search(ctx, report, status):
    """Directed search after a broken obligation / disagreement: the disagreeing cases, the small-scope table and a
    larger random stream on the real code with the Lean specification as oracle; known findings are skipped."""
    known = {(k.get("clause"), k.get("trigger")) for k in core.load_known(PROP)}
    sub = core.Report(PROP, ctx.tier, ctx.seed)
    detect_variant(sub)

    def first_unknown():
        for f in sub.failures:
            if (f["clause"], f["trigger"]) not in known:
                return f
        return None

    for d in report.disagreements:
        case = d.get("case")
        if isinstance(case, dict):
            if "left" in case:
                check_run_case(ctx, sub, case, "search:disagreement")
            elif "disp_a" in case:
                check_case(ctx, sub, {k: v for k, v in case.items() if k != "focus"}, "search:disagreement")
            if first_unknown():
                return first_unknown()
    for case in exhaustive_cases(False):
        check_case(ctx, sub, case, "search:exhaustive")
        if first_unknown():
            return first_unknown()
    for i in range(1500):
        check_case(ctx, sub, random_check_case(ctx.rng), "search:random")
        if i % 4 == 0:
            check_run_case(ctx, sub, random_run_case(ctx.rng), "search:run")
        if first_unknown():
            return first_unknown()
    return None


def replay(ctx, report, path):
    with open(path, encoding="utf-8") as f:
        data = json.load(f)
    case = data.get("input", data)
    case = {k: v for k, v in case.items() if k != "focus"}
    detect_variant(report)
    if "left" in case:
        check_run_case(ctx, report, case, "replay")
    else:
        check_case(ctx, report, case, "replay")
    known = {(k.get("clause"), k.get("trigger")) for k in core.load_known(PROP)}
    for fl in report.failures:
        tag = "known finding" if (fl["clause"], fl["trigger"]) in known else "spec failure"
        print(f"{tag}: {fl['clause']} [{fl['trigger']}] {fl['detail']} impl={json.dumps(fl['impl'])[:300]}")
    for d in report.disagreements:
        print("disagreement:", json.dumps(d, default=str)[:600])
    print("replayed: failures=%d disagreements=%d" % (len(report.failures), len(report.disagreements)))
    return 1 if report.failures else 0
