"""C18 — runs are reproducible and side-effect free whatever the threading."""
from __future__ import annotations

import json
import os
import subprocess
import sys

from .. import core

PROP = "C18"


def translate():
    from translator import registry

    return registry.generate("Threading", "Wiring", "Transitions", "Globals")


def launch_history(seed, order_seed):
    env = dict(os.environ)
    p = subprocess.Popen([sys.executable, "-m", "harness.impl.c18_worker"], cwd=core.VERIF, env=env,
                         stdin=subprocess.PIPE, stdout=subprocess.PIPE, stderr=subprocess.PIPE, text=True)
    p.stdin.write(json.dumps({"mode": "history", "seed": seed, "order_seed": order_seed}) + "\n")
    p.stdin.close()
    return p


def class_history(ctx, report, status):
    """the outcome of checking a step configuration does not depend on which other step classes were
    instantiated before in the same process: the probe table is evaluated in several orders, each in its own process"""
    from ..impl import c18_worker

    n_orders = ctx.n(3, 8)
    procs = [launch_history(ctx.seed, k) for k in range(n_orders)]
    outs = []
    for k, p in enumerate(procs):
        out = p.stdout.read()
        err = p.stderr.read()
        p.wait()
        recs = [json.loads(l) for l in out.splitlines() if l.startswith("{")]
        if p.returncode != 0 or not recs:
            status.problem("worker", f"history worker {k} failed", err)
            return
        outs.append(recs[0]["history"])
    tab = c18_worker.config_table()
    for i, (kind, cfg) in enumerate(tab):
        vals = [o[i] for o in outs]
        report.case(key=("history", i), nontrivial=True)
        report.hit("other_machines_no_effect")
        if any(v != vals[0] for v in vals):
            report.fail("other_machines_no_effect", "class_history:" + kind, {"probe": [kind, cfg], "orders": list(range(n_orders)), "seed": ctx.seed},
                        {"outcomes_per_order": vals})
    report.count("class_history_probes", len(tab))
    report.count("class_history_orders", n_orders)


def shared_objects(ctx, report, status):
    """results depend on input values and configuration only, not on which dataset objects the process saw before"""
    n = ctx.n(8, 40)
    env = dict(os.environ)
    p = subprocess.Popen([sys.executable, "-m", "harness.impl.c18_worker"], cwd=core.VERIF, env=env,
                         stdin=subprocess.PIPE, stdout=subprocess.PIPE, stderr=subprocess.PIPE, text=True)
    p.stdin.write(json.dumps({"mode": "shared_objects", "seed": ctx.seed, "n_cases": n}) + "\n")
    p.stdin.close()
    recs, code, err = collect(p)
    if code != 0 or len(recs) != n:
        status.problem("worker", f"shared-objects worker exited {code} with {len(recs)}/{n} records", err)
    for r in recs:
        if "skipped" in r:
            report.count("skipped_zero_division")
            continue
        report.case(key=("shared", r["case"]), nontrivial=True, sample=r)
        for clause in ("band_switch_same_objects", "inplace_update_seen"):
            report.hit("other_machines_no_effect")
            if not r[clause]:
                report.fail("other_machines_no_effect", clause, {"seed": ctx.seed, "case": r["case"], "mode": "shared_objects",
                                                               "matching_cost": r["matching_cost"], "tail": r["tail"]}, r)
    report.count("shared_object_histories", len(recs))


def launch(seed, n_cases, threads, parallel, sibling_first=False):
    env = dict(os.environ)
    env["NUMBA_NUM_THREADS"] = str(threads)
    env["PANDORA_NUMBA_PARALLEL"] = "True" if parallel else "False"
    # kernels compiled with a different `parallel` flag must not share an on-disk cache entry
    env["NUMBA_CACHE_DIR"] = os.path.join(core.VERIF, ".numba_cache", f"par{int(parallel)}")
    p = subprocess.Popen([sys.executable, "-m", "harness.impl.c18_worker"], cwd=core.VERIF, env=env,
                         stdin=subprocess.PIPE, stdout=subprocess.PIPE, stderr=subprocess.PIPE, text=True)
    p.stdin.write(json.dumps({"seed": seed, "n_cases": n_cases, "sibling_first": sibling_first}) + "\n")
    p.stdin.close()
    return p


def collect(p):
    out = p.stdout.read()
    err = p.stderr.read()
    p.wait()
    recs = []
    for line in out.splitlines():
        line = line.strip()
        if line.startswith("{"):
            recs.append(json.loads(line))
    return recs, p.returncode, err


def translator_cross_check(report, status):
    """the kernels the translator found parallel are exactly the functions numba compiled with parallel=..."""
    try:
        from translator import gen_threading

        nests = gen_threading.extract_nests()
    except Exception:
        return
    import importlib

    funcs = {n["func"] for n in nests}
    live = set()
    for modname in ("pandora.refinement.refinement", "pandora.cost_volume_confidence.ambiguity", "pandora.cost_volume_confidence.risk",
                    "pandora.cost_volume_confidence.interval_bounds", "pandora.interval_tools"):
        mod = importlib.import_module(modname)
        cands = list(vars(mod).items())
        for _n, obj in list(cands):
            if isinstance(obj, type):
                cands += list(vars(obj).items())
        for name, obj in cands:
            obj = getattr(obj, "__func__", obj)
            targetoptions = getattr(obj, "targetoptions", None)
            if targetoptions is not None and "parallel" in targetoptions:
                live.add(name)
    report.translator_checks += 1
    if funcs != live:
        status.problem("translator", f"parallel kernels: source scan {sorted(funcs)} vs live dispatchers {sorted(live)}")


def run(ctx, report, status):
    report.rule = (
        "runtime sampling: the same deterministic cases (pair, pipeline exercising refinement and the confidence kernels) run in "
        "separate processes under NUMBA_NUM_THREADS in {1,2,4,16} x PANDORA_NUMBA_PARALLEL in {True, False}; per case: hash of all "
        "products, rerun on the same machine, rerun after other machines ran other pipelines, fresh machine, deep fingerprint of "
        "the input datasets; plus histories on shared dataset objects (two pipelines matching on different bands of one multiband pair, "
        "alternately; image samples overwritten in place between two runs), each result compared with the same pipeline on deep copies; non-trivial = case completed under every setting; distinct by case index"
    )
    translator_cross_check(report, status)
    class_history(ctx, report, status)
    shared_objects(ctx, report, status)
    n_cases = ctx.n(6, 30)
    settings = [(1, True), (2, True), (4, True), (4, False)] if not ctx.thorough else \
        [(1, True), (2, True), (4, True), (16, True), (1, False), (4, False), (16, False), (3, True)]
    procs = [(s, launch(ctx.seed, n_cases, s[0], s[1])) for s in settings]
    # one more process under the base setting in which every pipeline is preceded by its sibling (same steps and shapes,
    # other parameter values) on another machine object: its products must equal the base process's
    sib_proc = launch(ctx.seed, n_cases, settings[0][0], settings[0][1], sibling_first=True)
    results = {}
    for s, p in procs:
        recs, code, err = collect(p)
        if code != 0 or len(recs) != n_cases:
            status.problem("worker", f"worker {s} exited {code} with {len(recs)}/{n_cases} records", err)
        results[s] = recs
    sib_recs, sib_code, sib_err = collect(sib_proc)
    if sib_code != 0 or len(sib_recs) != n_cases:
        status.problem("worker", f"sibling-first worker exited {sib_code} with {len(sib_recs)}/{n_cases} records", sib_err)
    base_key = settings[0]
    for i in range(n_cases):
        per = {s: (results[s][i] if i < len(results[s]) else None) for s in settings}
        if any(r is None for r in per.values()):
            continue
        if any("skipped" in r for r in per.values()):
            report.count("skipped_zero_division")
            continue
        base = per[base_key]
        case = {"seed": ctx.seed, "case": i, "pipeline": base["pipeline"]}
        report.case(key=i, nontrivial=True, sample={"case": i, "pipeline": base["pipeline"], "hash": base["hash_all"][:16]})
        for s, r in per.items():
            tag = f"threads={s[0]},parallel={s[1]}"
            for clause in ("rerun_identical", "other_machines_no_effect", "fresh_vs_used_machine", "inputs_untouched"):
                report.hit(clause)
                if not r[clause]:
                    report.fail(clause, clause, dict(case, setting=tag), r)
            if s[1]:
                report.hit("thread_count_independent")
                if r["hash_all"] != base["hash_all"]:
                    report.fail("thread_count_independent", "hash_differs", dict(case, setting=tag), {"base": base["hash_all"], "got": r["hash_all"]})
            else:
                report.hit("parallel_off_same_disp_flags")
                if r["hash_disp_flags"] != base["hash_disp_flags"]:
                    report.fail("parallel_off_same_disp_flags", "hash_differs", dict(case, setting=tag),
                                {"base": base["hash_disp_flags"], "got": r["hash_disp_flags"]})
        if i < len(sib_recs) and "skipped" not in sib_recs[i] and "hash_all" in sib_recs[i]:
            report.hit("other_machines_no_effect")
            report.count("sibling_first_cases")
            if sib_recs[i]["hash_all"] != base["hash_all"]:
                report.fail("other_machines_no_effect", "sibling_pipeline_run_before", dict(case, setting="sibling_first"),
                            {"base": base["hash_all"], "after_sibling": sib_recs[i]["hash_all"], "sibling_ran": sib_recs[i].get("sibling_ran")},
                            "the products of a pipeline differ when another machine ran the same steps with other parameter values before it in the process")
    report.count("settings", len(settings))


def search(ctx, report, status):
    sub = core.Report(PROP, ctx.tier, ctx.seed)
    run(ctx, sub, core.BuildStatus())
    return sub.failures[0] if sub.failures else None


def replay(ctx, report, path):
    with open(path, encoding="utf-8") as f:
        data = json.load(f)
    case = data.get("input", data)
    ctx.seed = case.get("seed", ctx.seed)
    run(ctx, report, core.BuildStatus())
    for fl in report.failures:
        print("spec failure:", fl["clause"], json.dumps(fl["case"], default=str)[:300])
    print("replayed: failures=%d" % len(report.failures))
    return 1 if report.failures else 0
