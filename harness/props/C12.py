"""C12 — confidence bands follow their definitions, bracket the winner, only add bands.

Streams (all randomness from ctx.rng; every case is a JSON-able dict and is its own replay):
  kernels   hand-built cost volumes (NaN holes, all-NaN pixels, ties, min and max measures), dyadic eta grids and
            thresholds so that float32/float64 arithmetic is exact: ambiguity (raw / percentile-normalised), risk,
            interval bounds, the later winner-takes-all, cost volume untouched;
  default   the same with the default eta grid 0.7 / 0.01 (comparison skipped when a compared pair is closer than 2^-40);
  regul     `interval_regularization` directly: segments, connection graph, quantiles;
  std       `std_intensity` on integer images (tolerance: a square root is involved);
  allocate  `allocate_confidence_map` in its six dataset situations;
  pipeline  `pandora.run` on a real machine: matching cost, 0-4 confidence steps in any order and with any suffix,
            disparity, optionally cross-checking, against the same pipeline without the confidence steps.
"""
from __future__ import annotations

import hashlib
import json
import math
from fractions import Fraction

import numpy as np

from .. import core
from ..impl import confidence as cf

PROP = "C12"
TOL_NORM = Fraction(1, 20000)  # percentile normalisation / quantile interpolation: float rounding only
F10 = "max_measure_min_taken_as_best"
F11 = "clipped_ambiguity_map_constant"
F11B = "step_name_with_two_dots"


def _known_with_local(prop, _orig=core.load_known):
    """known_findings.json is aggregated by tools_manifest.py; until that is re-run the entries of
    known_findings.d/C12.json are merged here so that a fresh checkout of this check behaves the same"""
    out = list(_orig(prop))
    if prop != PROP:
        return out
    import os

    try:
        with open(os.path.join(core.VERIF, "known_findings.d", "C12.json"), encoding="utf-8") as f:
            local = json.load(f)["findings"]
    except (OSError, ValueError, KeyError):
        return out
    have = {e.get("id") for e in out}
    return out + [e for e in local if e.get("status") == "known" and e.get("id") not in have]


core.load_known = _known_with_local


KNOWN_TRIGGERS = {F10, F11, F11B}
KEEP_PER_KNOWN = 5


def fail(report, clause, trigger, case, impl=None, detail=""):
    """report.fail, but a known finding is recorded only a few times: core.Report keeps at most 200 failures and an
    unknown one must never be crowded out by the (frequent) known ones"""
    if trigger in KNOWN_TRIGGERS:
        n = report.distribution.get(f"known:{clause}:{trigger}", 0)
        report.count(f"known:{clause}:{trigger}")
        if n >= KEEP_PER_KNOWN:
            return
    report.fail(clause, trigger, case, impl, detail)


def translate():
    from translator import registry

    return registry.generate("Confidence", "KernelsConf", "KernelsRegul")


# ------------------------------------------------------------------------------------------------
# wire helpers
# ------------------------------------------------------------------------------------------------
def enc_grid(a):
    return cf.enc_grid(a)


def dec_array(j, dtype=np.float64):
    def f(x):
        if isinstance(x, list):
            return [f(v) for v in x]
        v = core.dec(x)
        return float(v)

    return np.array(f(j), dtype=dtype)


def grids_equal(a, b) -> bool:
    return a == b


def grids_close(a, b, tol: float) -> bool:
    x, y = dec_array(a), dec_array(b)
    if x.shape != y.shape:
        return False
    nx, ny = np.isnan(x), np.isnan(y)
    if (nx != ny).any():
        return False
    if x.size == 0:
        return True
    return bool(np.all(np.abs(np.where(nx, 0, x) - np.where(ny, 0, y)) <= tol))


def round32(j):
    """a model grid of exact values rounded to float32 the way the implementation stores it (f64 then f32)"""
    if isinstance(j, list):
        return [round32(v) for v in j]
    v = core.dec(j)
    if isinstance(v, float):
        return j
    return core.enc(np.float32(float(v)))


def arrays_close(a, b, tol: float) -> bool:
    """same shape, NaN exactly at the same places, other cells within tol"""
    a, b = np.asarray(a, dtype=np.float64), np.asarray(b, dtype=np.float64)
    if a.shape != b.shape:
        return False
    na, nb = np.isnan(a), np.isnan(b)
    if (na != nb).any():
        return False
    return bool(np.all(np.abs(np.where(na, 0, a) - np.where(nb, 0, b)) <= tol))


def key_of(case) -> str:
    return hashlib.sha1(json.dumps(case, sort_keys=True, default=str).encode()).hexdigest()[:16]


def margin_ok(r, exact, threshold) -> bool:
    if exact:
        return True
    m = r.get("margin")
    if m is None:
        return True
    return core.dec(m) >= threshold


def same_float_arrays(a, b) -> bool:
    a, b = np.asarray(a), np.asarray(b)
    return a.shape == b.shape and bool(np.array_equal(a, b, equal_nan=True))


# ------------------------------------------------------------------------------------------------
# band-level checks (used by the kernel streams and by the pipeline stream)
# ------------------------------------------------------------------------------------------------
def neg_cv(cv_json):
    def f(x):
        if isinstance(x, list):
            return [f(v) for v in x]
        if x == "nan":
            return x
        return core.enc(-core.dec(x))

    return f(cv_json)


def check_ambiguity(ctx, report, case, cv_json, is_max, etas, normalization, impl_band, exact, mthr):
    """impl_band: the confidence band (1 - ambiguity) as a float array"""
    impl = enc_grid(impl_band)
    tol = TOL_NORM if normalization else Fraction(0)
    r = ctx.lean.call("C12.ambiguity", cv=cv_json, is_max=is_max, etas=[core.enc(e) for e in etas],
                      normalization=normalization, impl=impl, tol=core.enc(tol))
    if not margin_ok(r, exact, mthr):
        report.count("skipped_small_margin")
        return False
    # ---- correspondence: the model follows the code (best = min whatever the measure)
    same = grids_close(impl, r["model_band"], float(tol)) if normalization else grids_equal(impl, r["model_band"])
    if not same:
        repaired = False
        if is_max:  # the repaired code (proposed_fixes/C12-max-measure) is the model on the negated volume
            r2 = ctx.lean.call("C12.ambiguity", cv=neg_cv(cv_json), is_max=False, etas=[core.enc(e) for e in etas],
                               normalization=normalization, impl=impl, tol=core.enc(tol))
            repaired = grids_close(impl, r2["model_band"], float(tol))
        if not repaired and normalization and r["clipped_constant"]:
            repaired = bool(np.all(np.asarray(impl_band) == 1.0))  # repaired normalisation: ambiguity 0 everywhere
        if repaired:
            report.count("impl_matches_repaired_model")
        else:
            report.disagree("ambiguity" + (".normalised" if normalization else ""), case, impl, r["model_band"])
    # ---- specification on the implementation's output
    report.hit("ambiguity_def")
    if is_max:
        report.hit("ambiguity_def:max_measure")
    if r["def_bad"] is not None:
        trig = F10 if (is_max and r["min_counts_differ"]) else ("normalised_value" if normalization else "count")
        fail(report, "ambiguity_def", trig, case, impl, f"first differing pixel {r['def_bad']}; spec band {r['spec_band']}")
    if normalization:
        report.hit("ambiguity_normalised_range")
        if r["range_bad"] is not None:
            trig = F11 if r["clipped_constant"] else "value_outside_unit_interval"
            fail(report, "ambiguity_normalised_range", trig, case, impl, f"pixel {r['range_bad']} is not a finite value of [0,1]")
        if r["clipped_constant"]:
            report.count("normalised_constant_maps")
    return True


def check_risk(ctx, report, case, cv_json, is_max, etas, impl_max, impl_min, exact, mthr, tol=Fraction(1, 500000)):
    imx, imn = enc_grid(impl_max), enc_grid(impl_min)
    r = ctx.lean.call("C12.risk", cv=cv_json, is_max=is_max, etas=[core.enc(e) for e in etas], impl_max=imx,
                      impl_min=imn, tol=core.enc(tol))
    if not margin_ok(r, exact, mthr):
        report.count("skipped_small_margin")
        return False
    # the eta-mean is one float64 division stored as float32: compare with the model's exact value rounded the same way
    eq = (lambda a, b: grids_equal(a, round32(b))) if exact else (lambda a, b: grids_close(a, b, float(tol)))
    if not (eq(imx, r["model_max"]) and eq(imn, r["model_min"])):
        repaired = False
        if is_max:
            r2 = ctx.lean.call("C12.risk", cv=neg_cv(cv_json), is_max=False, etas=[core.enc(e) for e in etas],
                               impl_max=imx, impl_min=imn, tol=core.enc(tol))
            repaired = eq(imx, r2["model_max"]) and eq(imn, r2["model_min"])
        if repaired:
            report.count("impl_matches_repaired_model")
        else:
            report.disagree("risk", case, [imx, imn], [r["model_max"], r["model_min"]])
    report.hit("risk_def")
    report.hit("risk_order")
    if r["def_bad"] is not None:
        trig = F10 if (is_max and r["min_best_differs"]) else "value"
        fail(report, "risk_def", trig, case, [imx, imn], f"first differing pixel {r['def_bad']}; spec {r['spec_max']} {r['spec_min']}")
    if r["order_bad"] is not None:
        fail(report, "risk_order", "order", case, [imx, imn], f"pixel {r['order_bad']}: not 0 <= risk_min <= risk_max (or NaN misplaced)")
    return True


def check_bounds(ctx, report, case, cv_json, is_max, thr, disp, impl_inf, impl_sup, impl_wta, exact, mthr, regularised=False,
                 bracket=True):
    """bracket=False for bounds regularised with a quantile below 1: they may legitimately exclude the winner"""
    iinf, isup, iw = enc_grid(impl_inf), enc_grid(impl_sup), enc_grid(impl_wta)
    r = ctx.lean.call("C12.bounds", cv=cv_json, is_max=is_max, threshold=core.enc(thr), disp=[core.enc(d) for d in disp],
                      impl_inf=iinf, impl_sup=isup, impl_wta=iw)
    if not margin_ok(r, exact, mthr):
        report.count("skipped_small_margin")
        return None
    if not regularised:
        if not (grids_equal(iinf, r["model_inf"]) and grids_equal(isup, r["model_sup"])):
            report.disagree("interval_bounds", case, [iinf, isup], [r["model_inf"], r["model_sup"]])
        report.hit("bounds_def")
        if r["def_bad"] is not None:
            fail(report, "bounds_def", "value", case, [iinf, isup], f"pixel {r['def_bad']}: not the extreme disparities reaching the threshold")
    if not grids_equal(iw, r["model_wta"]):
        report.disagree("wta", case, iw, r["model_wta"])
    if bracket:
        report.hit("bounds_bracket_wta")
    if bracket and r["bracket_bad"] is not None:
        fail(report, "bounds_bracket_wta", "regularised" if regularised else "raw", case, [iinf, isup, iw],
                    f"pixel {r['bracket_bad']}: winner outside [inf, sup]")
    return r


# ------------------------------------------------------------------------------------------------
# kernel stream
# ------------------------------------------------------------------------------------------------
def is_max_of(tm):
    return tm == "max"


def check_kernels(ctx, report, case):
    cost = dec_array(case["cost"], np.float32)
    disp = [core.dec(d) for d in case["disp"]]
    dispf = [float(d) for d in disp]
    tm = case["type_measure"]
    is_max = is_max_of(tm)
    exact = case.get("exact", True)
    mthr = Fraction(1, 2 ** 40)
    cv_json = enc_grid(cost.astype(np.float64))
    eta_max, eta_step = core.dec(case["eta_max"]), core.dec(case["eta_step"])
    etas = cf.numba_etas(float(eta_max), float(eta_step))
    etas_m = etas
    if exact:  # dyadic grid: the model's exact arange must be the kernel's grid
        model_etas = ctx.lean.call("C12.arange", start=0, stop=core.enc(cf.f32(float(eta_max))), step=core.enc(cf.f32(float(eta_step))))
        if [core.enc(e) for e in etas] != model_etas:
            report.disagree("arange", case, [core.enc(e) for e in etas], model_etas)
    nontrivial = bool(np.isfinite(cost).any()) and len(np.unique(cost[np.isfinite(cost)])) >= 2
    report.case(key=key_of(case), nontrivial=nontrivial,
                sample={"kind": case["kind"], "shape": list(cost.shape), "type_measure": tm, "etas": len(etas)})
    if not nontrivial:
        report.count("degenerate_volume")
        return
    report.count("kernels_" + tm)
    report.count("nan_cells", int(np.isnan(cost).sum()))
    report.count("all_nan_pixels", int(np.isnan(cost).all(axis=2).sum()))
    report.count("pixels_with_tied_best", int(sum(
        1 for px in cost.reshape(-1, cost.shape[2]) if np.isfinite(px).any() and
        (np.sum(px == (np.nanmax(px) if is_max else np.nanmin(px))) > 1))))
    base = cf.make_cv(cost, dispf, tm)
    wta0, disp0 = cf.run_wta(base)
    # ambiguity, both normalisations
    for normalization in (False, True):
        band, cv = cf.run_ambiguity(cost, dispf, tm, float(eta_max), float(eta_step), normalization)
        check_ambiguity(ctx, report, case, cv_json, is_max, etas_m, normalization, band, exact, mthr)
        frame_checks(report, case, base, cv, wta0, disp0, ["confidence_from_ambiguity"])
    rmax, rmin, cv = cf.run_risk(cost, dispf, tm, float(eta_max), float(eta_step))
    check_risk(ctx, report, case, cv_json, is_max, etas_m, rmax, rmin, exact, mthr)
    frame_checks(report, case, base, cv, wta0, disp0, ["confidence_from_risk_max", "confidence_from_risk_min"])
    thr = cf.f32(float(core.dec(case["threshold"])))
    inf, sup, cv = cf.run_bounds(cost, dispf, tm, float(core.dec(case["threshold"])))
    wta1, _ = cf.run_wta(cv)
    check_bounds(ctx, report, case, cv_json, is_max, thr, disp, inf, sup, wta1, True, mthr)
    frame_checks(report, case, base, cv, wta0, disp0, ["confidence_from_interval_bounds_inf", "confidence_from_interval_bounds_sup"])


def frame_checks(report, case, base, cv, wta0, disp0, names):
    """cost volume untouched, band names, later winner-takes-all and validity mask unchanged"""
    report.hit("cv_same")
    if not same_float_arrays(base["cost_volume"].data, cv["cost_volume"].data):
        fail(report, "cv_same", "kernel", case, None, "the cost volume differs after the confidence step")
    got = [n for n, _ in cf.bands_of(cv)]
    report.hit("bands_appended_named")
    if got != names:
        fail(report, "bands_appended_named", "kernel", case, got, f"expected {names}")
    wta1, disp1 = cf.run_wta(cv)
    report.hit("later_disp_flags_same")
    if not same_float_arrays(wta0, wta1) or not same_float_arrays(disp0["validity_mask"].data, disp1["validity_mask"].data):
        fail(report, "later_disp_flags_same", "kernel", case, enc_grid(wta1), "disparity map or validity mask differs")
    db = cf.bands_of(disp1)
    if [n for n, _ in db] != got or not all(same_float_arrays(a[1], b[1]) for a, b in zip(db, cf.bands_of(cv))):
        fail(report, "bands_appended_named", "disparity_dataset", case, [n for n, _ in db], "disparity dataset bands differ from the cost volume's")


DYADIC_ETA = [(Fraction(1, 2), Fraction(1, 4)), (Fraction(3, 4), Fraction(1, 4)), (Fraction(3, 4), Fraction(1, 8)),
              (Fraction(5, 8), Fraction(1, 8)), (Fraction(7, 8), Fraction(3, 16)), (Fraction(15, 16), Fraction(1, 16)),
              (Fraction(1, 4), Fraction(1, 16)), (Fraction(1, 2), Fraction(1, 32)), (Fraction(1, 8), Fraction(1, 4)),
              (Fraction(31, 32), Fraction(1, 2))]
THRESHOLDS = [Fraction(0), Fraction(1, 4), Fraction(1, 2), Fraction(3, 4), Fraction(7, 8), Fraction(9, 10), Fraction(1),
              Fraction(15, 16), Fraction(7, 10)]


def gen_volume(rng, max_rows=5, max_cols=7, max_disp=9):
    nrow, ncol, nd = rng.randint(1, max_rows), rng.randint(1, max_cols), rng.randint(1, max_disp)
    k = rng.choice([1, 2, 3, 4, 5])
    top = 2 ** k
    mode = rng.choice(["int", "int", "few", "quarter", "ramp"])
    cost = np.zeros((nrow, ncol, nd), dtype=np.float64)
    for r in range(nrow):
        for c in range(ncol):
            for d in range(nd):
                if mode == "int":
                    v = rng.randint(0, top)
                elif mode == "few":
                    v = rng.choice([0, top // 2, top, 1])
                elif mode == "quarter":
                    v = rng.randint(0, 4 * top) / 4
                else:
                    v = min(top, abs(d - (r + c) % nd) + rng.choice([0, 0, 1]))
                cost[r, c, d] = v
    # planted global extremes so that max - min is a power of two: exact float32 normalisation
    cells = [(r, c, d) for r in range(nrow) for c in range(ncol) for d in range(nd)]
    offset = rng.choice([0, 0, 0, 3, -2, 16])
    if len(cells) >= 2:
        a, b = rng.sample(cells, 2)
        cost[a], cost[b] = 0, top
    cost = cost + offset
    # NaN holes
    p = rng.choice([0, 0, 0.1, 0.3])
    for cell in cells:
        if rng.random() < p:
            cost[cell] = np.nan
    if rng.random() < 0.3 and nrow * ncol > 1:
        r, c = rng.randrange(nrow), rng.randrange(ncol)
        cost[r, c, :] = np.nan  # an all-NaN pixel
    if rng.random() < 0.15 and nd > 1:
        cost[:, :, rng.randrange(nd)] = np.nan  # a missing disparity plane
    if rng.random() < 0.2 and nrow * ncol > 1:  # a pixel whose costs are all equal (full tie)
        r, c = rng.randrange(nrow), rng.randrange(ncol)
        cost[r, c, :] = offset + rng.choice([0, top, top // 2])
    # keep the planted extremes finite when possible
    fin = cost[np.isfinite(cost)]
    if fin.size and (fin.max() - fin.min()) not in (top,):
        if len(cells) >= 2:
            a, b = rng.sample(cells, 2)
            cost[a], cost[b] = offset, offset + top
    sub = rng.choice([1, 1, 1, 2, 4])
    dmin = rng.randint(-4, 3)
    disp = [Fraction(dmin) + Fraction(i, sub) for i in range(nd)]
    return cost, disp


def gen_kernel_case(rng, default_eta=False):
    cost, disp = gen_volume(rng)
    if default_eta:
        eta_max, eta_step = Fraction(float(np.float32(0.7))), Fraction(float(np.float32(0.01)))
        eta_max, eta_step = Fraction(7, 10), Fraction(1, 100)
    else:
        eta_max, eta_step = rng.choice(DYADIC_ETA)
    return {
        "kind": "kernels",
        "cost": enc_grid(cost),
        "disp": [core.enc(d) for d in disp],
        "type_measure": rng.choice(["min", "min", "max"]),
        "eta_max": core.enc(eta_max), "eta_step": core.enc(eta_step),
        "threshold": core.enc(rng.choice(THRESHOLDS)),
        "exact": not default_eta,
    }


# ------------------------------------------------------------------------------------------------
# regularisation stream
# ------------------------------------------------------------------------------------------------
def check_regul(ctx, report, case):
    inf, sup, amb = dec_array(case["inf"]), dec_array(case["sup"]), dec_array(case["amb"])
    thr, k, depth, q = core.dec(case["threshold"]), case["kernel"], case["depth"], core.dec(case["quantile"])
    a, b, _ = cf.run_regularization(inf, sup, amb, float(thr), k, depth, float(q))
    ia, ib = enc_grid(a), enc_grid(b)
    r = ctx.lean.call("C12.regularize", inf=case["inf"], sup=case["sup"], amb=case["amb"], threshold=core.enc(Fraction(float(thr))),
                      kernel=k, depth=depth, quantile=core.enc(Fraction(float(q))), impl_inf=ia, impl_sup=ib)
    nseg = len(r["border_left"])
    report.case(key=key_of(case), nontrivial=nseg > 0,
                sample={"kind": "regul", "shape": list(inf.shape), "segments": nseg, "depth": depth, "quantile": str(q)})
    report.count("regul_segments", nseg)
    report.count(f"regul_depth_{min(depth, 3)}")
    if not (grids_equal(ia, r["model_inf"]) and grids_equal(ib, r["model_sup"])):
        report.disagree("interval_regularization", case, [ia, ib], [r["model_inf"], r["model_sup"]])
    if q == 1:
        report.hit("quantile1_widens")
        if not r["widened"]:
            fail(report, "quantile1_widens", "direct", case, [ia, ib], "a finite bound moved inwards or became NaN")


def gen_regul_case(rng):
    nrow, ncol = rng.randint(1, 6), rng.randint(1, 9)
    inf = np.zeros((nrow, ncol))
    sup = np.zeros((nrow, ncol))
    amb = np.zeros((nrow, ncol))
    low_p = rng.choice([0.2, 0.4, 0.7])
    for r in range(nrow):
        for c in range(ncol):
            a = rng.randint(-6, 4)
            inf[r, c], sup[r, c] = a, a + rng.randint(0, 5)
            amb[r, c] = rng.choice([0, 1, 2, 3]) / 8 if rng.random() < low_p else rng.choice([5, 6, 7, 8]) / 8
            if rng.random() < 0.08:
                inf[r, c] = sup[r, c] = np.nan
            if rng.random() < 0.03:
                amb[r, c] = np.nan
    return {
        "kind": "regul", "inf": enc_grid(inf), "sup": enc_grid(sup), "amb": enc_grid(amb),
        "threshold": core.enc(rng.choice([Fraction(1, 2), Fraction(5, 8), Fraction(3, 4), Fraction(0), Fraction(1), Fraction(1, 8)])),
        "kernel": rng.choice([1, 3, 3, 5]), "depth": rng.choice([0, 1, 1, 2, 3, 4]),
        "quantile": core.enc(rng.choice([Fraction(1), Fraction(1), Fraction(1), Fraction(1, 2), Fraction(3, 4), Fraction(0), Fraction(1, 4)])),
    }


# ------------------------------------------------------------------------------------------------
# std_intensity stream
# ------------------------------------------------------------------------------------------------
def check_std(ctx, report, case):
    data = dec_array(case["img"], np.float32)
    w = case["window"]
    bands = case.get("bands")
    band = case.get("band")
    impl, cv = cf.run_std(data, w, bands, band)
    sel = data[bands.index(band)] if bands else data
    r = ctx.lean.call("C12.std", img=enc_grid(sel.astype(np.float64)), window=w)
    report.case(key=key_of(case), nontrivial=True, sample={"kind": "std", "shape": list(data.shape), "window": w})
    model_std = np.sqrt(dec_array(r["model_var"]))
    spec_std = np.sqrt(dec_array(r["spec_var"]))
    tol = 1e-5 * max(1.0, float(np.nanmax(np.abs(sel)))) if sel.size else 1e-5

    def close(a, b):
        return arrays_close(a, b, tol)

    if not close(np.asarray(impl), model_std):
        report.disagree("std_intensity", case, enc_grid(impl), r["model_var"])
    report.hit("std_def")
    if not close(np.asarray(impl), spec_std):
        fail(report, "std_def", "value", case, enc_grid(impl), "band is not the standard deviation of the centred window (NaN on the frame)")
    names = [n for n, _ in cf.bands_of(cv)]
    if names != ["confidence_from_intensity_std"]:
        fail(report, "bands_appended_named", "std", case, names)


def gen_std_case(rng):
    w = rng.choice([1, 3, 3, 5])
    nrow, ncol = rng.randint(w, w + 5), rng.randint(w, w + 6)
    top = rng.choice([3, 15, 255])
    if rng.random() < 0.3:
        bands = ["r", "g", "b"][: rng.randint(2, 3)]
        data = np.array([[[rng.randint(0, top) for _ in range(ncol)] for _ in range(nrow)] for _ in bands], dtype=np.float64)
        band = rng.choice(bands)
    else:
        bands, band = None, None
        data = np.array([[rng.randint(0, top) for _ in range(ncol)] for _ in range(nrow)], dtype=np.float64)
    if rng.random() < 0.3:  # a uniform region: zero variance
        data[..., : max(1, nrow // 2), :] = rng.randint(0, top)
    return {"kind": "std", "img": enc_grid(data), "window": w, "bands": bands, "band": band}


# ------------------------------------------------------------------------------------------------
# allocate stream
# ------------------------------------------------------------------------------------------------
def bands_json(bs):
    if bs is None:
        return None
    return [{"name": n, "data": enc_grid(d)} for n, d in bs]


def check_allocate(ctx, report, case):
    nrow, ncol = case["shape"]
    cmap = dec_array(case["map"], np.float32)
    cvb = [(b["name"], dec_array(b["data"])) for b in case["cv_bands"]] if case["cv_bands"] is not None else None
    dsb = [(b["name"], dec_array(b["data"])) for b in case["disp_bands"]] if case["disp_bands"] is not None else None
    cv = cf.make_cv(np.zeros((nrow, ncol, 2), dtype=np.float32), [0, 1], "min", bands=cvb) if case["cv_kind"] == "ds" else None
    disp = None if case["disp_kind"] == "none" else cf.make_disp(nrow, ncol, dsb)
    cost_before = None if cv is None else np.array(cv["cost_volume"].data, copy=True)
    d2, c2 = cf.allocate(case["name"], cmap, disp, cv)
    report.case(key=key_of(case), nontrivial=True, sample={"kind": "allocate", "cv": case["cv_kind"], "disp": case["disp_kind"],
                                                           "cv_bands": None if cvb is None else len(cvb)})
    if cv is None:
        # the model covers the cost-volume-present situations (every confidence step has one); only the frame is checked
        if c2 is not None:
            fail(report, "cv_same", "allocate_none_cv", case, None, "a cost volume appeared")
        got = bands_json(cf.bands_of(d2))
        want_names = ([b["name"] for b in case["disp_bands"]] if case["disp_bands"] else []) + ["confidence_from_" + case["name"]]
        if d2 is not None and [b["name"] for b in got] != want_names:
            fail(report, "bands_appended_named", "allocate_none_cv", case, got)
        return
    r = ctx.lean.call("C12.allocate", name=case["name"], map=case["map"], cv_bands=case["cv_bands"],
                      disp_kind=case["disp_kind"], disp_bands=case["disp_bands"])
    got_cv = bands_json(cf.bands_of(c2))
    got_d = "none" if d2 is None else bands_json(cf.bands_of(d2))
    if got_cv != r["cv_bands"] or got_d != r["disp_bands"]:
        report.disagree("allocate", case, [got_cv, got_d], [r["cv_bands"], r["disp_bands"]])
    # specification: old bands kept in place, one band appended under the prefixed name, cost volume untouched
    old = case["cv_bands"] or []
    report.hit("existing_bands_same")
    report.hit("bands_appended_named")
    if got_cv[: len(old)] != old:
        fail(report, "existing_bands_same", "allocate_cv", case, got_cv)
    if [b["name"] for b in got_cv[len(old):]] != ["confidence_from_" + case["name"]] or got_cv[-1]["data"] != case["map"]:
        fail(report, "bands_appended_named", "allocate_cv", case, got_cv)
    if case["disp_kind"] != "none":
        oldd = case["disp_bands"]
        if oldd is not None:
            if got_d[: len(oldd)] != oldd:
                fail(report, "existing_bands_same", "allocate_disp", case, got_d)
            if [b["name"] for b in got_d[len(oldd):]] != ["confidence_from_" + case["name"]] or got_d[-1]["data"] != case["map"]:
                fail(report, "bands_appended_named", "allocate_disp", case, got_d)
        elif got_d != got_cv:
            fail(report, "bands_appended_named", "allocate_disp_empty", case, got_d)
    if not same_float_arrays(cost_before, c2["cost_volume"].data):
        fail(report, "cv_same", "allocate", case, None)


def gen_allocate_case(rng):
    nrow, ncol = rng.randint(1, 3), rng.randint(1, 4)

    def grid():
        return enc_grid(np.array([[rng.choice([0, 1, 2.5, -3, float("nan")]) for _ in range(ncol)] for _ in range(nrow)]))

    def bands(n, tag):
        return [{"name": f"confidence_from_{tag}{i}", "data": grid()} for i in range(n)]

    cv_kind = rng.choice(["ds", "ds", "ds", "none"])
    disp_kind = rng.choice(["none", "ds", "ds"])
    return {
        "kind": "allocate", "shape": [nrow, ncol], "name": rng.choice(["ambiguity", "risk_max.x", "intensity_std", "a.b.c"]),
        "map": grid(), "cv_kind": cv_kind, "cv_bands": rng.choice([None, bands(1, "a"), bands(3, "b")]) if cv_kind == "ds" else None,
        "disp_kind": disp_kind, "disp_bands": rng.choice([None, bands(1, "d"), bands(2, "e")]) if disp_kind == "ds" else None,
    }


# ------------------------------------------------------------------------------------------------
# pipeline stream
# ------------------------------------------------------------------------------------------------
STEMS = {"ambiguity": ["ambiguity"], "risk": ["risk_max", "risk_min"],
         "interval_bounds": ["interval_bounds_inf", "interval_bounds_sup"], "std_intensity": ["intensity_std"]}


def step_payload(name, cfg):
    """a configured confidence step as the Lean driver wants it (eta grids expanded by the model's arange)"""
    p = {"name": name, "confidence_method": cfg["confidence_method"]}
    return p


def check_pipeline(ctx, report, case):
    left, right = dec_array(case["left"], np.float32), dec_array(case["right"], np.float32)
    ml = None if case.get("mask_left") is None else dec_array(case["mask_left"]).astype(np.int16)
    dmin, dmax = case["dmin"], case["dmax"]
    steps = case["steps"]  # [[name, cfg]]
    mc = case["matching_cost"]
    tail = {"disparity": {"disparity_method": "wta", "invalid_disparity": "NaN"}}
    if case.get("validation"):
        tail["validation"] = {"validation_method": "cross_checking_accurate"}
    with_conf = {"matching_cost": dict(mc)}
    for name, cfg in steps:
        with_conf[name] = dict(cfg)
    with_conf.update(json.loads(json.dumps(tail)))
    without = {"matching_cost": dict(mc)}
    without.update(json.loads(json.dumps(tail)))
    try:
        l0, r0, m0 = cf.run_pipeline(left, right, dmin, dmax, without, ml)
    except cf.ImplRaised as exc:
        # the pipeline fails without any confidence step (e.g. image too small for the window and the disparity
        # range): outside this property's domain
        report.case(key=key_of(case), nontrivial=False)
        report.count("pipeline_rejected_without_confidence_steps")
        report.notes.append(f"pipeline without confidence steps raised: {exc}"[:300]) if len(report.notes) < 5 else None
        return
    l1, r1, m1 = cf.run_pipeline(left, right, dmin, dmax, with_conf, ml)
    report.case(key=key_of(case), nontrivial=len(steps) > 0,
                sample={"kind": "pipeline", "shape": list(left.shape), "measure": mc["matching_cost_method"],
                        "steps": [n for n, _ in steps], "validation": bool(case.get("validation"))})
    report.count(f"pipeline_steps_{len(steps)}")
    report.count("pipeline_" + mc["matching_cost_method"])
    sides = [("left", l1, l0, m1.left_cv, m0.left_cv)]
    if case.get("validation"):
        sides.append(("right", r1, r0, m1.right_cv, m0.right_cv))
    # ---- frame: cost volume, later disparity map, validity mask
    for side, d1, d0, cv1, cv0 in sides:
        report.hit("cv_same")
        if not same_float_arrays(cv1["cost_volume"].data, cv0["cost_volume"].data):
            fail(report, "cv_same", "pipeline_" + side, case, None, "cost volume differs from the run without the confidence steps")
        report.hit("later_disp_flags_same")
        if not same_float_arrays(d1["disparity_map"].data, d0["disparity_map"].data):
            fail(report, "later_disp_flags_same", "disparity_" + side, case, enc_grid(d1["disparity_map"].data))
        if not same_float_arrays(d1["validity_mask"].data, d0["validity_mask"].data):
            fail(report, "later_disp_flags_same", "validity_mask_" + side, case, enc_grid(d1["validity_mask"].data.astype(np.float64)))
    # ---- existing bands untouched by each step, on the four datasets
    for snap in m1.snaps:
        report.hit("existing_bands_same")
        for key in ("left_cv", "right_cv"):
            before, after = snap["before"].get(key), snap.get(key)
            if before is None or after is None:
                continue
            if [(n, enc_grid(d)) for n, d in after[: len(before)]] != [(n, enc_grid(d)) for n, d in before]:
                fail(report, "existing_bands_same", "pipeline_" + key, case, [n for n, _ in after], f"step {snap['step']}")
        if not same_float_arrays(snap["before"]["left_cost"], snap["left_cost"]):
            fail(report, "cv_same", "pipeline_step", case, None, f"step {snap['step']} changed the cost volume")
    # ---- names
    expected, by_step = [], []
    for name, cfg in steps:
        ind = ctx.lean.call("C12.indicator", name=name)
        for stem in STEMS[cfg["confidence_method"]]:
            expected.append("confidence_from_" + stem + ind["spec"])
            by_step.append((name, "confidence_from_" + stem + ind["model"]))
    for side, d1, d0, cv1, cv0 in sides:
        got = [n for n, _ in cf.bands_of(cv1)]
        report.hit("bands_appended_named")
        if got != expected:
            model_names = [n for _, n in by_step]
            if got != model_names:
                report.disagree("band_names_" + side, case, got, model_names)
            wrong = [by_step[i][0] for i in range(min(len(got), len(expected))) if got[i] != expected[i]]
            trig = F11B if (len(got) == len(expected) and wrong and all(w.count(".") >= 2 for w in wrong)) else "names_" + side
            fail(report, "bands_appended_named", trig, case, got, f"expected {expected}")
        dgot = [n for n, _ in cf.bands_of(d1)]
        base = [n for n, _ in cf.bands_of(d0)]  # bands other steps add to the disparity dataset (validation)
        extra = dgot[len(got):]
        if dgot[: len(got)] != got or extra != base:
            fail(report, "bands_appended_named", "disparity_dataset_" + side, case, dgot, f"cost volume bands {got}, other bands {base}")
        # the disparity dataset carries the same band values as the cost volume
        cvb, db = cf.bands_of(cv1), cf.bands_of(d1)
        if not all(same_float_arrays(a[1], b[1]) for a, b in zip(cvb, db)):
            fail(report, "existing_bands_same", "disparity_dataset_values_" + side, case, dgot)
    # ---- band values (left side, and right side when computed) against the definitions
    for side, d1, d0, cv1, cv0 in sides:
        check_pipeline_bands(ctx, report, case, side, steps, cv1, d1, left if side == "left" else right, mc)


def check_pipeline_bands(ctx, report, case, side, steps, cv1, d1, img, mc):
    cost = np.array(cv1["cost_volume"].data, dtype=np.float64)
    fin = cost[np.isfinite(cost)]
    if fin.size == 0 or fin.max() == fin.min():
        report.count("pipeline_degenerate_volume")
        return
    rng_ = float(fin.max() - fin.min())
    exact = bool(np.all(fin == np.round(fin))) and math.log2(rng_).is_integer()
    report.count("pipeline_exact_volume" if exact else "pipeline_inexact_volume")
    cv_json = enc_grid(cost)
    is_max = cv1.attrs["type_measure"] == "max"
    disp = [Fraction(float(x)) for x in cv1.coords["disp"].data]
    band_list = cf.bands_of(cv1)  # positional: two steps may produce the same name (finding F11b)
    pos = 0
    wta = np.array(d1["disparity_map"].data, dtype=np.float64)
    mthr = Fraction(1, 10 ** 5)
    raw_bounds = {}
    for name, cfg in steps:
        ind = ctx.lean.call("C12.indicator", name=name)["model"]
        method = cfg["confidence_method"]
        sub = dict(case, focus=[side, name])
        mine = band_list[pos: pos + len(STEMS[method])]
        pos += len(STEMS[method])
        if len(mine) != len(STEMS[method]):
            continue
        bands = {"confidence_from_" + stem + ind: b[1] for stem, b in zip(STEMS[method], mine)}
        by_name = dict(band_list[:pos])
        if method in ("ambiguity", "risk"):
            em, es = cfg.get("eta_max", 0.7), cfg.get("eta_step", 0.01)
            etas = cf.numba_etas(em, es)
            if method == "ambiguity":
                b = bands.get("confidence_from_ambiguity" + ind)
                if b is not None:
                    check_ambiguity(ctx, report, sub, cv_json, is_max, etas, cfg.get("normalization", True), b, exact, mthr)
            else:
                bx, bn = bands.get("confidence_from_risk_max" + ind), bands.get("confidence_from_risk_min" + ind)
                if bx is not None and bn is not None:
                    check_risk(ctx, report, sub, cv_json, is_max, etas, bx, bn, exact, mthr)
        elif method == "interval_bounds":
            bi, bs = bands.get("confidence_from_interval_bounds_inf" + ind), bands.get("confidence_from_interval_bounds_sup" + ind)
            if bi is None or bs is None:
                continue
            thr = cf.f32(cfg.get("possibility_threshold", 0.9))
            reg = cfg.get("regularization", False)
            r = check_bounds(ctx, report, sub, cv_json, is_max, thr, disp, bi, bs, wta, exact, mthr, regularised=reg,
                             bracket=(not reg) or cfg.get("quantile_regularization", 1.0) == 1.0)
            if not reg:
                raw_bounds[float(thr)] = (bi, bs)
            elif r is not None and cfg.get("quantile_regularization", 1.0) == 1.0 and float(thr) in raw_bounds:
                ri, rs = raw_bounds[float(thr)]
                w = ctx.lean.call("C12.regularize", inf=enc_grid(ri), sup=enc_grid(rs), amb=[[1]], threshold=0, kernel=1, depth=0,
                                  quantile=1, impl_inf=enc_grid(bi), impl_sup=enc_grid(bs))
                report.hit("quantile1_widens")
                if not w["widened"]:
                    fail(report, "quantile1_widens", "pipeline", sub, [enc_grid(bi), enc_grid(bs)])
                # correspondence of the regularised step: model regularisation of the implementation's raw bounds
                amb_name = "confidence_from_ambiguity" + ("." + cfg["ambiguity_indicator"] if cfg.get("ambiguity_indicator") else "")
                amb = by_name.get(amb_name)
                athr = cfg.get("ambiguity_threshold", 0.6)
                if amb is not None and not np.isnan(amb).any() and float(np.min(np.abs(amb - athr))) > 1e-5:
                    m = ctx.lean.call("C12.regularize", inf=enc_grid(ri), sup=enc_grid(rs), amb=enc_grid(amb),
                                      threshold=core.enc(Fraction(float(athr))), kernel=cfg.get("ambiguity_kernel_size", 5),
                                      depth=cfg.get("vertical_depth", 0), quantile=1)
                    if not (grids_equal(enc_grid(bi), m["model_inf"]) and grids_equal(enc_grid(bs), m["model_sup"])):
                        report.disagree("pipeline_regularization", sub, [enc_grid(bi), enc_grid(bs)], [m["model_inf"], m["model_sup"]])
        elif method == "std_intensity":
            b = bands.get("confidence_from_intensity_std" + ind)
            if b is None:
                continue
            w = mc.get("window_size", 5)
            r = ctx.lean.call("C12.std", img=enc_grid(np.asarray(img, dtype=np.float64)), window=w)
            spec_std = np.sqrt(dec_array(r["spec_var"]))
            tol = 1e-5 * max(1.0, float(np.max(np.abs(img))))
            ok = arrays_close(b, spec_std, tol)
            report.hit("std_def")
            if not ok:
                fail(report, "std_def", "pipeline_" + side, sub, enc_grid(b))


def gen_pipeline_case(rng):
    nrow, ncol = rng.randint(5, 8), rng.randint(6, 9)
    top = rng.choice([3, 7, 15])
    left = np.array([[rng.randint(0, top) for _ in range(ncol)] for _ in range(nrow)], dtype=np.float64)
    shift = rng.choice([0, 1, -1])
    right = np.roll(left, shift, axis=1)
    for _ in range(rng.randint(0, 6)):
        right[rng.randrange(nrow), rng.randrange(ncol)] = rng.randint(0, top)
    if rng.random() < 0.3:
        left[:, : ncol // 2] = left[0, 0]  # uniform region: ties
    method = rng.choice(["sad", "ssd", "census", "zncc", "sad"])
    window = rng.choice([3, 5]) if method == "census" else rng.choice([1, 3, 3, 5])
    mc = {"matching_cost_method": method, "window_size": window, "subpix": rng.choice([1, 1, 2])}
    dmin = rng.randint(-3, 1)
    dmax = dmin + rng.randint(1, 3)
    mask = None
    if rng.random() < 0.3:
        mask = np.zeros((nrow, ncol))
        for _ in range(rng.randint(1, 3)):
            mask[rng.randrange(nrow), rng.randrange(ncol)] = rng.choice([1, 2])
    steps, used = [], set()
    amb_inds = []
    n = rng.choice([0, 1, 1, 2, 2, 3, 4])
    for _ in range(n):
        method_c = rng.choice(["ambiguity", "risk", "interval_bounds", "std_intensity"])
        r = rng.random()
        if "cost_volume_confidence" not in used and r < 0.4:
            name = "cost_volume_confidence"
        else:
            i = 1
            while f"cost_volume_confidence.{i}" in used or f"cost_volume_confidence.s{i}" in used:
                i += 1
            name = rng.choice([f"cost_volume_confidence.{i}", f"cost_volume_confidence.s{i}"])
            used.add(name)
            if rng.random() < 0.12:
                name += ".x"
        used.add(name)
        cfg = {"confidence_method": method_c}
        if method_c in ("ambiguity", "risk"):
            if rng.random() < 0.7:
                em, es = rng.choice(DYADIC_ETA)
                cfg["eta_max"], cfg["eta_step"] = float(em), float(es)
            if method_c == "ambiguity":
                if rng.random() < 0.5:
                    cfg["normalization"] = rng.choice([True, False])
                amb_inds.append(name)
        elif method_c == "interval_bounds":
            cfg["possibility_threshold"] = float(rng.choice(THRESHOLDS))
            if amb_inds and rng.random() < 0.6:
                # regularised bounds need an earlier ambiguity band; put the raw bounds first
                src = rng.choice(amb_inds)
                if src.count(".") <= 1:
                    raw = dict(cfg)
                    steps.append([name, raw])
                    i = 1
                    while f"cost_volume_confidence.r{i}" in used:
                        i += 1
                    name = f"cost_volume_confidence.r{i}"
                    used.add(name)
                    cfg = dict(cfg, regularization=True, ambiguity_indicator=src.split(".")[1] if "." in src else "",
                               ambiguity_threshold=float(rng.choice([0.6, 0.5, 0.75, 1.0, 0.3])),
                               ambiguity_kernel_size=rng.choice([1, 3, 5]), vertical_depth=rng.choice([0, 1, 2]),
                               quantile_regularization=float(rng.choice([1.0, 1.0, 1.0, 0.5, 0.75])))
        steps.append([name, cfg])
    if any(c.get("regularization") for _, c in steps):  # `sel(indicator=...)` needs unambiguous ambiguity band names
        steps = [[n[:-2] if n.endswith(".x") else n, c] for n, c in steps]
    return {"kind": "pipeline", "left": enc_grid(left), "right": enc_grid(right), "mask_left": None if mask is None else enc_grid(mask),
            "dmin": dmin, "dmax": dmax, "matching_cost": mc, "steps": steps, "validation": rng.random() < 0.3}


# ------------------------------------------------------------------------------------------------
# dispatch, run, search, replay
# ------------------------------------------------------------------------------------------------
CHECKS = {"kernels": check_kernels, "regul": check_regul, "std": check_std, "allocate": check_allocate, "pipeline": check_pipeline}
# the clause a crash of the real code is charged to, per stream
CRASH_CLAUSE = {"kernels": "bands_appended_named", "regul": "quantile1_widens", "std": "std_def",
                "allocate": "bands_appended_named", "pipeline": "bands_appended_named"}


def check_case(ctx, report, case):
    try:
        CHECKS[case["kind"]](ctx, report, case)
    except cf.ImplRaised as exc:
        # the implementation raised on an input of the property's domain: no band was appended
        report.case(key=key_of(case), nontrivial=True)
        fail(report, CRASH_CLAUSE[case["kind"]], f"raises_{exc.kind}_in_{exc.where}", case, None, str(exc)[:500])


def translator_cross_check(report, status):
    """the constants the translator read from the source text equal the live class attributes"""
    try:
        from translator import gen_confidence
    except ImportError:
        return
    try:
        gen = gen_confidence.extract()
    except Exception:  # already reported by build_and_audit  # pylint: disable=broad-except
        return
    from pandora.cost_volume_confidence import ambiguity, interval_bounds, risk, std_intensity
    from pandora.cost_volume_confidence.cost_volume_confidence import AbstractCostVolumeConfidence as A

    live = {
        "ambiguity": [ambiguity.Ambiguity._method],  # pylint: disable=protected-access
        "risk": [risk.Risk._method_max, risk.Risk._method_min],  # pylint: disable=protected-access
        "interval_bounds": [interval_bounds.IntervalBounds._method + "_inf", interval_bounds.IntervalBounds._method + "_sup"],  # pylint: disable=protected-access
        "std_intensity": [std_intensity.StdIntensity._method],  # pylint: disable=protected-access
    }
    report.translator_checks += 1
    if gen["stems"] != live:
        status.problem("translator", f"generated band stems {gen['stems']} differ from the live classes {live}")
    report.translator_checks += 1
    if sorted(gen["registered"]) != sorted(A.confidence_methods_avail):
        status.problem("translator", f"registered methods {gen['registered']} differ from the live registry {sorted(A.confidence_methods_avail)}")
    # the indicator rule as READ (gen_confidence.eval_rule on the extracted record, the thing Properties/C12Names.lean evaluates)
    # against the indicator statements of `cost_volume_confidence_run` themselves, executed by CPython on step names with 0-4 dots
    import ast as _ast
    import random as _random

    from translator import common as _common

    report.translator_checks += 1
    try:
        fn = _common.find_method(_common.find_class(_common.parse(gen_confidence.MACHINE), "PandoraMachine"), "cost_volume_confidence_run")
        stmts = [n for n in fn.body if isinstance(n, (_ast.Assign, _ast.If))
                 and any(gen_confidence.is_indicator_target(t) for a in _ast.walk(n) if isinstance(a, _ast.Assign) for t in a.targets)]
        code = compile(_ast.fix_missing_locations(_ast.Module(body=stmts, type_ignores=[])), "<indicator statements>", "exec")
        rng = _random.Random(12)
        names = list(gen_confidence.GOLDEN_STEPS)
        for _ in range(200):
            names.append(".".join("".join(rng.choice("ab_1") for _ in range(rng.randint(0, 3))) for _ in range(rng.randint(1, 5))))
        for step in names:
            env = {"cfg": {"pipeline": {step: {}}}, "input_step": step}
            exec(code, env)  # pylint: disable=exec-used
            live = env["cfg"]["pipeline"][step]["indicator"]
            read = gen_confidence.eval_rule(gen["rule"], step)
            if live != read:
                status.problem("translator", f"indicator rule read as {gen['rule']} gives {read!r} on step {step!r}, the source statements give {live!r}")
                break
    except Exception as exc:  # pylint: disable=broad-except
        status.problem("translator", f"indicator statements of cost_volume_confidence_run could not be executed: {type(exc).__name__}: {exc}")


def kernel_cross_check(ctx, report, status):
    """The REAL compiled `compute_ambiguity`, `compute_ambiguity_and_sampled_ambiguity`, `compute_risk`,
    `compute_interval_bounds` on a few hundred small cost volumes
    against the translator's exact reading of their source (`pyvec.evaluate_px` on the per-pixel tree the Lean text of
    Generated/KernelsConf.lean is printed from; Lean's own reading of that text is checked at build time by the generated
    `example`s).  Dyadic data: every float operation of the kernels is exact, so the comparison is exact (the eta-means of
    the risk are one float64 division stored as float32: the exact value is rounded the same way).  A mismatch means the
    translator misreads Python/numpy -> `status.problem("translator", …)`."""
    import random

    from translator import gen_kernels_conf, pyvec

    try:
        ks = gen_kernels_conf.kernels(strict=False)
    except Exception:  # already reported by build_and_audit (translate())  # pylint: disable=broad-except
        return
    for name, why in getattr(gen_kernels_conf.kernels, "problems", {}).items():
        report.notes.append(f"translator: {name} is outside the subset: {why}"[:300])
    from pandora.cost_volume_confidence import ambiguity, interval_bounds, risk

    report.translator_checks += 1
    rng = random.Random(ctx.seed * 104729 + 12)  # its own stream: the streams of `run` keep their cases

    def fl(x):
        x = float(x)
        return pyvec.FNAN if math.isnan(x) else (pyvec.PINF if x == math.inf else pyvec.NINF if x == -math.inf else Fraction(x))

    def same(exact_val, real):  # exact value of the reading vs a float32 cell (or a vector of them)
        if isinstance(real, list):
            return isinstance(exact_val, list) and len(exact_val) == len(real) and all(same(v, w) for v, w in zip(exact_val, real))
        if isinstance(exact_val, list):
            return False
        if isinstance(exact_val, str):
            return fl(real) == exact_val
        return not math.isnan(float(real)) and float(np.float32(float(exact_val))) == float(real)

    problems = 0
    for _ in range(ctx.n(160, 1500)):
        cost, disp = gen_volume(rng, max_rows=3, max_cols=4, max_disp=7)
        cost = np.ascontiguousarray(cost, dtype=np.float32)
        if not np.isfinite(cost).any():
            continue
        if rng.random() < 0.05:
            cost[...] = np.where(np.isnan(cost), np.nan, cost[np.isfinite(cost)][0])  # a constant volume: 0/0
        eta_max, eta_step = rng.choice(DYADIC_ETA)
        thr = rng.choice(THRESHOLDS)
        tf = rng.choice([-1.0, 1.0])
        etas = cf.numba_etas(float(eta_max), float(eta_step))
        f4 = np.float32
        args = (f4(0.0), f4(float(eta_max)), f4(float(eta_step)))
        gmin, gmax = fl(np.nanmin(cost)), fl(np.nanmax(cost))
        dispf = np.array([float(d) for d in disp], dtype=np.float32)
        with np.errstate(all="ignore"):
            amb = ambiguity.Ambiguity.compute_ambiguity(cost, *args)
            amb2, sampled = ambiguity.Ambiguity.compute_ambiguity_and_sampled_ambiguity(cost, *args)
            rmax, rmin = risk.Risk.compute_risk(cost, sampled, *args)
            rmax2, rmin2, srmax, srmin = risk.Risk.compute_risk_and_sampled_risk(cost, sampled, *args)
            binf, bsup = interval_bounds.IntervalBounds.compute_interval_bounds(cost, dispf, f4(float(thr)), f4(tf))
        report.count("kernel_translation_calls")
        for r in range(cost.shape[0]):
            for c in range(cost.shape[1]):
                curve = [fl(x) for x in cost[r, c, :]]
                base = {"min_cost": gmin, "max_cost": gmax}
                got = {}
                want = {"computeAmbiguityPx": [amb[r, c]], "computeAmbiguitySampledPx": [amb2[r, c], [x for x in sampled[r, c, :]]],
                        "computeRiskPx": [rmax[r, c], rmin[r, c]],
                        "computeRiskSampledPx": [rmax2[r, c], rmin2[r, c], [x for x in srmax[r, c, :]], [x for x in srmin[r, c, :]]],
                        "computeIntervalBoundsPx": [binf[r, c], bsup[r, c]]}
                for name, k in ks.items():
                    a = {}
                    for n, _, role in k.lean_params:
                        kind, _, what = role.partition(":")
                        if kind == "slice":
                            a[n] = curve if what == "cv" else [fl(x) for x in sampled[r, c, :]]
                        elif kind == "whole":
                            a[n] = [fl(x) for x in dispf]
                        elif kind == "gmin":
                            a[n] = gmin
                        elif kind == "gmax":
                            a[n] = gmax
                        elif kind == "arange":
                            a[n] = list(etas)
                        elif kind == "scalar":
                            a[n] = {"possibility_threshold": Fraction(float(f4(float(thr)))), "type_factor": Fraction(tf)}[what]
                    try:
                        res, vals = pyvec.evaluate_px(k, a)
                    except Exception as exc:  # pylint: disable=broad-except
                        res, vals = f"{type(exc).__name__}: {exc}", None
                    got[name] = (res, vals)
                    if res != "ok" or len(vals) != len(want[name]) or not all(same(v, w) for v, w in zip(vals, want[name])):
                        problems += 1
                        if problems <= 3:
                            status.problem("translator", f"translated {k.py_name} evaluates differently from the real kernel on curve={cost[r, c, :].tolist()} "
                                           f"min={gmin} max={gmax} etas={[str(e) for e in etas]} threshold={thr} type_factor={tf}",
                                           f"real={[([float(y) for y in x] if isinstance(x, list) else float(x)) for x in want[name]]} reading={res} {[str(v) for v in (vals or [])]}")


def regul_cross_check(ctx, report, status):
    """The REAL compiled `create_connected_graph(border_left, border_right, depth)`, depth 0-5, against the translator's exact
    reading of the whole function (`gen_kernels_regul.evaluate_whole` on the tree `Generated/KernelsRegul.lean` is printed
    from: identity branch, connection scan, closure nest) on random segment lists: row-major as `np.argwhere` lists them,
    and arbitrary ones (the equality theorem holds for every list).  A mismatch -> `status.problem("translator", …)`."""
    import random

    try:
        from translator import gen_kernels_regul
        x = gen_kernels_regul.extract_whole()
    except Exception:  # already reported by build_and_audit (translate())  # pylint: disable=broad-except
        return
    from pandora import interval_tools

    report.translator_checks += 1
    for msg in gen_kernels_regul.selftest():   # 16 rewrites that must be refused, 2 that must read as the same function
        status.problem("translator", f"gen_kernels_regul self-test: {msg}")
    report.translator_checks += 1
    rng = random.Random(ctx.seed * 7919 + 12)
    problems = 0
    for it in range(ctx.n(150, 1500)):
        n = rng.choice([0, 1, 2, 3, 4, 5, 6, 8])
        segs = []
        for _ in range(n):
            r, c0 = rng.randint(0, 3), rng.randint(0, 6)
            segs.append((r, c0, c0 + rng.randint(0, 3)))
        if it % 3:
            segs.sort()
        bl = [[r, c0] for r, c0, _ in segs]
        br = [[r, c1] for r, _, c1 in segs]
        depth = rng.choice([0, 1, 1, 2, 3, 5])
        real = interval_tools.create_connected_graph(np.array(bl, dtype=np.int64).reshape((n, 2)), np.array(br, dtype=np.int64).reshape((n, 2)), depth)
        want = gen_kernels_regul.evaluate_whole(x, bl, br, depth)
        report.count("regul_translation_calls")
        if [[bool(v) for v in row] for row in real.tolist()] != want:
            problems += 1
            if problems <= 3:
                status.problem("translator", f"translated create_connected_graph evaluates differently from the real function on "
                               f"border_left={bl} border_right={br} depth={depth}", f"real={real.astype(int).tolist()} reading={[[int(v) for v in r] for r in want]}")


def graphreg_cross_check(ctx, report, status):
    """The REAL compiled `graph_regularization` against the translator's exact reading of its aggregation loop
    (`gen_kernels_regul.evaluate_graphreg`, with numba's nanquantile rule written exactly: min / max shortcuts, single value,
    `lower * (1 - m) + upper * m`) on random integer grids with NaN, valid segments, ANY Boolean graph with the diagonal set,
    dyadic quantiles (every float operation exact)."""
    import random

    try:
        from translator import gen_kernels_regul
        x = gen_kernels_regul.extract_graphreg()
    except Exception:  # already reported by build_and_audit (translate())  # pylint: disable=broad-except
        return
    from pandora import interval_tools

    def nanq(vals, q):
        xs = [v for v in vals if v != "nan"]
        if not xs:
            return "nan"
        if len(xs) == 1:
            return xs[0]
        if q == 1:
            return max(xs)
        if q == 0:
            return min(xs)
        srt = sorted(xs)
        rank = 1 + (len(xs) - 1) * Fraction(q)
        f = rank.numerator // rank.denominator
        m = rank - f
        lower = srt[f - 1]
        upper = srt[f] if f < len(srt) else lower
        return lower * (1 - m) + upper * m

    report.translator_checks += 1
    rng = random.Random(ctx.seed * 31 + 12)
    problems = 0
    for _ in range(ctx.n(120, 1200)):
        nr, nc = rng.randint(1, 4), rng.randint(3, 8)
        def grid():
            return [[("nan" if rng.random() < 0.12 else Fraction(rng.randint(-6, 6))) for _ in range(nc)] for _ in range(nr)]
        inf, sup = grid(), grid()
        segs = []
        for r in range(nr):
            c = 0
            while c < nc and len(segs) < 7:
                c += rng.randint(0, 2)
                if c >= nc:
                    break
                e = min(nc - 1, c + rng.randint(0, 2))
                segs.append((r, c, e))
                c = e + 2
        if not segs:
            continue
        n = len(segs)
        bl = [[r, c] for r, c, _ in segs]
        br = [[r, e] for r, _, e in segs]
        graph = [[(a == b) or rng.random() < 0.3 for b in range(n)] for a in range(n)]
        q = rng.choice([Fraction(0), Fraction(1, 4), Fraction(1, 2), Fraction(3, 4), Fraction(1)])
        toarr = lambda g: np.array([[np.nan if v == "nan" else float(v) for v in row] for row in g], dtype=np.float32)
        with np.errstate(all="ignore"):
            ri, rs, _ = interval_tools.graph_regularization(toarr(inf), toarr(sup), np.array(bl, dtype=np.int64), np.array(br, dtype=np.int64),
                                                            np.array(graph, dtype=np.bool_), float(q))
        wi, ws = gen_kernels_regul.evaluate_graphreg(x, inf, sup, bl, br, graph, q, nanq)
        report.count("graphreg_translation_calls")

        def same(want, real):
            for wr, rr in zip(want, real.tolist()):
                for w, r in zip(wr, rr):
                    if (w == "nan") != math.isnan(r) or (w != "nan" and float(np.float32(float(w))) != r):
                        return False
            return True
        if not (same(wi, ri) and same(ws, rs)):
            problems += 1
            if problems <= 3:
                status.problem("translator", f"translated graph_regularization evaluates differently from the real function on inf={enc_grid(toarr(inf))} "
                               f"sup={enc_grid(toarr(sup))} border_left={bl} border_right={br} graph={[[int(v) for v in r] for r in graph]} quantile={q}",
                               f"real={ri.tolist()} {rs.tolist()} reading={[[str(v) for v in r] for r in wi]} {[[str(v) for v in r] for r in ws]}")


    # the WHOLE interval_regularization: segments read from the numpy statements, graph, aggregation
    try:
        xb = gen_kernels_regul.extract_borders()
        xw = gen_kernels_regul.extract_whole()
    except Exception:  # pylint: disable=broad-except
        return
    report.translator_checks += 1
    for _ in range(ctx.n(120, 1200)):
        nr, nc = rng.randint(1, 4), rng.randint(1, 9)
        inf = [[("nan" if rng.random() < 0.1 else Fraction(rng.randint(-6, 6))) for _ in range(nc)] for _ in range(nr)]
        sup = [[("nan" if rng.random() < 0.1 else Fraction(rng.randint(-6, 6))) for _ in range(nc)] for _ in range(nr)]
        amb = [[("nan" if rng.random() < 0.08 else Fraction(rng.randint(0, 8), 8)) for _ in range(nc)] for _ in range(nr)]
        thr = Fraction(rng.randint(0, 8), 8)
        ksz = rng.choice([1, 3, 3, 5])
        depth = rng.choice([0, 1, 2, 3])
        q = rng.choice([Fraction(0), Fraction(1, 4), Fraction(1, 2), Fraction(3, 4), Fraction(1)])
        toarr = lambda g, dt=np.float32: np.array([[np.nan if v == "nan" else float(v) for v in row] for row in g], dtype=dt)
        try:
            with np.errstate(all="ignore"):
                ri, rs, _ = interval_tools.interval_regularization(toarr(inf), toarr(sup), toarr(amb, np.float64), float(thr), ksz, depth, float(q))
        except Exception:  # the real function refuses the input (kernel wider than the padded row …): outside the reading  # pylint: disable=broad-except
            report.count("graphreg_real_raises")
            continue
        bl, br = gen_kernels_regul.evaluate_borders(xb, amb, thr, ksz)
        graph = gen_kernels_regul.evaluate_whole(xw, bl, br, depth)
        wi, ws = gen_kernels_regul.evaluate_graphreg(x, inf, sup, bl, br, graph, q, nanq)
        report.count("interval_regularization_translation_calls")

        def same2(want, real):
            for wr, rr in zip(want, real.tolist()):
                for w, r in zip(wr, rr):
                    if (w == "nan") != math.isnan(r) or (w != "nan" and float(np.float32(float(w))) != r):
                        return False
            return True
        if not (same2(wi, ri) and same2(ws, rs)):
            problems += 1
            if problems <= 3:
                status.problem("translator", f"translated interval_regularization evaluates differently from the real function on inf={enc_grid(toarr(inf))} "
                               f"sup={enc_grid(toarr(sup))} amb={[[str(v) for v in r] for r in amb]} threshold={thr} kernel={ksz} depth={depth} quantile={q}",
                               f"real={ri.tolist()} {rs.tolist()} reading={[[str(v) for v in r] for r in wi]} {[[str(v) for v in r] for r in ws]} segments={bl} {br}")


def run(ctx, report, status):
    translator_cross_check(report, status)
    kernel_cross_check(ctx, report, status)
    regul_cross_check(ctx, report, status)
    graphreg_cross_check(ctx, report, status)
    report.rule = (
        "kernels: random 1-5 x 1-7 x 1-9 cost volumes (integer / quarter / few-valued / ramp costs, global range a power of two, "
        "NaN holes, all-NaN pixels, missing planes, full ties), min and max measures, dyadic eta grids and thresholds -> exact "
        "comparison of ambiguity, risk, interval bounds, winner-takes-all with the Lean model and evaluation of the Lean "
        "specification on the implementation's bands; default: eta grid 0.7/0.01; regul: random bound/ambiguity grids through "
        "interval_regularization; std: integer images, windows 1/3/5; allocate: allocate_confidence_map in its dataset "
        "situations; pipeline: pandora.run with 0-4 confidence steps vs the same pipeline without them. Non-trivial = at "
        "least two distinct finite costs / one segment / one confidence step; distinct by full input."
    )
    rng = ctx.rng
    for name, case in core.load_corpus(PROP):
        check_case(ctx, report, case.get("input", case))
        report.count("corpus_cases")
    for _ in range(ctx.n(110, 1500)):
        check_case(ctx, report, gen_kernel_case(rng))
    for _ in range(ctx.n(16, 200)):
        check_case(ctx, report, gen_kernel_case(rng, default_eta=True))
    for _ in range(ctx.n(100, 1500)):
        check_case(ctx, report, gen_regul_case(rng))
    for _ in range(ctx.n(30, 400)):
        check_case(ctx, report, gen_std_case(rng))
    for _ in range(ctx.n(40, 400)):
        check_case(ctx, report, gen_allocate_case(rng))
    for _ in range(ctx.n(40, 400)):
        check_case(ctx, report, gen_pipeline_case(rng))


def search(ctx, report, status):
    """Directed search after a broken obligation / disagreement: the generated streams again with the specification
    as oracle (known findings ignored), then small exhaustive volumes (1 x 2 pixels x 3 disparities over {0, 1, 2, 4, NaN})."""
    known = {(k["clause"], k["trigger"]) for k in core.load_known(PROP)}

    def first_unknown(sub):
        for f in sub.failures:
            if (f["clause"], f["trigger"]) not in known:
                return f
        return None

    # 1. disagreeing cases already found
    for d in report.disagreements:
        sub = core.Report(PROP, ctx.tier, ctx.seed)
        try:
            check_case(ctx, sub, {k: v for k, v in d["case"].items() if k != "focus"})
        except Exception:  # pylint: disable=broad-except
            continue
        f = first_unknown(sub)
        if f:
            return f
    # 2. small exhaustive volumes
    import itertools

    vals = [0, 1, 2, 4, "nan"]
    sub = core.Report(PROP, ctx.tier, ctx.seed)
    for px0 in itertools.product(vals, repeat=3):
        for px1 in ((0, 4, 2), (4, 0, 0), ("nan", 0, 4), (4, 4, 0)):
            for tm in ("min", "max"):
                case = {"kind": "kernels", "cost": [[list(px0), list(px1)]], "disp": [-1, 0, 1], "type_measure": tm,
                        "eta_max": "1/2", "eta_step": "1/4", "threshold": "3/4", "exact": True}
                check_case(ctx, sub, case)
                f = first_unknown(sub)
                if f:
                    return f
    # 3. the random streams with a different seed
    import random

    rng = random.Random(ctx.seed + 7919)
    gens = [gen_kernel_case, gen_regul_case, gen_std_case, gen_allocate_case, gen_pipeline_case]
    for i in range(600):
        sub = core.Report(PROP, ctx.tier, ctx.seed)
        check_case(ctx, sub, gens[i % len(gens)](rng))
        f = first_unknown(sub)
        if f:
            return f
    return None


def replay(ctx, report, path):
    with open(path, encoding="utf-8") as f:
        data = json.load(f)
    case = data["input"] if "input" in data else data
    case = {k: v for k, v in case.items() if k != "focus"}
    check_case(ctx, report, case)
    known = {(k["clause"], k["trigger"]) for k in core.load_known(PROP)}
    for fl in report.failures:
        tag = "known finding" if (fl["clause"], fl["trigger"]) in known else "spec failure"
        print(f"{tag}:", fl["clause"], fl["trigger"], str(fl["detail"])[:300])
    for d in report.disagreements:
        print("disagreement:", d["what"], json.dumps(d["impl"], default=str)[:300], "model:", json.dumps(d["model"], default=str)[:300])
    print("replayed: failures=%d disagreements=%d" % (len(report.failures), len(report.disagreements)))
    return 1 if report.failures else 0
