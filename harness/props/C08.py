"""C08 — right-image products equal the left products of the mirrored problem."""
from __future__ import annotations

import json

import numpy as np

from .. import core
from ..impl import machine_stubs as ms
from ..impl import pipelines as pl

PROP = "C08"

LEFT_NAMES = {"left_img", "left_cv", "left_disparity", "disp_min", "disp_max", "dmin_user", "dmax_user", "img_left_pyramid"}
RIGHT_NAMES = {"right_img", "right_cv", "right_disparity", "right_disp_min", "right_disp_max", "dmin_user_right",
               "dmax_user_right", "img_right_pyramid"}
LOGGED = {"allocate_cost_volume", "compute_cost_volume", "cv_masked", "cost_volume_aggregation", "optimize_cv",
          "compute_semantic_segmentation", "confidence_prediction", "to_disp", "filter_disparity", "subpixel_refinement",
          "disparity_checking", "disparity_range"}


def translate():
    from translator import registry

    return registry.generate("Wiring", "Transitions")


def expected_calls(cb, right):
    """(method, side) sequence the generated wiring predicts for one callback execution"""
    effs = list(cb["left"]) + ([e for e in cb["right"] if not e["optional"]] if right else []) + list(cb["after"])
    out = []
    for e in effs:
        if e["fn"] not in LOGGED:
            continue
        side = "L" if set(e["targets"]) & LEFT_NAMES else ("R" if set(e["targets"]) & RIGHT_NAMES else "?")
        out.append([e["fn"], side])
    return out


def wiring_cross_check(ctx, report, status):
    """the wiring extracted from the source text predicts the order and the side of every call the real callbacks
    make on (stub) step objects"""
    try:
        from translator import gen_wiring

        data = gen_wiring.extract()
    except Exception:  # reported by build_and_audit
        return
    cbs = {c["name"]: c for c in data["callbacks"]}
    from .C01 import decorate, random_kinds

    rng = ctx.rng
    n_checked = 0
    for _ in range(ctx.n(120, 1500)):
        kinds = random_kinds(rng)
        names = decorate(rng, kinds)
        ops = [{"op": "check", "names": names}, {"op": "run", "names": names, "num_scales": rng.choice([1, 2, 3]) if "multiscale" in names else 1}]
        ms.register_stubs()
        # run and keep the class-level log per callback
        left, right = ms.make_image("L", 8, 8), ms.make_image("R", 8, 8, disp=False)
        m = ms.LoggedMachine()
        m.orig_left = left
        import pandora

        with ms.patched_validity_mask():
            try:
                m.check_conf({"pipeline": ms.stub_pipeline(names)}, left, right)
            except Exception:  # pylint: disable=broad-except
                continue
            extra = {n: {"num_scales": ops[1]["num_scales"], "scale_factor": 2} for n in names if n.split(".")[0] == "multiscale"}
            cfg = {"pipeline": ms.stub_pipeline(names, extra)}
            m.cb_log = []
            del ms.LOG[:]
            # wrap: record LOG slices per callback
            per_cb = []
            orig_wrappers = {}
            try:
                pandora.run(m, left, right, cfg)
            except Exception as exc:  # pylint: disable=broad-except
                report.notes.append(f"stub run raised {type(exc).__name__}")
                continue
        # rebuild per-callback slices from the callback log (sides per first method) and the global LOG order
        log = list(ms.LOG)
        pos = 0
        rightflag = bool(m.right_disp_map)
        for ev in m.cb_log:
            if ev[0] != "run":
                continue
            _, cb, _name, _scale, _sides = ev[:5]
            exp = expected_calls(cbs[cb], rightflag)
            got = [[meth, side] for (meth, _t, side) in log[pos:pos + len(exp)]]
            pos += len(exp)
            n_checked += 1
            if got != exp:
                status.problem("translator", f"wiring of {cb}: source predicts {exp}, real callback did {got}")
                report.disagree("wiring", {"names": names, "callback": cb}, got, exp)
                return
        if pos != len(log):
            status.problem("translator", f"calls not accounted for by the wiring: {log[pos:pos+3]}")
            return
    report.translator_checks += n_checked
    report.count("wiring_callbacks_checked", n_checked)


def compare_products(a, b):
    """first difference between two product dicts, or None"""
    if a["confidence_names"] != b["confidence_names"]:
        return {"var": "confidence band names", "a": a["confidence_names"], "b": b["confidence_names"]}
    for var in ("disparity_map", "validity_mask", "confidence_measure"):
        if not pl.same_array(a[var], b[var]):
            return {"var": var, "diff": pl.first_diff(a[var], b[var])}
    return None


def describe(left, right, pipe, dmin, dmax, seed_case):
    return {
        "left_im": core.enc(np.asarray(left["im"].data).tolist()),
        "right_im": core.enc(np.asarray(right["im"].data).tolist()),
        "left_msk": np.asarray(left["msk"].data).tolist() if "msk" in left else None,
        "right_msk": np.asarray(right["msk"].data).tolist() if "msk" in right else None,
        "disp": [dmin, dmax], "pipeline": pipe, "case": seed_case,
    }


def rebuild(case):
    import xarray as xr

    def mk(im, msk, side, disp):
        im = np.array([[float(core.dec(v)) for v in row] for row in im], dtype=np.float32) if not isinstance(im[0][0], list) else \
            np.array([[[float(core.dec(v)) for v in row] for row in band] for band in im], dtype=np.float32)
        rows, cols = im.shape[-2:]
        if im.ndim == 2:
            ds = xr.Dataset({"im": (["row", "col"], im)}, coords={"row": np.arange(rows), "col": np.arange(cols)})
        else:
            ds = xr.Dataset({"im": (["band_im", "row", "col"], im)},
                            coords={"band_im": ["r", "g", "b"][: im.shape[0]], "row": np.arange(rows), "col": np.arange(cols)})
        if disp is not None:
            d = np.stack([np.full((rows, cols), disp[0], dtype=np.float32), np.full((rows, cols), disp[1], dtype=np.float32)])
            ds["disparity"] = xr.DataArray(d, dims=["band_disp", "row", "col"], coords={"band_disp": ["min", "max"]})
        if msk is not None:
            ds["msk"] = xr.DataArray(np.array(msk, dtype=np.int16), dims=["row", "col"])
        ds.attrs = {"no_data_img": -9999, "valid_pixels": 0, "no_data_mask": 1, "crs": None, "transform": None,
                    "disparity_source": disp, "side": side}
        return ds

    return (mk(case["left_im"], case["left_msk"], "L", case["disp"]), mk(case["right_im"], case["right_msk"], "R", None))


def mirror_case(report, left, right, pipe, dmin, dmax, label):
    case = describe(left, right, pipe, dmin, dmax, label)
    has_val = "validation" in pipe
    try:
        a_l, a_r, _ = pl.run_pipeline(left.copy(deep=True), right.copy(deep=True), pipe)
    except ZeroDivisionError:
        report.count("skipped_zero_division")  # C06's finding (quadratic on a flat cost curve), not C08's subject
        return
    key = json.dumps([case["left_im"], case["right_im"], pipe, dmin, dmax], sort_keys=True, default=str)
    report.case(key=hash(key), nontrivial=has_val, sample={"pipeline": pipe, "disp": [dmin, dmax], "shape": list(left["im"].shape)})
    if not has_val:
        report.hit("no_validation_right_empty")
        if len(a_r.data_vars) != 0:
            report.fail("no_validation_right_empty", "right_not_empty", case, {"right_vars": list(a_r.data_vars)})
        # adding a cross-checking step without filling changes nothing in the left disparity map
        pipe2 = dict(pipe)
        pipe2["validation"] = {"validation_method": "cross_checking_accurate"}
        b_l, _b_r, _ = pl.run_pipeline(left.copy(deep=True), right.copy(deep=True), pipe2)
        report.hit("cc_no_fill_left_disp_same")
        if not pl.same_array(np.array(a_l["disparity_map"].data), np.array(b_l["disparity_map"].data)):
            report.fail("cc_no_fill_left_disp_same", "left_disp_changed", case,
                        pl.first_diff(np.array(a_l["disparity_map"].data), np.array(b_l["disparity_map"].data)))
        return
    ml, mr = pl.exchanged(left, right, dmin, dmax)
    b_l, b_r, _ = pl.run_pipeline(ml, mr, pipe)
    pa_l, pa_r, pb_l, pb_r = pl.products(a_l), pl.products(a_r), pl.products(b_l), pl.products(b_r)
    report.hit("right_eq_mirror_left")
    d = compare_products(pa_r, pb_l)
    if d is not None:
        trig = "interp" if "interpolated_disparity" in pipe["validation"] else "plain"
        report.fail("right_eq_mirror_left", f"{d['var']}:{trig}", case, d)
    report.hit("left_eq_mirror_right")
    d = compare_products(pa_l, pb_r)
    if d is not None:
        trig = "interp" if "interpolated_disparity" in pipe["validation"] else "plain"
        report.fail("left_eq_mirror_right", f"{d['var']}:{trig}", case, d)


def gen_multiscale_case(rng):
    """a multiscale pipeline with validation; interval bounds that are not multiples of factor^num_scales"""
    ns, f = rng.choice([(2, 2), (2, 2), (3, 2), (2, 3)])
    base = f ** (ns - 1)
    rows = rng.randrange(7, 10) * base - rng.randrange(0, base)
    cols = rng.randrange(10, 13) * base - rng.randrange(0, base)
    lo = -rng.choice([1, 2, 3]) * base + rng.choice([0, 1])
    hi = rng.choice([1, 2, 3]) * base - rng.choice([0, 1])
    left, right = pl.make_pair(rng, rows, cols, lo, hi, masks=rng.random() < 0.3)
    pipe = {"matching_cost": {"matching_cost_method": rng.choice(["sad", "zncc", "census"]), "window_size": 3},
            "disparity": {"disparity_method": "wta", "invalid_disparity": -9999}}
    if rng.random() < 0.5:
        pipe["filter"] = {"filter_method": "median", "filter_size": 3}
    pipe["validation"] = {"validation_method": "cross_checking_accurate"}
    pipe["multiscale"] = {"multiscale_method": "fixed_zoom_pyramid", "num_scales": ns, "scale_factor": f, "marge": rng.choice([0, 1])}
    return left, right, pipe, lo, hi


def gen_case(rng):
    if rng.random() < 0.2:
        return gen_multiscale_case(rng)
    rows, cols = rng.choice([(8, 12), (10, 14), (9, 16), (12, 10)])
    lo = rng.choice([-3, -2, -1, 0, 1])
    hi = lo + rng.choice([0, 1, 2, 3, 4])
    bands = ["r", "g", "b"] if rng.random() < 0.25 else None
    left, right = pl.make_pair(rng, rows, cols, lo, hi, bands=bands, masks=rng.random() < 0.4)
    pipe = pl.gen_pipeline(rng, allow_agg=bands is None)
    if bands and rng.random() < 0.6:
        # bands are selected by name: the right image may store them in another order (seed C08-5: a band position
        # remembered from the left/right call and reused for the right/left one)
        perm = rng.choice([[2, 0, 1], [1, 2, 0], [1, 0, 2], [2, 1, 0]])
        attrs = dict(right.attrs)
        right = right.isel(band_im=perm).copy(deep=True)
        right.attrs = attrs
    if bands:
        pipe["matching_cost"]["band"] = rng.choice(bands)
        # multiband + subpix > 1 raises in the matching cost classes (C02's finding, not C08's subject)
        pipe["matching_cost"]["subpix"] = 1
        pipe = {k: v for k, v in pipe.items() if not k.startswith("cost_volume_confidence") or v["confidence_method"] != "std_intensity"}
    return left, right, pipe, lo, hi


def run(ctx, report, status):
    report.rule = (
        "real differential: pandora.run on a small pair and on the exchanged pair (images and masks exchanged, interval negated "
        "and swapped) with random legal pipelines over the built-in classes, products compared bit for bit; plus the wiring "
        "extracted from the source checked against the calls the real callbacks make on stub step objects; non-trivial = "
        "pipeline with a validation step; distinct by (images, pipeline, interval)"
    )
    wiring_cross_check(ctx, report, status)
    for name, case in core.load_corpus(PROP):
        left, right = rebuild(case)
        mirror_case(report, left, right, case["pipeline"], case["disp"][0], case["disp"][1], "corpus:" + name)
    rng = ctx.rng
    for i in range(ctx.n(60, 800)):
        left, right, pipe, lo, hi = gen_case(rng)
        mirror_case(report, left, right, pipe, lo, hi, f"rnd{i}")


def search(ctx, report, status):
    sub = core.Report(PROP, ctx.tier, ctx.seed)
    rng = ctx.rng
    for i in range(150):
        left, right, pipe, lo, hi = gen_case(rng)
        mirror_case(sub, left, right, pipe, lo, hi, f"search{i}")
        if sub.failures:
            return sub.failures[0]
    return None


def replay(ctx, report, path):
    with open(path, encoding="utf-8") as f:
        data = json.load(f)
    case = data.get("input", data)
    left, right = rebuild(case)
    mirror_case(report, left, right, case["pipeline"], case["disp"][0], case["disp"][1], "replay")
    for fl in report.failures:
        print("spec failure:", fl["clause"], fl["trigger"], json.dumps(fl["impl"], default=str)[:400])
    print("replayed: failures=%d" % len(report.failures))
    return 1 if report.failures else 0
